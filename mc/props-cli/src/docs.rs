//! Fixed input documents used by the process-level checks.
use refmodel::eip712::Doc;
use refmodel::json::J;
use refmodel::nat::Nat;
use refmodel::tx::{Kind, Tx};
use refmodel::txjson;

pub fn sample_tx() -> Tx { let mut t = txjson::template(Kind::Eip1559, true); t.data = vec![0xde, 0xad, 0xbe, 0xef]; t.value = Nat::from_dec("1000000000000000000").unwrap(); t.access_list = vec![([0xc1; 20], vec![[0x01; 32]])]; t }
pub fn sample_legacy() -> Tx { let mut t = txjson::template(Kind::Legacy, true); t.chain_id = Some(Nat::from_u64(1)); t.nonce = Nat::from_u64(9); t }
pub fn mail_doc() -> Doc {
    let sv = |v: Vec<(&str, &str)>| v.into_iter().map(|(a, b)| (a.to_string(), b.to_string())).collect::<Vec<_>>();
    let person = |n: &str, w: &str| J::obj(vec![("name", J::s(n)), ("wallet", J::s(w))]);
    Doc { types: vec![("EIP712Domain".into(), sv(vec![("name", "string"), ("version", "string"), ("chainId", "uint256"), ("verifyingContract", "address")])), ("Person".into(), sv(vec![("name", "string"), ("wallet", "address")])), ("Mail".into(), sv(vec![("from", "Person"), ("to", "Person"), ("contents", "string")]))],
        primary: "Mail".into(), domain: J::obj(vec![("name", J::s("Ether Mail")), ("version", J::s("1")), ("chainId", J::n("1")), ("verifyingContract", J::s("0xCcCCccccCCCCcCCCCCCcCcCccCcCCCcCcccccccC"))]),
        message: J::obj(vec![("from", person("Cow", "0xCD2a3d9F938E13CD947Ec05AbC7FE734Df8DD826")), ("to", person("Bob", "0xbBbBBBBbbBBBbbbBbbBbbbbBBbBbbbbBbBbbBBbB")), ("contents", J::s("Hello, Bob!"))]) }
}

//! The whole reference pipeline for an account: BIP-39 seed -> BIP-32 -> key -> address / public key / signatures.
use refmodel::grammar::HARD;
use refmodel::secp::{Curve, U256};
use refmodel::{bip32, bip39, eth, nfkd};

pub const GANACHE: &str = "myth like bonus scare over problem client lizard pioneer submit female collect";
pub const LONG24: &str = "void come effort suffer camp survey warrior heavy shoot primary clutch crush open amazing screen patrol group space point ten exist slush involve unfold";
pub fn default_path(i: u32) -> Vec<u32> { vec![44 | HARD, 60 | HARD, HARD, 0, i] }
pub fn key_of(curve: &Curve, phrase: &str, pass: &str, path: &[u32]) -> U256 {
    let seed = bip39::seed(phrase, nfkd::nfkd(pass));
    bip32::derive(curve, &seed, path).expect("derivable").k
}
pub fn address_text(curve: &Curve, k: &U256) -> String { eth::eip55(&eth::address_of_secret(curve, k)) }
pub fn pubkey_text(curve: &Curve, k: &U256) -> String { format!("0x{}", eth::hex(&curve.uncompressed(&curve.mul_g(k).unwrap()))) }
pub fn sign_text(curve: &Curve, k: &U256, digest: &[u8; 32]) -> String { let (r, s, odd, _) = curve.sign_rfc6979(k, digest); eth::sig_text(&r, &s, odd) }

//! Total size of the signed transaction: `sign transaction` on the shipped CLI for EVERY calldata length around the places
//! where an RLP length header changes its own size (the 55/56-byte and 255/256-byte and 65535/65536-byte payload
//! boundaries), for every kind. The signature adds ~67 bytes to the list, so the unsigned and the signed payload cross
//! each boundary at DIFFERENT calldata lengths: an implementation that derives one encoding from the other (patching the
//! header of a buffer it already has) is exercised at every length where exactly one of the two has crossed.
use crate::acct::*;
use crate::cli::*;
use explore::{filler_bytes, Ctx};
use refmodel::eth::hex;
use refmodel::secp::Curve;
use refmodel::tx::Kind;
use refmodel::txjson::{self, Spell};

pub fn run(ctx: &Ctx, p: &str) {
    let curve = Curve::new(); let key = key_of(&curve, GANACHE, "", &default_path(0));
    let kinds: [(&str, Kind, bool); 4] = [("legacy+chain", Kind::Legacy, true), ("legacy", Kind::Legacy, false), ("eip2930", Kind::Eip2930, true), ("eip1559", Kind::Eip1559, true)];
    let mut lens: Vec<usize> = (0..=330).collect(); lens.extend(65_300..=65_560);
    if ctx.thorough() { lens.extend(331..=1200); lens.extend(65_000..65_300); }
    let total = (lens.len() * kinds.len()) as u64;
    ctx.sweep("cli-signed-size", "sign transaction on the shipped CLI for every calldata length 0..=330 and 65300..=65560 (thorough: 0..=1200, 65000..=65560) x {legacy with / without chain id, EIP-2930, EIP-1559}: the printed raw transaction is the reference encoding, byte for byte (every length at which the unsigned list, the signed list, both or neither have crossed an RLP header-size boundary)", total, |i| {
        let (kn, kind, with_chain) = kinds[i as usize % kinds.len()]; let n = lens[i as usize / kinds.len()];
        let mut t = txjson::template(kind, with_chain); t.data = filler_bytes(ctx.seed, 0x517E + n as u64, n);
        let text = txjson::tx_json(&t, Spell::Auto).to_text(); let d = t.signing_hash(); let (r, s, odd, _) = curve.sign_rfc6979(&key, &d);
        let want = format!("0x{}", hex(&t.signed_payload(odd, &r.to_nat(), &s.to_nat())));
        let mut cmd = Cmd::new(&["sign", "--mnemonic", GANACHE, "transaction", "-"]).stdin(text.as_bytes()); if !with_chain { cmd = cmd.arg("--allow-missing-relay-protection"); }
        let rr = cmd.run(Build::Release); let shape = format!("{kn}:data-len-class={}", match n { 0..=55 => "0..=55", 56..=255 => "56..=255", 256..=65_535 => "256..=65535", _ => ">=65536" });
        let replay = serde_json::json!({"sweep": "cli-signed-size", "index": i, "entry": "CLI", "command": trunc(&cmd.shown(), 300), "kind": kn, "data_len": n, "transaction_json_prefix": trunc(&text, 400)});
        ctx.sample("cli-signed-size", || replay.clone());
        if rr.crashed() { ctx.eval(format!("{shape}:{}", rr.crash_kind())); ctx.panic_violation(format!("{p}:cli:signed-size:{kn}:{}", rr.crash_kind()), rr.describe(), replay); return; }
        ctx.eval(format!("{shape}:{}", if rr.ok() { "printed" } else { "refused" }));
        if !rr.ok() { ctx.violation(format!("{p}:cli:signed-size:{kn}:refused"), format!("a well-formed transaction with {n} bytes of calldata is refused: {}", rr.describe()), replay) }
        else if rr.line() != want { ctx.violation(format!("{p}:cli:signed-size:{kn}:wrong-output"), format!("with {n} bytes of calldata the CLI printed {} ({} hex digits); the reference signed transaction is {} ({} hex digits)", trunc(&rr.line(), 60), rr.line().len(), trunc(&want, 60), want.len()), replay) }
    });
    short_scalar(ctx, p);
    // the same for the access list: the number of entries and of storage keys moves the total in steps of 21 / 33 bytes
    let al: Vec<(usize, usize, usize)> = (0..=7).flat_map(|a| (0..=7).flat_map(move |k| [0usize, 60, 150].map(move |n| (a, k, n)))).collect();
    ctx.sweep("cli-signed-size-access-list", "sign transaction for access lists of 0..=7 entries x 0..=7 storage keys each x calldata of 0 / 60 / 150 bytes x {EIP-2930, EIP-1559}: the reference encoding", (al.len() * 2) as u64, |i| {
        let (a, k, n) = al[i as usize / 2]; let (kn, kind) = if i % 2 == 0 { ("eip2930", Kind::Eip2930) } else { ("eip1559", Kind::Eip1559) };
        let mut t = txjson::template(kind, true); t.data = filler_bytes(ctx.seed, 0x517F, n);
        t.access_list = (0..a).map(|x| ([x as u8 + 0xa0; 20], (0..k).map(|y| [(x * 8 + y) as u8 + 1; 32]).collect())).collect();
        let text = txjson::tx_json(&t, Spell::Auto).to_text(); let d = t.signing_hash(); let (r, s, odd, _) = curve.sign_rfc6979(&key, &d);
        let want = format!("0x{}", hex(&t.signed_payload(odd, &r.to_nat(), &s.to_nat())));
        let cmd = Cmd::new(&["sign", "--mnemonic", GANACHE, "transaction", "-"]).stdin(text.as_bytes()); let rr = cmd.run(Build::Release);
        let shape = format!("{kn}:entries={a},keys={k},data={n}");
        let replay = serde_json::json!({"sweep": "cli-signed-size-access-list", "index": i, "entry": "CLI", "command": trunc(&cmd.shown(), 300), "kind": kn, "entries": a, "keys_per_entry": k, "data_len": n, "transaction_json_prefix": trunc(&text, 400)});
        ctx.sample("cli-signed-size-access-list", || replay.clone());
        if rr.crashed() { ctx.eval(format!("{shape}:{}", rr.crash_kind())); ctx.panic_violation(format!("{p}:cli:signed-size-access-list:{kn}:{}", rr.crash_kind()), rr.describe(), replay); return; }
        ctx.eval(format!("{kn}:{}", if rr.ok() { "printed" } else { "refused" }));
        if !rr.ok() || rr.line() != want { ctx.violation(format!("{p}:cli:signed-size-access-list:{kn}:wrong-output"), format!("with {a} entries of {k} keys and {n} bytes of calldata the CLI printed {} ({:?}); the reference signed transaction is {}", trunc(&rr.line(), 60), rr.status, trunc(&want, 60)), replay) }
    });
}

/// size x signature (also part of C15: what `sign transaction` prints is what `hash transaction --signature` hashes)
pub fn short_scalar(ctx: &Ctx, p: &str) {
    let curve = Curve::new(); let key = key_of(&curve, GANACHE, "", &default_path(0));
    let kinds: [(&str, Kind, bool); 4] = [("legacy+chain", Kind::Legacy, true), ("legacy", Kind::Legacy, false), ("eip2930", Kind::Eip2930, true), ("eip1559", Kind::Eip1559, true)];
    // size x signature: a signature whose r or s has a zero top byte is ONE BYTE SHORTER in RLP. Around every length at which the
    // signed payload crosses 55 / 255 / 65535 bytes, transactions whose own signature has a short scalar are looked for by
    // varying the nonce (the reference computes the signature; about one in forty has one) and each is run on the CLI
    let mut near: Vec<usize> = Vec::new(); for t in [55usize, 255, 65_535] { for n in t.saturating_sub(150)..=t.saturating_sub(60) { near.push(n); } } // calldata lengths whose signed payload lies around t for every kind
    let nonces: u64 = if ctx.thorough() { 120 } else { 24 };
    ctx.sweep("cli-signed-size-short-scalar", &format!("4 kinds x calldata lengths that put the signed payload around 55 / 255 / 65535 bytes x nonces 0..{nonces}: every transaction whose own RFC 6979 signature has r or s below 2^248 (found with the reference) is signed on the CLI: the reference encoding"), (near.len() * kinds.len()) as u64 * nonces, |i| {
        let (kn, kind, with_chain) = kinds[i as usize % kinds.len()]; let n = near[(i as usize / kinds.len()) % near.len()]; let nonce = i / (kinds.len() * near.len()) as u64;
        let mut t = txjson::template(kind, with_chain); t.data = filler_bytes(ctx.seed, 0x5151, n); t.nonce = refmodel::nat::Nat::from_u64(nonce);
        let d = t.signing_hash(); let (r, s, odd, _) = curve.sign_rfc6979(&key, &d);
        if r.to_be()[0] != 0 && s.to_be()[0] != 0 { ctx.eval("short-scalar:full-width-skipped"); return; }
        let want = format!("0x{}", hex(&t.signed_payload(odd, &r.to_nat(), &s.to_nat()))); let text = txjson::tx_json(&t, Spell::Auto).to_text();
        let mut cmd = Cmd::new(&["sign", "--mnemonic", GANACHE, "transaction", "-"]).stdin(text.as_bytes()); if !with_chain { cmd = cmd.arg("--allow-missing-relay-protection"); }
        let rr = cmd.run(Build::Release); let total = (want.len() - 2) / 2;
        let replay = serde_json::json!({"sweep": "cli-signed-size-short-scalar", "index": i, "entry": "CLI", "command": trunc(&cmd.shown(), 300), "kind": kn, "data_len": n, "nonce": nonce, "signed_size": total});
        ctx.sample("cli-signed-size-short-scalar", || replay.clone());
        if rr.crashed() { ctx.eval(format!("short-scalar:{kn}:{}", rr.crash_kind())); ctx.panic_violation(format!("{p}:cli:signed-size-short-scalar:{kn}:{}", rr.crash_kind()), rr.describe(), replay); return; }
        ctx.eval(format!("short-scalar:{kn}:signed-size-class={}", match total { 0..=57 => "<=57", 58..=257 => "58..=257", 258..=65_538 => "258..=65538", _ => ">65538" }));
        if !rr.ok() || rr.line() != want { ctx.violation(format!("{p}:cli:signed-size-short-scalar:{kn}:wrong-output"), format!("{n} bytes of calldata, nonce {nonce}, a signature with a short scalar (signed size {total}): the CLI printed {} ({:?}); the reference signed transaction is {}", trunc(&rr.line(), 100), rr.status, trunc(&want, 100)), replay) }
    });
}

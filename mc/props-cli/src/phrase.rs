//! Reference verdict for raw phrase text (same rule as the library-level C01 check).
use refmodel::bip39::{self, Reject};
use refmodel::json::Class;
fn is_layout_ws(c: char) -> bool { matches!(c, ' ' | '\t' | '\n' | '\r') }
pub fn classify(text: &str) -> (Class<String>, String) {
    let exotic_ws = text.chars().any(|c| c.is_whitespace() && !is_layout_ws(c));
    let tokens: Vec<&str> = text.split(|c: char| c.is_whitespace()).filter(|t| !t.is_empty()).collect();
    match bip39::tokens_to_entropy(&tokens) {
        Ok(_) => { let canon = tokens.join(" "); (if exotic_ws { Class::Unc(canon) } else { Class::Accept(canon) }, "valid".into()) }
        Err(Reject::WordCount(_)) => (Class::Reject, "bad-count".into()),
        Err(Reject::UnknownWord(_)) => (Class::Reject, "unknown-word".into()),
        Err(Reject::Checksum) => (Class::Reject, "bad-checksum".into()),
    }
}

//! C19 — hex encode and decode are inverse; decoding is lenient only about layout.
use crate::cli::*;
use explore::Ctx;
use refmodel::eth::hex;
use refmodel::grammar::classify_hex_text;
use refmodel::json::Class;

const P: &str = "C19";
fn buffer(len: usize) -> Vec<u8> { (0..len).map(|i| ((i + len * 7) % 256) as u8).collect() }
pub fn check_decode(ctx: &Ctx, sweep: &str, i: u64, shape: &str, text: &[u8], via_file: bool) {
    let class = match std::str::from_utf8(text) { Ok(t) => classify_hex_text(t), Err(_) => Class::Reject };
    let (cmd, file) = if via_file { let f = scratch_file(sweep, i, "hex", text); (Cmd::new(&["hex", "decode", &f]), Some(f)) } else { (Cmd::new(&["hex", "decode"]).stdin(text), None) };
    let r = cmd.run(Build::Release); if let Some(f) = file { rm(&f); }
    let replay = cmd.replay(sweep, i, Build::Release);
    ctx.sample(sweep, || serde_json::json!({"command": cmd.shown(), "reference": class.name()}));
    if r.crashed() { ctx.eval(format!("{shape}:{}", r.crash_kind())); ctx.panic_violation(format!("{P}:decode:{shape}:{}", r.crash_kind()), format!("hex decode crashes: {}", r.describe()), replay); return; }
    if r.ok() { ctx.eval(format!("{shape}:decoded"));
        match class { Class::Reject => ctx.violation(format!("{P}:decode:{shape}:accepted"), format!("malformed hex is decoded: {}", r.describe()), replay),
            Class::Accept(v) | Class::Unc(v) => if r.stdout != v { ctx.violation(format!("{P}:decode:{shape}:wrong-bytes"), format!("decoded to {} instead of {}", hex(&r.stdout[..r.stdout.len().min(64)]), hex(&v[..v.len().min(64)])), replay) } }
    } else { ctx.eval(format!("{shape}:refused"));
        if !r.stdout.is_empty() { ctx.violation(format!("{P}:decode:{shape}:output-on-error"), format!("an error exit still wrote {} bytes to stdout", r.stdout.len()), replay) }
        else if let Class::Accept(_) = class { ctx.violation(format!("{P}:decode:{shape}:rejected"), format!("well-formed hex refused: {}", r.describe()), replay) } }
}
pub fn run(ctx: &Ctx) {
    let maxlen = if ctx.quick() { 4096u64 } else { 20_000 };
    ctx.sweep("encode-decode-roundtrip", "every length 0..=4096 (thorough: 0..=20000) of a buffer cycling through all byte values, and every single byte: encode, check the text, decode it back", maxlen + 1 + 256, |i| {
        let data = if i <= maxlen { buffer(i as usize) } else { vec![(i - maxlen - 1) as u8] };
        let via_file = i % 2 == 1;
        let (cmd, file) = if via_file { let f = scratch_file("encode-decode-roundtrip", i, "bin", &data); (Cmd::new(&["hex", "encode", &f]), Some(f)) } else { (Cmd::new(&["hex", "encode"]).stdin(&data), None) };
        let r = cmd.run(Build::Release); if let Some(f) = file { rm(&f); }
        let shape = format!("len-class={},{}", match data.len() { 0 => "0", 1 => "1", 2..=64 => "small", _ => "large" }, if via_file { "file" } else { "stdin" });
        let replay = cmd.replay("encode-decode-roundtrip", i, Build::Release);
        ctx.sample("encode-decode-roundtrip", || serde_json::json!({"command": trunc(&cmd.shown(), 300)}));
        let want = format!("0x{}\n", hex(&data));
        if r.crashed() { ctx.eval(format!("{shape}:{}", r.crash_kind())); ctx.panic_violation(format!("{P}:encode:{shape}:{}", r.crash_kind()), format!("hex encode crashes: {}", r.describe()), replay); return; }
        ctx.eval(format!("{shape}:encoded"));
        if !r.ok() || r.out() != want { ctx.violation(format!("{P}:encode:{shape}:wrong-text"), format!("printed {:?}, expected 0x + two lower-case digits per byte", trunc(&r.out(), 100)), replay); return; }
        let back = Cmd::new(&["hex", "decode"]).stdin(&r.stdout).run(Build::Release);
        if !back.ok() || back.stdout != data { ctx.violation(format!("{P}:roundtrip:{shape}:differs"), format!("decode(encode(x)) != x: {}", back.describe()), replay) }
    });
    // content classes: runs of one byte, a single line feed followed / preceded by long runs without one (stdout is line
    // buffered), CR LF pairs, and lengths around the 1 KiB, 8 KiB and 64 KiB buffer sizes
    let mut cc: Vec<(String, Vec<u8>)> = Vec::new();
    for len in [1usize, 2, 1023, 1024, 1025, 2047, 2048, 2049, 4096, 8191, 8192, 8193, 65535, 65536, 65537, 200_000] {
        for (n, b) in [("zeros", 0u8), ("linefeeds", 0x0a), ("ff", 0xff), ("letters", 0x41)] { cc.push((format!("all-{n}"), vec![b; len])); }
        let mut v = vec![0x41u8; len]; v[0] = 0x0a; cc.push(("linefeed-first".into(), v.clone())); let l = v.len(); v[0] = 0x41; v[l - 1] = 0x0a; cc.push(("linefeed-last".into(), v.clone()));
        v[l / 2] = 0x0a; v[l - 1] = 0x41; cc.push(("linefeed-middle".into(), v.clone())); cc.push(("crlf-pairs".into(), (0..len).map(|i| if i % 2 == 0 { 0x0d } else { 0x0a }).collect()));
        cc.push(("cyclic".into(), buffer(len)));
    }
    for core in [b"hello".as_slice(), b"\x00\x01\xfe\xff", b"0123456789abcdef"] { for (n, m) in explore::affix_classes(core) { cc.push((format!("affix-{n}"), m)); } }
    ctx.sweep("content-classes", "runs of 00 / 0a / ff / 'A', one line feed first / last / in the middle of a long run, CR LF pairs, cyclic bytes, at lengths 1, 2, 1023..1025, 2047..2049, 4096, 8191..8193, 65535..65537, 200000: decode(encode(x)) = x", cc.len() as u64, |i| {
        let (class, data) = &cc[i as usize];
        let enc = Cmd::new(&["hex", "encode"]).stdin(data).run(Build::Release);
        let shape = format!("{class},len-class={}", match data.len() { 0..=1023 => "<1Ki", 1024..=8191 => "1Ki-8Ki", 8192..=65535 => "8Ki-64Ki", _ => ">=64Ki" });
        ctx.sample("content-classes", || serde_json::json!({"class": class, "len": data.len()}));
        let replay = serde_json::json!({"sweep": "content-classes", "index": i, "entry": "CLI", "command": format!("hdwallet hex encode | hdwallet hex decode  on {} bytes of class {class}", data.len())});
        if enc.crashed() { ctx.eval(format!("{shape}:{}", enc.crash_kind())); ctx.panic_violation(format!("{P}:encode:{class}:{}", enc.crash_kind()), enc.describe(), replay); return; }
        ctx.eval(format!("{shape}:roundtrip"));
        if !enc.ok() || enc.stdout != format!("0x{}\n", hex(data)).into_bytes() { ctx.violation(format!("{P}:encode:{class}:wrong-text"), format!("encode of {} bytes printed {} bytes of text", data.len(), enc.stdout.len()), replay); return; }
        let dec = Cmd::new(&["hex", "decode"]).stdin(&enc.stdout).run(Build::Release);
        if dec.crashed() { ctx.panic_violation(format!("{P}:decode:{class}:{}", dec.crash_kind()), dec.describe(), replay) }
        else if !dec.ok() || dec.stdout != *data { ctx.violation(format!("{P}:roundtrip:{class}:differs"), format!("decode(encode(x)) returned {} bytes for {} bytes of input (first difference at {:?})", dec.stdout.len(), data.len(), dec.stdout.iter().zip(data.iter()).position(|(a, b)| a != b)), replay) }
    });
    // layout sweep on a 16-byte value
    let val: Vec<u8> = (0..16u8).map(|i| i.wrapping_mul(0x1f) ^ 0xa5).collect(); let lower = hex(&val);
    let mixed: String = lower.chars().enumerate().map(|(i, c)| if i % 3 == 0 { c.to_ascii_uppercase() } else { c }).collect();
    let bases: Vec<(String, String)> = vec![("bare-lower".into(), lower.clone()), ("0x-lower".into(), format!("0x{lower}")), ("bare-upper".into(), lower.to_uppercase()), ("0x-upper".into(), format!("0x{}", lower.to_uppercase())), ("0x-mixed".into(), format!("0x{mixed}")), ("0X-lower".into(), format!("0X{lower}"))];
    let ws = [" ", "\t", "\n", "\r\n", "\u{a0}", "\u{3000}", "\u{b}"];
    let mut lay: Vec<(String, Vec<u8>)> = Vec::new();
    for (bn, b) in &bases { lay.push((format!("{bn}"), b.clone().into_bytes()));
        for w in ws { for pos in 0..=b.len() { let mut s = b.clone(); s.insert_str(pos, w); lay.push((format!("{bn}+ws-{}", if w.is_ascii() && w != "\u{b}" { "ascii" } else { "exotic" }), s.into_bytes())); } } }
    if ctx.thorough() { let b = &bases[1].1; for w in [" ", "\n"] { for p in 0..=b.len() { for q in p..=b.len() { let mut s = b.clone(); s.insert_str(q, w); s.insert_str(p, w); lay.push(("0x-lower+ws-pair".into(), s.into_bytes())); } } } }
    ctx.sweep("decode-layouts", "a 16-byte value in 6 prefix/case spellings with one of 7 whitespace strings inserted at every index (pairs of indices in thorough)", lay.len() as u64, |i| { let (s, t) = &lay[i as usize]; check_decode(ctx, "decode-layouts", i, s, t, i % 5 == 0); });
    // malformed input
    let mut bad: Vec<(String, Vec<u8>)> = Vec::new();
    for n in (1..=31usize).step_by(2) { bad.push(("odd-digits".into(), lower[..n].as_bytes().to_vec())); bad.push(("odd-digits-0x".into(), format!("0x{}", &lower[..n]).into_bytes())); }
    for d in ["g", "x", "-", "+", "\u{200b}", "\u{e9}", "0x", ".", "G", "\u{ff11}", ":", "_", "\u{131}", "\u{661}", "\u{1f531}"] { for pos in 0..=lower.len() { let mut s = format!("0x{lower}"); s.insert_str(2 + pos, d); bad.push((format!("non-hex-{}", if d.is_ascii() { "ascii" } else { "non-ascii" }), s.into_bytes())); } }
    // a long run of valid digits before the defect (buffered / streaming decoders): still no byte of output
    for n in [4096usize, 8192, 65536, 131072, 131074, 262144, 1 << 20] { let run = "5a".repeat(n / 2);
        for (name, t) in [("then-non-hex", format!("0x{run}zz")), ("then-odd-digit", format!("{run}5")), ("then-non-hex-then-valid", format!("0x{run}g{run}")), ("newlines-then-non-hex", format!("{}\nxx", run.as_bytes().chunks(64).map(|c| std::str::from_utf8(c).unwrap()).collect::<Vec<_>>().join("\n")))] { bad.push((format!("long-valid-run-{name}"), t.into_bytes())); } }
    bad.push(("invalid-utf8".into(), vec![0x30, 0x78, 0xff, 0xfe])); bad.push(("nul".into(), b"0x00\x0000".to_vec())); bad.push(("empty".into(), vec![])); bad.push(("only-0x".into(), b"0x".to_vec())); bad.push(("only-ws".into(), b" \n".to_vec())); bad.push(("x0".into(), b"x0aa".to_vec())); bad.push(("0x-twice".into(), b"0x0xaa".to_vec())); bad.push(("split-prefix".into(), b"0 xaa".to_vec()));
    ctx.sweep("decode-malformed", "odd digit counts 1..31, 15 non-hex insertions at every index (incl. three characters whose code point cut to one byte is a hex digit), invalid UTF-8, NUL, empty, doubled and split prefixes", bad.len() as u64, |i| { let (s, t) = &bad[i as usize]; check_decode(ctx, "decode-malformed", i, s, t, i % 4 == 0); });
    // "ignores whitespace ANYWHERE": whatever separator the tool ignores in a small input it must ignore at every offset of a
    // large one - in particular where a block-wise reader's buffers end (multi-byte separators straddle the boundary). The
    // small input decides per separator whether the tool counts it as whitespace; the large inputs must agree with it.
    let seps: Vec<(&str, &str)> = vec![("space", " "), ("line-feed", "\n"), ("cr-lf", "\r\n"), ("tab", "\t"), ("nbsp", "\u{a0}"), ("em-space", "\u{2003}"), ("ideographic-space", "\u{3000}"), ("line-separator", "\u{2028}"), ("vertical-tab", "\u{b}")];
    let ignored: Vec<bool> = seps.iter().map(|(_, w)| { let r = Cmd::new(&["hex", "decode"]).stdin(format!("0xab{w}cd").as_bytes()).run(Build::Release); r.ok() && r.stdout == [0xab, 0xcd] }).collect();
    let offs: Vec<(u32, i64)> = (12..=17u32).flat_map(|k| (-3..=3i64).map(move |d| (k, d))).collect();
    ctx.sweep("separator-at-every-block-boundary", "9 separators (ASCII and multi-byte Unicode) x byte offsets 2^k - 3 .. 2^k + 3 for k = 12..=17 of a large hex text, from a file: a separator the tool ignores in a small input is ignored there too, with the same bytes", (seps.len() * offs.len()) as u64, |i| {
        let (name, w) = seps[i as usize / offs.len()]; let (k, d) = offs[i as usize % offs.len()];
        if !ignored[i as usize / offs.len()] { ctx.eval(format!("separator={name}:not-ignored-by-this-tool")); return; }
        let at = ((1i64 << k) + d) as usize; let total = at + 4096 + (at % 2); // digits after the prefix; `at` counts bytes of the text including 0x
        let digits: String = (0..total).map(|x| char::from_digit(((x * 5 + 1) % 16) as u32, 16).unwrap()).collect();
        let digits = if digits.len() % 2 == 1 { format!("{digits}0") } else { digits };
        let body = at.saturating_sub(2).min(digits.len()); let text = format!("0x{}{w}{}", &digits[..body], &digits[body..]);
        let want = refmodel::eth::unhex(&digits).unwrap();
        let f = scratch_file("separator-at-every-block-boundary", i, "hex", text.as_bytes()); let cmd = Cmd::new(&["hex", "decode", &f]); let r = cmd.run(Build::Release); rm(&f);
        let shape = format!("separator={name},offset~2^{k}"); let replay = serde_json::json!({"sweep": "separator-at-every-block-boundary", "index": i, "entry": "CLI", "separator": name, "byte_offset": at, "text_len": text.len()});
        ctx.sample("separator-at-every-block-boundary", || replay.clone());
        if r.crashed() { ctx.eval(format!("{shape}:{}", r.crash_kind())); ctx.panic_violation(format!("{P}:decode:{shape}:{}", r.crash_kind()), r.describe(), replay); return; }
        ctx.eval(format!("{shape}:{}", if r.ok() { "decoded" } else { "refused" }));
        if !r.ok() || r.stdout != want { ctx.violation(format!("{P}:decode:separator={name}:not-ignored-at-a-large-offset"), format!("the separator is ignored in a small input but at byte offset {at} of a {}-byte text the tool gave {:?} with {} bytes of output", text.len(), r.status, r.stdout.len()), replay) }
    });
}

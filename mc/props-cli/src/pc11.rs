//! C11 — chain replay protection is never dropped silently (CLI layer, both builds).
use crate::acct::*;
use crate::cli::*;
use explore::Ctx;
use refmodel::eth::{self, hex, unhex};
use refmodel::hash::keccak256;
use refmodel::json::J;
use refmodel::nat::Nat;
use refmodel::rlp::{self, Item};
use refmodel::secp::{Curve, U256};
use refmodel::tx::{Kind, Tx};
use refmodel::txjson::{self, Spell};

const P: &str = "C11";
fn chain_alphabet() -> Vec<(&'static str, Option<Option<Nat>>)> { // None = key absent, Some(None) = null
    let cmax = Nat::pow2(255).sub(&Nat::from_u64(19));
    vec![("absent", None), ("null", Some(None)), ("0", Some(Some(Nat::zero()))), ("1", Some(Some(Nat::from_u64(1)))), ("2^32", Some(Some(Nat::pow2(32)))), ("2^64-1", Some(Some(Nat::pow2(64).sub(&Nat::from_u64(1))))), ("2^128+5", Some(Some(Nat::pow2(128).add(&Nat::from_u64(5))))), ("2^53+1", Some(Some(Nat::from_u64(9007199254740993)))), ("1234567890123456789", Some(Some(Nat::from_u64(1234567890123456789)))), ("2^64-1", Some(Some(Nat::from_u64(u64::MAX)))), ("1337", Some(Some(Nat::from_u64(1337)))), ("(2^32-36)/2+1", Some(Some(Nat::from_u64(2147483631)))), ("(2^64-36)/2", Some(Some(Nat::pow2(63).sub(&Nat::from_u64(18))))), ("(2^64-36)/2+1", Some(Some(Nat::pow2(63).sub(&Nat::from_u64(17))))), ("cmax", Some(Some(cmax.clone()))),
        // beyond cmax the tool may refuse; if it signs, v must still be the exact integer 35 + 2c + yParity (no wrap-around)
        ("cmax+1", Some(Some(cmax.add(&Nat::from_u64(1))))), ("cmax+2", Some(Some(cmax.add(&Nat::from_u64(2))))), ("2^255", Some(Some(Nat::pow2(255)))), ("2^256-1", Some(Some(Nat::pow2(256).sub(&Nat::from_u64(1)))))]
}
fn kinds() -> [(Kind, &'static str); 3] { [(Kind::Legacy, "legacy"), (Kind::Eip2930, "eip2930"), (Kind::Eip1559, "eip1559")] }
fn decode_out(line: &str) -> Option<(Option<u8>, Vec<Item>)> {
    let b = unhex(line.strip_prefix("0x")?)?;
    let (ty, body) = match b.first()? { 1 => (Some(1), &b[1..]), 2 => (Some(2), &b[1..]), _ => (None, &b[..]) };
    match rlp::decode(body).ok()? { Item::List(l) => Some((ty, l)), _ => None }
}
pub fn run(ctx: &Ctx) {
    let curve = Curve::new(); let mut ids = chain_alphabet();
    if ctx.thorough() { for k in [7usize, 8, 15, 16, 31, 33, 53, 63, 64, 65, 127, 128, 129, 191, 192, 200, 248, 253, 254] { ids.push(("2^k", Some(Some(Nat::pow2(k))))); ids.push(("2^k-1", Some(Some(Nat::pow2(k).sub(&Nat::from_u64(1)))))); } }
    let keys = [key_of(&curve, GANACHE, "", &default_path(0)), key_of(&curve, GANACHE, "", &default_path(1))];
    let n = (3 * ids.len() * 2 * 2 * 2 * 2 * 2 * 4) as u64;
    ctx.sweep("sign-transaction-matrix", "kind {legacy, 2930, 1559} x chainId {absent, null, 0, 1, 2^32, 2^64-1, 2^128+5, cmax=(2^256-37)/2, and cmax+1, cmax+2, 2^255, 2^256-1 which may be refused but never signed with a wrapped v} x --allow-missing-relay-protection {off, on} x --signature-only {off, on} x target parity {0, 1} x 2 accounts x 2 builds x chain-id spelling {0x string, decimal string, bare JSON integer, float notation}", n, |i| {
        let mut k = i as usize; let mut take = |m: usize| { let v = k % m; k /= m; v };
        let build = [Build::Release, Build::Checked][take(2)]; let spelling = take(4); let acct = take(2); let want_par = take(2) == 1; let sig_only = take(2) == 1; let allow = take(2) == 1; let (cname, cid) = ids[take(ids.len())].clone(); let (kind, kname) = kinds()[take(3)];
        let key = &keys[acct];
        let mut tx: Tx = txjson::template(kind, true); tx.chain_id = cid.clone().flatten();
        // reach the requested parity by a small tweak of the gas limit (reference computation only)
        if cid.clone().flatten().is_some() || kind == Kind::Legacy { for t in 0..64u64 { tx.gas = Nat::from_u64(21000 + t); if curve.sign_rfc6979(key, &tx.signing_hash()).2 == want_par { break; } } }
        let mut f = txjson::tx_fields(&tx, Spell::Auto);
        match &cid { None => txjson::set(&mut f, "chainId", None), Some(None) => txjson::set(&mut f, "chainId", Some(J::Null)), Some(Some(c)) => txjson::set(&mut f, "chainId", Some(match spelling { 0 => txjson::num(c, Spell::Hex), 1 => txjson::num(c, Spell::Dec), 2 => txjson::num(c, Spell::JsonIntIfU64), _ => if *c < Nat::pow2(64) { J::Num(format!("{}.0", c.to_dec())) } else { txjson::num(c, Spell::Dec) } })) }
        // float notation at or above 2^53 is not a spelling the tool is obliged to read: refused, or read exactly
        let open_spelling = spelling == 3 && cid.clone().flatten().map_or(false, |c| c >= Nat::pow2(53) && c < Nat::pow2(64));
        let text = J::Obj(f).to_text();
        let mut cmd = Cmd::new(&["sign", "--mnemonic", GANACHE, "--account-index", &acct.to_string(), "transaction", "-"]).stdin(text.as_bytes());
        if sig_only { cmd = cmd.arg("--signature-only"); } if allow { cmd = cmd.arg("--allow-missing-relay-protection"); }
        let r = cmd.run(build);
        let shape = format!("{kname},chain={cname},spelling={spelling},allow={},sigonly={},{build:?}", allow as u8, sig_only as u8);
        let sig = format!("{kname},chain={},allow={},sigonly={}", if cid.clone().flatten().is_some() { "present" } else { cname }, allow as u8, sig_only as u8);
        let replay = cmd.replay("sign-transaction-matrix", i, build);
        ctx.sample("sign-transaction-matrix", || serde_json::json!({"command": trunc(&cmd.shown(), 500)}));
        if r.crashed() { ctx.eval(format!("{shape}:{}", r.crash_kind())); ctx.panic_violation(format!("{P}:sign:{sig}:{}", r.crash_kind()), r.describe(), replay); return; }
        let has_chain = cid.clone().flatten().is_some();
        if kind != Kind::Legacy && !has_chain { ctx.eval(format!("{shape}:typed-without-chain-id:{}", if r.ok() { "signed" } else { "refused" })); return; } // a typed transaction without a chain id: not decided by the property
        if kind == Kind::Legacy && !has_chain && !allow {
            ctx.eval(format!("{shape}:refused={}", !r.ok()));
            if r.ok() || !r.stdout.is_empty() { ctx.violation(format!("{P}:sign:{sig}:unprotected-signed"), format!("a legacy transaction without chain id was signed without the override flag: {}", trunc(&r.line(), 100)), replay) }
            return;
        }
        if kind == Kind::Legacy && cid == Some(None) && allow && !r.ok() { ctx.eval(format!("{shape}:null-refused")); return; } // null chain id with the override: refusing is acceptable
        let beyond = kind == Kind::Legacy && cid.clone().flatten().map_or(false, |c| c > Nat::pow2(255).sub(&Nat::from_u64(19)));
        if beyond && !r.ok() { ctx.eval(format!("{shape}:beyond-cmax-refused")); return; }
        if open_spelling && !r.ok() { ctx.eval(format!("{shape}:float-notation-beyond-2^53-refused")); return; }
        if !r.ok() { ctx.eval(format!("{shape}:refused")); ctx.violation(format!("{P}:sign:{sig}:refused"), format!("a signable transaction is refused: {}", r.describe()), replay); return; }
        let digest = tx.signing_hash(); let (rr, rs, rodd, _) = curve.sign_rfc6979(key, &digest);
        ctx.eval(format!("{shape}:signed,parity={}", rodd as u8));
        if sig_only {
            if r.line() != eth::sig_text(&rr, &rs, rodd) { ctx.violation(format!("{P}:sign:{sig}:wrong-signature"), format!("--signature-only printed {}, the signature over the payload that binds the chain id is {}", trunc(&r.line(), 140), eth::sig_text(&rr, &rs, rodd)), replay) }
            return;
        }
        let (ty, items) = match decode_out(&r.line()) { Some(x) => x, None => { ctx.violation(format!("{P}:sign:{sig}:undecodable"), format!("output is not a canonical RLP transaction: {}", trunc(&r.line(), 120)), replay); return; } };
        let bad = |what: String| ctx.violation(format!("{P}:sign:{sig}:replay-protection"), what, replay.clone());
        if kind == Kind::Legacy {
            if ty.is_some() || items.len() != 9 { return bad("legacy output has the wrong shape".into()); }
            let v = rlp::as_uint(&items[6]); let (r_, s_) = (rlp::as_uint(&items[7]), rlp::as_uint(&items[8]));
            let want_v = tx.v(rodd);
            if v.as_ref() != Some(&want_v) { return bad(format!("v = {:?}, but {} exactly", v.map(|x| x.to_dec()), match &tx.chain_id { Some(c) => format!("35 + 2*{} + {} = {}", c.to_dec(), rodd as u8, want_v.to_dec()), None => format!("27 + {} = {}", rodd as u8, want_v.to_dec()) })); }
            if r_ != Some(rr.to_nat()) || s_ != Some(rs.to_nat()) { return bad("r, s are not the signature over Keccak(rlp([.., chainId, 0, 0]))".into()); }
            // the sender recovered from what was printed, over the reference digest, is the signer; and under every other chain id it is not
            let signer = eth::address_of_secret(&curve, key);
            let rec = |t: &Tx| curve.recover(&t.signing_hash(), &rr, &rs, rodd).map(|p| eth::address_of_point(&p));
            if rec(&tx) != Some(signer) { return bad("the recovered sender is not the signer".into()); }
            for (_, other) in &ids { let oc = other.clone().flatten(); if oc == tx.chain_id { continue; } let mut t2 = tx.clone(); t2.chain_id = oc; if rec(&t2) == Some(signer) { return bad("the signature validates the same transaction under another chain id".into()); } }
        } else {
            if ty != Some(if kind == Kind::Eip2930 { 1 } else { 2 }) { return bad("wrong type byte".into()); }
            if rlp::as_uint(&items[0]) != tx.chain_id { return bad(format!("first signed field is {:?}, not the chain id", rlp::as_uint(&items[0]).map(|x| x.to_dec()))); }
            let want = tx.signed_payload(rodd, &rr.to_nat(), &rs.to_nat());
            if format!("0x{}", hex(&want)) != r.line() { return bad("typed transaction output differs from the reference encoding".into()); }
            let _ = keccak256(&want);
        }
    });
    let _ = U256::ZERO;
}

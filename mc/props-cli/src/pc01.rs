//! C01 / C14 on the CLI: `address --mnemonic` and `address --hd-path / --account-index` against the reference.
use crate::acct::*;
use crate::cli::*;
use explore::{mix, Ctx};
use refmodel::bip39;
use refmodel::grammar::classify_path;
use refmodel::json::Class;
use refmodel::secp::Curve;

fn verdict(ctx: &Ctx, p: &str, sweep: &str, i: u64, shape: &str, cmd: &Cmd, want: Class<String>) {
    let r = cmd.run(Build::Release); let replay = cmd.replay(sweep, i, Build::Release);
    ctx.sample(sweep, || serde_json::json!({"command": trunc(&cmd.shown(), 300), "reference": want.name()}));
    if r.crashed() { ctx.eval(format!("{shape}:{}", r.crash_kind())); ctx.panic_violation(format!("{p}:cli:{shape}:{}", r.crash_kind()), r.describe(), replay); return; }
    ctx.eval(format!("{shape}:{}", if r.ok() { "address" } else { "refused" }));
    match want {
        Class::Reject => if r.ok() || !r.stdout.is_empty() { ctx.violation(format!("{p}:cli:{shape}:accepted"), format!("input that must be refused printed {:?}", trunc(&r.line(), 80)), replay) },
        Class::Accept(a) => if !r.ok() { ctx.violation(format!("{p}:cli:{shape}:refused"), format!("valid input refused: {}", r.describe()), replay) } else if r.line() != a { ctx.violation(format!("{p}:cli:{shape}:wrong-account"), format!("printed {}, the reference account is {a}", r.line()), replay) },
        Class::Unc(a) => if r.ok() && r.line() != a { ctx.violation(format!("{p}:cli:{shape}:wrong-account"), format!("printed {}, the reference account is {a}", r.line()), replay) },
    }
}
pub fn run_c01(ctx: &Ctx) {
    let curve = Curve::new();
    let mut cases: Vec<(String, String)> = Vec::new();
    for n in 0..=40usize { for k in 0..6u64 { let mut idx: Vec<usize> = (0..n).map(|j| (mix(ctx.seed ^ k, (n * 64 + j) as u64) % 2048) as usize).collect();
        if bip39::entropy_len_for_words(n).is_some() && k % 2 == 0 { idx[n - 1] = bip39::complete_last(&idx[..n - 1], idx[n - 1]); }
        cases.push((format!("words={n}"), bip39::indices_to_phrase(&idx))); } }
    // 13- and 16-word phrases whose trailing bits happen to look like a checksum, found by the reference
    for n in [13usize, 16] { let first: Vec<usize> = (0..n - 1).map(|j| (mix(ctx.seed, (n * 64 + j) as u64) % 2048) as usize).collect(); for last in 0..2048usize { let mut idx = first.clone(); idx.push(last); cases.push((format!("words={n},all-final-words"), bip39::indices_to_phrase(&idx))); } }
    let base = bip39::entropy_to_phrase(&[0x42; 16]);
    for (n, t) in [("tabs", base.replace(' ', "\t")), ("newlines", base.replace(' ', "\n")), ("double", base.replace(' ', "  ")), ("padded", format!("  {base} \n")), ("nbsp", base.replace(' ', "\u{a0}")), ("upper", base.to_uppercase()), ("comma", base.replace(' ', ",")), ("trailing-junk", format!("{base} zzz")), ("unknown-word", base.replacen("donate", "donatee", 1)),
        // the value as env files and shells leave it: wrapped in quotes, an assignment in front, a trailing comma
        ("wrapped-double-quotes", format!("\"{base}\"")), ("wrapped-single-quotes", format!("'{base}'")), ("wrapped-back-ticks", format!("`{base}`")), ("assignment-prefix", format!("MNEMONIC={base}")), ("trailing-comma", format!("{base},")), ("unmatched-quote", format!("\"{base}"))] { cases.push((format!("layout:{n}"), t)); }
    ctx.sweep("cli-mnemonic", "`address --mnemonic`: 6 phrases for every word count 0..=40 (valid checksums for the valid counts on even rounds), all 2048 final words on 13- and 16-word phrases, layouts; the printed address must be the reference account or the phrase must be refused", cases.len() as u64, |i| {
        let (shape, text) = &cases[i as usize]; let (class, sh) = crate::phrase::classify(text);
        let want = class.map(|canon| address_text(&curve, &key_of(&curve, &canon, "", &default_path(0))));
        verdict(ctx, "C01", "cli-mnemonic", i, &format!("{shape},{sh}"), &(if i % 2 == 0 { Cmd::new(&["address", "--mnemonic", text]) } else { Cmd::new(&["address"]).env("MNEMONIC", text) }), want);
    });
}
pub fn run_c14(ctx: &Ctx) {
    let curve = Curve::new();
    let roots = ["m/", "m", "", "M/", "/", "0/", "\u{ff4d}/", "\u{ff4d}\u{ff0f}"]; let toks = ["\u{b2}", "\u{2082}", "\u{2460}", "\u{ff14}\u{ff14}'", "4\u{b2}", "0\u{ff07}", "\u{663}", "0", "1", "44'", "2147483647", "2147483647'", "2147483648", "2147483648'", "4294967295", "4294967296'", "18446744073709551616", "", "-1", "1.5", "x", "0''", "'", "0x10", "+1", "01", "0h", "-0", "-0'", "-00", "0.0"];
    let mut texts: Vec<String> = Vec::new();
    for r in roots { texts.push(r.to_string()); for a in toks { texts.push(format!("{r}{a}")); for b in ["0", "2147483648", "1'", ""] { texts.push(format!("{r}{a}/{b}")); } } }
    // deep lines: depth 6..=12, 17, 33, 65 with a valid or a defective token at the last and at the middle position
    for d in (6..=12usize).chain([17, 33, 65]) { for p in [d / 2, d - 1] { for sub in ["7", "7'", "2147483648", "", "x", "-1", "1.5", "-0"] {
        let comps: Vec<String> = (0..d).map(|j| if j == p { sub.to_string() } else { format!("{}{}", j + 1, if j % 2 == 1 { "'" } else { "" }) }).collect(); texts.push(format!("m/{}", comps.join("/"))); } } }
    ctx.sweep("cli-hd-path", "`address --hd-path`: deep lines (depth 6..12, 17, 33, 65, one valid or defective token substituted in the middle or at the end) and 8 root spellings x 27 tokens (incl. superscript, subscript, circled, full-width and Arabic-Indic digits) x 5 continuations; printed address = reference CKD account, or refused", texts.len() as u64, |i| {
        let t = &texts[i as usize]; let class = classify_path(t);
        let want = match class.clone() { Class::Accept(p) if !p.is_empty() => Class::Accept(address_text(&curve, &key_of(&curve, GANACHE, "", &p))), Class::Unc(p) | Class::Accept(p) => if p.is_empty() { Class::Unc(String::new()) } else { Class::Unc(address_text(&curve, &key_of(&curve, GANACHE, "", &p))) }, Class::Reject => Class::Reject };
        let want = if let Class::Unc(s) = &want { if s.is_empty() { // bare "m": accepted or not, nothing to compare
            let r = Cmd::new(&["address", "--mnemonic", GANACHE, "--hd-path", t]).run(Build::Release); ctx.eval(format!("bare-root:{}", r.ok())); if r.crashed() { ctx.panic_violation("C14:cli:bare-root:crash", r.describe(), serde_json::json!({"sweep": "cli-hd-path", "index": i})); } return; } else { want } } else { want };
        verdict(ctx, "C14", "cli-hd-path", i, &format!("path,ref={}", class.name()), &Cmd::new(&["address", "--mnemonic", GANACHE, "--hd-path", t]), want);
    });
    // the ENVIRONMENT channel, with what env files and shells add or lose: a path that ends in a hardened marker (the marker
    // is an apostrophe), surrounding quotes, blanks
    let envp = ["m/0'", "m/44'/60'/0'", "m/44'/60'/0'/0/3", "m/1'/2'", "'m/0'", "'m/0''", "\"m/0\"", "\"m/0'\"", "m/0''", " m/0'", "m/0' ", "'m/44'/60'/0'/0/0'", "m/0\"", "`m/0`"];
    ctx.sweep("cli-hd-path-environment", "`address` with HD_PATH in the environment: paths that end in a hardened component, and the same wrapped in single / double quotes, back-ticks or blanks (not a path: refused, or - unambiguous blanks - the same account)", envp.len() as u64 * 2, |i| {
        let t = envp[i as usize / 2]; let class = classify_path(t);
        let want = match class.clone() { Class::Accept(p) => Class::Accept(address_text(&curve, &key_of(&curve, GANACHE, "", &p))), Class::Unc(p) if !p.is_empty() => Class::Unc(address_text(&curve, &key_of(&curve, GANACHE, "", &p))), Class::Unc(_) => return, Class::Reject => Class::Reject };
        let cmd = if i % 2 == 0 { Cmd::new(&["address"]).env("MNEMONIC", GANACHE).env("HD_PATH", t) } else { Cmd::new(&["export", "--mnemonic", GANACHE]).env("HD_PATH", t) };
        let want = if i % 2 == 0 { want } else { match class { Class::Accept(p) => Class::Accept(format!("0x{}", key_of(&curve, GANACHE, "", &p).to_hex64())), Class::Unc(p) => Class::Unc(format!("0x{}", key_of(&curve, GANACHE, "", &p).to_hex64())), Class::Reject => Class::Reject } };
        verdict(ctx, "C14", "cli-hd-path-environment", i, &format!("env-path,ref={}", classify_path(t).name()), &cmd, want);
    });
    let idx = ["0", "1", "2", "1000", "2147483646", "2147483647", "2147483648", "4294967295", "4294967296", "18446744073709551615", "\u{ff11}", "\u{b2}", "\u{661}", "+1", "1 "];
    ctx.sweep("cli-account-index", "`address --account-index i` (flag and environment) for i at 0, 1, 2, 1000, 2^31-2, 2^31-1 (account m/44'/60'/0'/0/i) and 2^31, 2^32-1, 2^32, 2^64-1 (refused)", (idx.len() * 2) as u64, |i| {
        let t = idx[i as usize / 2]; let canonical = !t.is_empty() && t.bytes().all(|b| b.is_ascii_digit()) && (t == "0" || !t.starts_with('0')); let v: u128 = match t.parse::<u128>().ok().filter(|_| canonical) { Some(v) => v, None => { // not a decimal number in ASCII digits: refused, or (exotic but unambiguous ASCII spellings) the account of that number
            let cmd = Cmd::new(&["address", "--mnemonic", GANACHE, "--account-index", t]); let want = if t.is_ascii() { Class::Unc(address_text(&curve, &key_of(&curve, GANACHE, "", &default_path(1)))) } else { Class::Reject };
            verdict(ctx, "C14", "cli-account-index", i, "index-not-ascii-decimal", &cmd, want); return; } };
        let want = if v < 1 << 31 { Class::Accept(address_text(&curve, &key_of(&curve, GANACHE, "", &default_path(v as u32)))) } else { Class::Reject };
        let cmd = if i % 2 == 0 { Cmd::new(&["address", "--mnemonic", GANACHE, "--account-index", t]) } else { Cmd::new(&["address"]).env("MNEMONIC", GANACHE).env("ACCOUNT_INDEX", t) };
        verdict(ctx, "C14", "cli-account-index", i, &format!("index-{}", if v < 1 << 31 { "standard" } else { "ge-2^31" }), &cmd, want);
    });
}

//! C17 — no input makes the tool panic, abort or hang (CLI part, both builds): exit status must be 0, 255 or 2, in time.
use crate::acct::*;
use crate::cli::*;
use crate::docs::*;
use crate::shim::*;
use explore::Ctx;
use refmodel::json::J;
use refmodel::nat::Nat;
use refmodel::secp::{self, U256};
use refmodel::tx::Kind;
use refmodel::txjson::{self, Spell};

const P: &str = "C17";
pub struct Case { class: String, cmd: Cmd, shim: Option<Mode> }
fn c(class: &str, cmd: Cmd) -> Case { Case { class: class.into(), cmd, shim: None } }

pub fn cases(thorough: bool) -> Vec<Case> {
    let mut v: Vec<Case> = Vec::new();
    // mnemonic phrases
    for n in 0..=40usize { for w in ["abandon", "zoo", "wrong"] { v.push(c(&format!("mnemonic:words-class={}", match n { 0 => "0", 1..=11 => "1-11", 12..=24 => "12-24", _ => "25-40" }), Cmd::new(&["address", "--mnemonic", &vec![w; n].join(" ")]))); } }
    for t in ["\u{e9}", "abandon\u{200b}", "ABANDON about", "\t", "abandon  about", &vec!["zoo"; 5000].join(" ")] { v.push(c("mnemonic:odd-token", Cmd::new(&["address", "--mnemonic", t]))); v.push(c("mnemonic:odd-token-env", Cmd::new(&["address"]).env("MNEMONIC", t))); }
    // HD paths and account indices
    let toks = ["", " ", "0", "-1", "1.5", "x", "'", "''", "/", "m", "2147483647", "2147483648", "4294967295", "4294967296", "18446744073709551615", "18446744073709551616", "340282366920938463463374607431768211456", "\u{e9}", "0x10", "+1", "1e3", "99999999999999999999999999999999999999999999999999"];
    for base in ["m/44'/60'/0'/0/0", "m/0"] { let comps: Vec<&str> = base.split('/').collect(); for p in 0..comps.len() { for t in toks { let mut a = comps.clone(); a[p] = t; v.push(c("hd-path:edit", Cmd::new(&["address", "--mnemonic", GANACHE, "--hd-path", &a.join("/")]))); let h = format!("{t}'"); let mut b = comps.clone(); b[p] = &h; v.push(c("hd-path:edit-hardened", Cmd::new(&["export", "--mnemonic", GANACHE, "--hd-path", &b.join("/")]))); } } }
    for i in ["0", "1", "2147483647", "2147483648", "4294967295", "4294967296", "9007199254740993", "18446744073709551615", "18446744073709551616", "-1", "x", "", "1.5", "0x10", " 1"] {
        v.push(c("account-index:flag", Cmd::new(&["address", "--mnemonic", GANACHE, "--account-index", i]))); v.push(c("account-index:env", Cmd::new(&["public-key", "--mnemonic", GANACHE]).env("ACCOUNT_INDEX", i)));
        v.push(c("account-index:sign", Cmd::new(&["sign", "--mnemonic", GANACHE, "--account-index", i, "raw", &format!("0x{}", "11".repeat(32))])));
    }
    // signatures and digests
    let n = secp::n(); let scal = [U256::ZERO, U256::ONE, secp::half_n(), n.sbb(&U256::ONE).0, n, n.adc(&U256::ONE).0, U256::from_be(&[0xff; 32])];
    let txt = txjson::tx_json(&sample_legacy(), Spell::Auto).to_text();
    for r in &scal { for s in &scal { for vb in [0u8, 1, 26, 27, 28, 29, 255] { if !thorough && vb != 27 && vb != 28 && (r != &U256::ONE || s != &U256::ONE) { continue; } for pre in ["", "0x"] { v.push(c("signature:boundary-scalars", Cmd::new(&["hash", "transaction", "-", "--signature", &format!("{pre}{}{}{:02x}", r.to_hex64(), s.to_hex64(), vb)]).stdin(txt.as_bytes()))); } } } }
    for len in (0..=140usize).step_by(if thorough { 1 } else { 3 }).chain([129, 130, 131, 132, 133]) { v.push(c("signature:length", Cmd::new(&["hash", "transaction", "-", "--signature", &"1b".repeat(70)[..len]]).stdin(txt.as_bytes()))); }
    for s in ["zz", "0x", "\u{e9}", "-", "--", "0x1g"] { v.push(c("signature:non-hex", Cmd::new(&["hash", "transaction", "-", &format!("--signature={s}")]).stdin(txt.as_bytes()))); }
    for len in (0..=70usize).chain([128, 130]) { for pre in ["", "0x"] { v.push(c(&format!("digest:len={}", if len == 64 { "64" } else { "other" }), Cmd::new(&["sign", "--mnemonic", GANACHE, "raw", &format!("{pre}{}", &"ab".repeat(70)[..len])]))); } }
    for d in ["0xzz", "\u{e9}", " ", &format!("0x{}", "G".repeat(64)), &format!("0X{}", "1".repeat(64)), &n.to_hex64(), &"0".repeat(64), &"f".repeat(64)] { v.push(c("digest:odd", Cmd::new(&["sign", "--mnemonic", GANACHE, "raw", d]))); }
    // transaction JSON
    let cm = Nat::pow2(255).sub(&Nat::from_u64(19)); let one = Nat::from_u64(1);
    for cid in [cm.clone(), cm.add(&one), Nat::pow2(255), Nat::pow2(256).sub(&Nat::from_u64(37)), Nat::pow2(256).sub(&Nat::from_u64(36)), Nat::pow2(256).sub(&one), Nat::pow2(256), Nat::pow2(300)] {
        for (kind, kn) in [(Kind::Legacy, "legacy"), (Kind::Eip2930, "eip2930"), (Kind::Eip1559, "eip1559")] { for sp in [Spell::Hex, Spell::Dec] { for idx in ["0", "1", "2", "3"] {
            let mut f = txjson::tx_fields(&txjson::template(kind, true), Spell::Auto); txjson::set(&mut f, "chainId", Some(txjson::num(&cid, sp))); let t = J::Obj(f).to_text();
            v.push(c(&format!("transaction:{kn},chain-id-bits={}", cid.bit_len()), Cmd::new(&["sign", "--mnemonic", GANACHE, "--account-index", idx, "transaction", "-"]).stdin(t.as_bytes())));
            if idx == "0" { v.push(c(&format!("transaction:{kn},chain-id-bits={},hash", cid.bit_len()), Cmd::new(&["hash", "transaction", "-"]).stdin(t.as_bytes()))); v.push(c(&format!("transaction:{kn},chain-id-bits={},hash-with-signature", cid.bit_len()), Cmd::new(&["hash", "transaction", "-", "--signature", &format!("{}{}1c", "11".repeat(32), "22".repeat(32))]).stdin(t.as_bytes()))); }
        } } } }
    for lit in ["-1", "-9223372036854775808", "1.5", "1e400", "-1e400", "1e-400", "18446744073709551616", "null", "true", "[]", "{}", "\"\"", "\"0x\"", "\"-1\"", "\"0x10000000000000000000000000000000000000000000000000000000000000000\"", "\"\\u0000\"", "\"١\""] {
        for field in ["nonce", "gasPrice", "gas", "value", "chainId", "data", "to"] { let t = format!("{{\"nonce\":1,\"gasPrice\":2,\"gas\":3,\"value\":4,\"data\":\"0x\",\"chainId\":5,\"{field}\":{lit}}}"); v.push(c("transaction:literal", Cmd::new(&["sign", "--mnemonic", GANACHE, "transaction", "-"]).stdin(t.as_bytes()))); } }
    for t in ["", "{", "[]", "null", "1", "{}", "{\"nonce\":1}", "\u{feff}{}", "{\"nonce\":1,\"nonce\":2,\"gasPrice\":2,\"gas\":3,\"value\":4,\"data\":\"0x\",\"chainId\":5}"] { for sub in [vec!["sign", "--mnemonic", GANACHE, "transaction", "-"], vec!["hash", "transaction", "-"], vec!["sign", "--mnemonic", GANACHE, "typeddata", "-"], vec!["hash", "typeddata", "-"]] { v.push(c("json:degenerate-document", Cmd::new(&sub).stdin(t.as_bytes()))); } }
    v.push(c("json:invalid-utf8", Cmd::new(&["hash", "transaction", "-"]).stdin(&[0x7b, 0xff, 0xfe, 0x7d]))); v.push(c("json:invalid-utf8", Cmd::new(&["hash", "typeddata", "-"]).stdin(&[0x7b, 0x22, 0xc3, 0x28, 0x22, 0x7d])));
    // typed data: array-suffix depth, nesting, odd type names
    for k in (0..=64usize).step_by(if thorough { 1 } else { 4 }).chain([63, 64]) { for form in 0..3 {
        let ty = format!("uint8{}", (0..k).map(|_| ["[]", "[1]", "[0]"][form]).collect::<String>()); let mut val = J::n("1"); for _ in 0..k { val = if form == 2 { J::Arr(vec![]) } else { J::Arr(vec![val]) }; }
        let mut d = mail_doc(); d.types.push(("W".into(), vec![("x".into(), ty)])); d.primary = "W".into(); d.message = J::obj(vec![("x", val)]);
        v.push(c(&format!("typeddata:suffixes-class={}", match k { 0 => "0", 1..=16 => "1-16", 17..=63 => "17-63", _ => "64" }), Cmd::new(&["hash", "typeddata", "-"]).stdin(d.to_json().to_text().as_bytes()))); } }
    for depth in [1usize, 64, 127, 128, 129, 1000, 100000] { for (o, cl) in [("[", "]"), ("{\"a\":", "}")] {
        let nested = format!("{}1{}", o.repeat(depth), cl.repeat(depth));
        v.push(c(&format!("json:nesting={}", if depth <= 128 { "<=128" } else { ">128" }), Cmd::new(&["hash", "typeddata", "-"]).stdin(format!("{{\"types\":{{\"EIP712Domain\":[{{\"name\":\"name\",\"type\":\"string\"}}],\"M\":[{{\"name\":\"x\",\"type\":\"uint8[]\"}}]}},\"primaryType\":\"M\",\"domain\":{{\"name\":\"n\"}},\"message\":{{\"x\":{nested}}}}}").as_bytes())));
        v.push(c(&format!("json:nesting={}", if depth <= 128 { "<=128" } else { ">128" }), Cmd::new(&["hash", "transaction", "-"]).stdin(format!("{{\"nonce\":{nested},\"gasPrice\":1,\"gas\":1,\"value\":1,\"data\":\"0x\",\"chainId\":1}}").as_bytes()))); } }
    for ty in ["", " ", "[]", "[", "]", "uint256[", "uint256[-1]", "uint256[18446744073709551616]", "uint8[999999]", "uint256[4294967296]", "uint256[1099511627776]", "uint256[576460752303423487]", "uint256[576460752303423488]", "uint256[9223372036854775808]", "uint256[18446744073709551615]", "bytes4294967297", "uint99999999999", "W", "W[]", "EIP712Domain", "\u{ff11}"] {
        let mut d = mail_doc(); d.types.push(("W".into(), vec![("x".into(), ty.to_string())])); d.primary = "W".into(); d.message = J::obj(vec![("x", J::Arr(vec![]))]);
        v.push(c("typeddata:odd-type-name", Cmd::new(&["sign", "--mnemonic", GANACHE, "typeddata", "-"]).stdin(d.to_json().to_text().as_bytes()))); }
    // hex input, files, generic argv
    for t in [&b""[..], b"0x", b"0", b"zz", b"\xff", b"0x0", &[0x30; 100001][..]] { v.push(c("hex:decode", Cmd::new(&["hex", "decode"]).stdin(t))); }
    for a in [vec!["hash", "data", "/nonexistent/file"], vec!["hex", "encode", "/"], vec!["hash", "message", ""], vec![], vec!["--help"], vec!["nope"], vec!["sign"], vec!["hash", "transaction"], vec!["new", "--language", "klingon"], vec!["new", "--language", ""], vec!["--version"]] { v.push(c("argv:generic", Cmd::new(&a))); }
    // generation lengths and vanity search (termination is reproducible under the scripted stream; it fails after a horizon)
    for n in (0..=40).map(|n: u64| n.to_string()).chain(["18446744073709551615".into(), "18446744073709551616".into(), "-1".into(), "x".into(), "".into(), "12.0".into()]) { v.push(c("new:length", Cmd::new(&["new", "-n", &n]))); }
    let mut prefixes: Vec<String> = vec!["0x".into(), "".into(), "0".into(), "x".into(), "0xg".into(), "0x\u{e9}".into(), "0x 1".into(), "0X1".into(), "0xx".into()];
    for d in ["0", "9", "a", "f", "A", "F"] { prefixes.push(format!("0x{d}")); } for d in ["00", "aF", "Fa", "F0", "9E", "zz", "a\u{e9}"] { prefixes.push(format!("0x{d}")); } for d in ["aBc", "FFF", "12g"] { prefixes.push(format!("0x{d}")); }
    for p in &prefixes { for j in ["0", "1", "2", "16", "64"] { if p.len() == 5 && j != "16" && !thorough { continue; }
        v.push(Case { class: format!("vanity:digits={},j={j}", p.len().saturating_sub(2)), cmd: Cmd::new(&["new", "--vanity-prefix", p, "-j", j]).timeout(600), shim: Some(Mode::Stream { seed: 31, fail_at: Some(if p.len() >= 5 { 60000 } else { 6000 }) }) }); } }
    for j in ["0", "1", "2", "16"] { for a in [vec!["--vanity-account-index", "4294967296"], vec!["--vanity-account-index", "2147483648"], vec!["--vanity-account-index", "18446744073709551615"], vec!["--vanity-hd-path", "m/x"], vec!["--vanity-hd-path", "m/2147483648'"], vec!["--vanity-hd-path", ""], vec!["--vanity-account-index", "1", "--vanity-hd-path", "m/0"]] {
        let mut cmd = Cmd::new(&["new", "--vanity-prefix", "0x1", "-j", j]).timeout(15); for x in &a { cmd = cmd.arg(x); }
        v.push(Case { class: format!("vanity:bad-account-selector,j={j}"), cmd, shim: Some(Mode::Stream { seed: 32, fail_at: Some(2000) }) }); } }
    for j in ["-1", "x", "", "1.5", "64"] { v.push(Case { class: "vanity:worker-count".into(), cmd: Cmd::new(&["new", "--vanity-prefix", "0x1", "-j", j]).timeout(120), shim: Some(Mode::Stream { seed: 33, fail_at: Some(3000) }) }); }
    v
}
pub fn run(ctx: &Ctx) {
    let cs = cases(ctx.thorough()); let slow: std::sync::Mutex<Vec<(u128, String)>> = Default::default();
    ctx.sweep("cli-union", "every parser reachable from the command line at its numeric and size boundaries (phrases of 0..40 words, path and index edits around 2^31/2^32/2^64, signature and digest text, chain ids to 2^256-1 and beyond, JSON literals, nesting to 128 and beyond, array-suffix depth to 64, hex, generation lengths, vanity prefixes of 0..3 digits x worker counts 0..64) x both builds: exit status must be 0 or an ordinary error status (not 101, not a signal) within the timeout", (cs.len() * 2) as u64, |i| {
        let case = &cs[i as usize / 2]; let build = [Build::Release, Build::Checked][i as usize % 2];
        let (r, full) = match &case.shim { Some(m) => { let (r, _, f) = run_shimmed(&case.cmd, build, m, "cli-union", i); (r, f) } None => (case.cmd.run(build), case.cmd.clone()) };
        { let mut g = slow.lock().unwrap(); g.push((r.wall_ms, format!("{} [{build:?}]", trunc(&case.cmd.shown(), 120)))); g.sort_by(|a, b| b.0.cmp(&a.0)); g.truncate(8); }
        ctx.sample("cli-union", || serde_json::json!({"command": trunc(&full.shown(), 300)}));
        ctx.eval(format!("{}:{build:?}:{}", case.class, match &r.status { Status::Exit(c) => format!("exit{c}"), o => format!("{o:?}") }));
        if r.crashed() { ctx.panic_violation(format!("{P}:cli:{}:{}", case.class, r.crash_kind()), format!("{}: {}", trunc(&full.shown(), 400), r.describe()), full.replay("cli-union", i, build)) }
    });
    // the process ENVIRONMENT as input: variables whose value or name is not text (Latin-1 names of people, paths in a legacy
    // encoding), next to every locale setting - in the tool's own option variables and in variables it has no business with.
    // Whatever reads the environment wholesale (`std::env::vars()`), or reads one variable expecting text, meets these
    let values: [(&str, &[u8]); 7] = [("latin1", b"Andr\xe9"), ("lone-continuation", b"\x80abc"), ("truncated-sequence", b"abc\xe2\x82"), ("overlong", b"\xc0\xaf"), ("surrogate", b"\xed\xa0\x80"), ("utf8", "Andr\u{e9}".as_bytes()), ("empty", b"")];
    let names: [&[u8]; 9] = [b"REALNAME", b"LC_PAPER", b"LESSCHARSET", b"N\xe4me", b"MNEMONIC", b"PASSWORD", b"HD_PATH", b"ACCOUNT_INDEX", b"HDWALLET_LANGUAGE"];
    let locales: [&[(&str, &str)]; 5] = [&[], &[("LANG", "C")], &[("LANG", "en_US.UTF-8")], &[("LC_ALL", "de_DE.ISO-8859-1")], &[("LANG", ""), ("LC_ALL", "")]];
    let cmds: Vec<Vec<&str>> = vec![vec!["address", "--mnemonic", GANACHE], vec!["address"], vec!["hex", "encode", "-"], vec!["hash", "message", "-"], vec!["new", "-n", "12"], vec!["--help"], vec!["export", "--mnemonic", GANACHE, "--account-index", "1"], vec!["new", "--help"]];
    let total = (values.len() * names.len() * locales.len() * cmds.len()) as u64;
    ctx.sweep("environment-that-is-not-text", "8 commands x 9 variable names (4 foreign ones incl. a name that is not UTF-8, the tool's four option variables, a look-alike) x 7 values (Latin-1, lone continuation byte, truncated sequence, overlong, surrogate, UTF-8, empty) x 5 locale settings (none, C, UTF-8, Latin-1, empty): never a panic, abort or hang", total, |i| {
        let mut x = i as usize; let mut take = |k: usize| { let r = x % k; x /= k; r };
        let (vn, val) = values[take(values.len())]; let name = names[take(names.len())]; let loc = locales[take(locales.len())]; let argv = &cmds[take(cmds.len())];
        let mut cmd = Cmd::new(argv).stdin(b"abc").env_raw(name, val); for (k, v) in loc { cmd = cmd.env(k, v); }
        let r = cmd.run(Build::Release); let own = [&b"MNEMONIC"[..], b"PASSWORD", b"HD_PATH", b"ACCOUNT_INDEX"].contains(&name);
        let shape = format!("env:{}={vn},locale={},{}", if own { "option-variable" } else { "foreign-variable" }, if loc.is_empty() { "none" } else { "set" }, argv[0]);
        let replay = serde_json::json!({"sweep": "environment-that-is-not-text", "index": i, "entry": "CLI", "command": trunc(&cmd.shown(), 300), "variable_name_hex": refmodel::eth::hex(name), "variable_value_hex": refmodel::eth::hex(val), "locale": format!("{loc:?}")});
        ctx.sample("environment-that-is-not-text", || replay.clone());
        ctx.eval(format!("{shape}:{}", match &r.status { Status::Exit(0) => "exit0".to_string(), Status::Exit(101) => "panic".into(), Status::Exit(_) => "refused".into(), o => format!("{o:?}") }));
        if r.crashed() { ctx.panic_violation(format!("{P}:cli:environment-not-text:{}:{}", if own { "option-variable" } else { "foreign-variable" }, r.crash_kind()), format!("{} with variable {} = {:?}: {}", trunc(&cmd.shown(), 200), String::from_utf8_lossy(name), String::from_utf8_lossy(val), r.describe()), replay) }
    });
    ctx.set_extra("slowest_cases_ms", serde_json::json!(slow.lock().unwrap().clone()));
    ctx.guard_check("success and refusal both observed", ctx.classes_matching(|c| c.ends_with(":exit0")) > 0 && ctx.classes_matching(|c| !c.ends_with(":exit0")) > 0, "exit 0 and a non-zero exit status both occurred");
}

//! Input channels: every command that reads a document or bytes must give the same (reference) result whichever way the
//! input arrives — a regular file, `-` with a pipe, the default (no argument) where one exists, /dev/stdin and
//! /proc/self/fd/0 with a pipe behind them (not regular files: no size in their metadata), /dev/stdin with a regular file
//! behind it, a symbolic link, a named pipe — for contents that need zero, one and several reads.
use crate::acct::*;
use crate::cli::*;
use crate::docs::*;
use explore::{filler_bytes, Ctx};
use refmodel::eip712;
use refmodel::eth::{eip191_digest, hex};
use refmodel::hash::keccak256;
use refmodel::json::Class;
use refmodel::secp::Curve;
use refmodel::txjson::{self, Spell};

pub const CHANNELS: [&str; 11] = ["file", "dash-pipe", "dev-stdin-pipe", "proc-fd0-pipe", "dev-stdin-regular-file", "symlink", "named-pipe", "default-pipe", "dash-regular-file", "dash-regular-file-at-offset", "default-regular-file-at-offset"];

struct Case { label: String, argv: Vec<String>, content: Vec<u8>, want: Vec<u8>, has_default: bool }

pub fn run(ctx: &Ctx, p: &str) {
    let curve = Curve::new(); let key = key_of(&curve, GANACHE, "", &default_path(0));
    let mut cases: Vec<Case> = Vec::new();
    let sv = |v: &[&str]| v.iter().map(|s| s.to_string()).collect::<Vec<_>>();
    let line = |s: String| format!("{s}\n").into_bytes();
    let sizes: Vec<usize> = if ctx.quick() { vec![0, 5, 70_000] } else { vec![0, 1, 5, 4096, 65_536, 70_000, 300_000] };
    if p == "C10" || p == "C16" {
        for n in &sizes { let m = filler_bytes(ctx.seed, 0xC4A + *n as u64, *n); let d = eip191_digest(&m);
            cases.push(Case { label: format!("hash message:len={n}"), argv: sv(&["hash", "message"]), content: m.clone(), want: line(format!("0x{}", hex(&d))), has_default: false });
            cases.push(Case { label: format!("sign message:len={n}"), argv: sv(&["sign", "--mnemonic", GANACHE, "message"]), content: m.clone(), want: line(sign_text(&curve, &key, &d)), has_default: false }); }
    }
    if p == "C16" {
        for n in &sizes { let m = filler_bytes(ctx.seed, 0xC4B + *n as u64, *n); cases.push(Case { label: format!("hash data:len={n}"), argv: sv(&["hash", "data"]), content: m.clone(), want: line(format!("0x{}", hex(&keccak256(&m)))), has_default: false }); }
        let tx = sample_tx(); let txd = tx.signing_hash();
        // a short and a long (calldata > one pipe buffer) transaction document
        let mut big = tx.clone(); big.data = filler_bytes(ctx.seed, 0xC4C, 40_000);
        for (name, t) in [("short", tx.clone()), ("long", big)] { let text = txjson::tx_json(&t, Spell::Auto).to_text().into_bytes(); let d = t.signing_hash(); let (r, s, odd, _) = curve.sign_rfc6979(&key, &d);
            cases.push(Case { label: format!("hash transaction:{name}"), argv: sv(&["hash", "transaction"]), content: text.clone(), want: line(format!("0x{}", hex(&d))), has_default: false });
            cases.push(Case { label: format!("sign transaction:{name}"), argv: sv(&["sign", "--mnemonic", GANACHE, "transaction"]), content: text.clone(), want: line(format!("0x{}", hex(&t.signed_payload(odd, &r.to_nat(), &s.to_nat())))), has_default: false }); }
        let _ = txd;
        let mail = mail_doc(); let md = match eip712::evaluate(&mail).0 { Class::Accept(d) => d, _ => unreachable!() }; let text = mail.to_json().to_text().into_bytes();
        cases.push(Case { label: "hash typeddata".into(), argv: sv(&["hash", "typeddata"]), content: text.clone(), want: line(format!("0x{}", hex(&md.digest))), has_default: false });
        cases.push(Case { label: "sign typeddata".into(), argv: sv(&["sign", "--mnemonic", GANACHE, "typeddata"]), content: text.clone(), want: line(sign_text(&curve, &key, &md.digest)), has_default: false });
    }
    if p == "C19" {
        for n in &sizes { let m = filler_bytes(ctx.seed, 0xC4D + *n as u64, *n);
            cases.push(Case { label: format!("hex encode:len={n}"), argv: sv(&["hex", "encode"]), content: m.clone(), want: line(format!("0x{}", hex(&m))), has_default: true });
            cases.push(Case { label: format!("hex decode:len={n}"), argv: sv(&["hex", "decode"]), content: format!("0x{}", hex(&m)).into_bytes(), want: m.clone(), has_default: true }); }
    }
    // the environment's other legal answer: short reads (every read(2) returns at most n bytes), owned through the LD_PRELOAD shim
    let chunks: Vec<usize> = if ctx.quick() { vec![0, 1, 4096] } else { vec![0, 1, 2, 7, 4096, 65_535] };
    let total = (cases.len() * CHANNELS.len() * chunks.len()) as u64;
    ctx.sweep("input-channels", "every input-reading command x contents needing zero, one and several reads x 11 ways the input can arrive x read(2) answering in full or with at most 1 / 4096 bytes per call (thorough: 1, 2, 7, 4096, 65535) (regular file, `-` + pipe, /dev/stdin + pipe, /proc/self/fd/0 + pipe, /dev/stdin + regular file, symbolic link, named pipe, no argument + pipe where the argument is optional, `-` + regular file, `-` / no argument + regular file already positioned behind a consumed preamble): the reference output every time", total, |i| {
        let chunk = chunks[i as usize % chunks.len()]; let k = i / chunks.len() as u64;
        let c = &cases[k as usize / CHANNELS.len()]; let ch = CHANNELS[k as usize % CHANNELS.len()];
        if chunk == 1 && c.content.len() > 100_000 { return; }
        if (ch == "default-pipe" || ch == "default-regular-file-at-offset") && !c.has_default { return; }
        let argv: Vec<&str> = c.argv.iter().map(|s| s.as_str()).collect(); let mut cmd = Cmd::new(&argv); let mut files: Vec<String> = Vec::new();
        match ch {
            "file" => { let f = scratch_file("input-channels", i, "in", &c.content); cmd = cmd.arg(&f); files.push(f); }
            "dash-pipe" => { cmd = cmd.arg("-").stdin(&c.content); }
            "dev-stdin-pipe" => { cmd = cmd.arg("/dev/stdin").stdin(&c.content); }
            "proc-fd0-pipe" => { cmd = cmd.arg("/proc/self/fd/0").stdin(&c.content); }
            "dev-stdin-regular-file" => { let f = scratch_file("input-channels", i, "in", &c.content); cmd = cmd.arg("/dev/stdin").stdin_from_file(&f); files.push(f); }
            "symlink" => { let f = scratch_file("input-channels", i, "in", &c.content); let l = format!("{f}.lnk"); let _ = std::fs::remove_file(&l); std::os::unix::fs::symlink(&f, &l).expect("symlink"); cmd = cmd.arg(&l); files.push(f); files.push(l); }
            "dash-regular-file" => { let f = scratch_file("input-channels", i, "in", &c.content); cmd = cmd.arg("-").stdin_from_file(&f); files.push(f); }
            // standard input is a regular file that is already positioned behind a preamble another reader consumed
            // (`{ read header; hdwallet ... -; } < file`): the input is what follows the position
            "dash-regular-file-at-offset" | "default-regular-file-at-offset" => { let pre: &[u8] = if i % 2 == 0 { b"# header line\n" } else { b"0xabc" }; let f = scratch_file("input-channels", i, "in", &[pre, &c.content[..]].concat());
                if ch.starts_with("dash") { cmd = cmd.arg("-"); } cmd = cmd.stdin_from_file_at(&f, pre.len() as u64); files.push(f); }
            "named-pipe" => { let f = scratch_file("input-channels", i, "fifo", b""); cmd = cmd.arg(&f).fifo(&f, &c.content); files.push(f); }
            _ => { cmd = cmd.stdin(&c.content); }
        }
        if chunk > 0 { cmd = cmd.env("LD_PRELOAD", &crate::shim::shim_path()).env("HDW_READ_CHUNK", &chunk.to_string()); }
        let r = cmd.run(Build::Release); for f in &files { rm(f); }
        let ch = &format!("{ch}{}", if chunk > 0 { format!(",reads<={chunk}") } else { String::new() });
        let shape = format!("{}:{ch}", c.label);
        let replay = serde_json::json!({"sweep": "input-channels", "index": i, "entry": "CLI", "command": trunc(&cmd.shown(), 400), "channel": ch, "read_chunk": chunk, "content_len": c.content.len(), "content_hex_prefix": hex(&c.content[..c.content.len().min(64)])});
        ctx.sample("input-channels", || replay.clone());
        if r.crashed() { ctx.eval(format!("{shape}:{}", r.crash_kind())); ctx.panic_violation(format!("{p}:cli:input-channel:{}:{ch}:{}", c.argv[..2.min(c.argv.len())].join("-"), r.crash_kind()), r.describe(), replay); return; }
        ctx.eval(format!("{shape}:{}", if r.ok() { "printed" } else { "refused" }));
        if !r.ok() || r.stdout != c.want { ctx.violation(format!("{p}:cli:input-channel:{}:{ch}:wrong-output", c.label.split(':').next().unwrap()), format!("printed {:?} ({:?}); the reference result for the {} input bytes is {:?}", trunc(&r.line(), 140), r.status, c.content.len(), trunc(&String::from_utf8_lossy(&c.want), 140)), replay) }
    });
    // where the OUTPUT goes: a regular file and a pseudo-terminal instead of the pipe (a program that formats for humans when
    // it sees a tty must still print the same result)
    let outs = [StdoutTo::File, StdoutTo::Terminal];
    ctx.sweep("output-channels", "every input-reading command (input from a regular file) with standard output going to a regular file and to a pseudo-terminal instead of a pipe: the same bytes (the terminal's CR LF undone)", (cases.len() * outs.len()) as u64, |i| {
        let c = &cases[i as usize / outs.len()]; let to = outs[i as usize % outs.len()];
        let argv: Vec<&str> = c.argv.iter().map(|s| s.as_str()).collect(); let f = scratch_file("output-channels", i, "in", &c.content);
        let cmd = Cmd::new(&argv).arg(&f).stdout_to(to); let r = cmd.run(Build::Release); rm(&f);
        let shape = format!("{}:stdout={to:?}", c.label);
        let replay = serde_json::json!({"sweep": "output-channels", "index": i, "entry": "CLI", "command": trunc(&cmd.shown(), 400), "stdout_to": format!("{to:?}"), "content_len": c.content.len()});
        ctx.sample("output-channels", || replay.clone());
        if r.crashed() { ctx.eval(format!("{shape}:{}", r.crash_kind())); ctx.panic_violation(format!("{p}:cli:output-channel:{}:{to:?}:{}", c.argv[..2.min(c.argv.len())].join("-"), r.crash_kind()), r.describe(), replay); return; }
        ctx.eval(format!("{shape}:{}", if r.ok() { "printed" } else { "refused" }));
        if !r.ok() || r.stdout != c.want { ctx.violation(format!("{p}:cli:output-channel:{}:{to:?}:wrong-output", c.label.split(':').next().unwrap()), format!("with standard output to a {to:?}: printed {:?} ({:?}); the reference result is {:?}", trunc(&r.line(), 140), r.status, trunc(&String::from_utf8_lossy(&c.want), 140)), replay) }
    });
}

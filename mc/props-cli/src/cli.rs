//! Spawning the shipped CLI with a scrubbed environment and observing stdout / stderr / exit status / wall time.
use std::io::{Read, Write};
use std::process::{Command, Stdio};
use std::time::{Duration, Instant};
use wait_timeout::ChildExt;

#[derive(Clone, Copy, Debug, PartialEq, Eq)]
pub enum Build { Release, Checked }
#[derive(Clone, Debug, PartialEq, Eq)]
pub enum Status { Exit(i32), Signal(i32), Timeout }
#[derive(Clone, Debug)]
pub struct Run { pub status: Status, pub stdout: Vec<u8>, pub stderr: String, pub wall_ms: u128 }
impl Run {
    pub fn ok(&self) -> bool { self.status == Status::Exit(0) }
    /// an ordinary refusal: any non-zero exit status other than Rust's panic status 101 (today: 255 tool error, 2 usage error)
    pub fn refused(&self) -> bool { matches!(self.status, Status::Exit(c) if c != 0 && c != 101) }
    /// panic (101), signal, or hang
    pub fn crashed(&self) -> bool { !self.ok() && !self.refused() }
    pub fn out(&self) -> String { String::from_utf8_lossy(&self.stdout).into_owned() }
    pub fn line(&self) -> String { self.out().trim_end_matches('\n').to_string() }
    pub fn describe(&self) -> String { format!("{:?}, stdout {:?}, stderr {:?}", self.status, trunc(&self.out(), 200), trunc(&self.stderr, 300)) }
    pub fn crash_kind(&self) -> String { match self.status { Status::Exit(101) => "panic".into(), Status::Signal(s) => format!("signal{s}"), Status::Timeout => "hang".into(), Status::Exit(c) => format!("exit{c}") } }
}
pub fn trunc(s: &str, n: usize) -> String { if s.chars().count() > n { format!("{}…", s.chars().take(n).collect::<String>()) } else { s.to_string() } }
pub fn bin(b: Build) -> String {
    let (var, dflt) = match b { Build::Release => ("VERIF_CLI_RELEASE", "/verif/target/cli-release/release/hdwallet"), Build::Checked => ("VERIF_CLI_CHECKED", "/verif/target/cli-checked/release/hdwallet") };
    std::env::var(var).unwrap_or_else(|_| dflt.to_string())
}

#[derive(Clone, Debug, Default)]
pub struct Cmd { pub args: Vec<String>, pub env: Vec<(String, String)>, pub stdin: Option<Vec<u8>>, pub timeout_s: u64,
    /// standard input redirected from this (regular) file instead of a pipe
    pub stdin_file: Option<String>,
    /// the file given as standard input is already positioned at this offset (a parent that consumed a preamble)
    pub stdin_offset: u64,
    /// environment variables whose name or value need not be text
    pub env_raw: Vec<(Vec<u8>, Vec<u8>)>,
    /// a named pipe created at this path before the spawn and fed with these bytes once the child opens it
    pub fifo: Option<(String, Vec<u8>)>,
    /// where standard output goes: a pipe (default), a regular file, or a pseudo-terminal (the program then sees a tty)
    pub stdout_to: StdoutTo }
#[derive(Clone, Copy, Debug, Default, PartialEq, Eq)]
pub enum StdoutTo { #[default] Pipe, File, Terminal }
impl Cmd {
    pub fn new(args: &[&str]) -> Cmd { Cmd { args: args.iter().map(|s| s.to_string()).collect(), env: vec![], stdin: None, timeout_s: 20, stdin_file: None, stdin_offset: 0, env_raw: vec![], fifo: None, stdout_to: StdoutTo::Pipe } }
    pub fn arg(mut self, a: &str) -> Cmd { self.args.push(a.into()); self }
    pub fn env(mut self, k: &str, v: &str) -> Cmd { self.env.push((k.into(), v.into())); self }
    pub fn stdin(mut self, b: &[u8]) -> Cmd { self.stdin = Some(b.to_vec()); self }
    pub fn timeout(mut self, s: u64) -> Cmd { self.timeout_s = s; self }
    pub fn stdin_from_file(mut self, path: &str) -> Cmd { self.stdin_file = Some(path.into()); self }
    pub fn stdin_from_file_at(mut self, path: &str, offset: u64) -> Cmd { self.stdin_file = Some(path.into()); self.stdin_offset = offset; self }
    pub fn env_raw(mut self, k: &[u8], v: &[u8]) -> Cmd { self.env_raw.push((k.to_vec(), v.to_vec())); self }
    pub fn stdout_to(mut self, t: StdoutTo) -> Cmd { self.stdout_to = t; self }
    pub fn fifo(mut self, path: &str, data: &[u8]) -> Cmd { self.fifo = Some((path.into(), data.to_vec())); self }
    pub fn run(&self, b: Build) -> Run {
        let t0 = Instant::now();
        let mut c = Command::new(bin(b));
        c.args(&self.args).env_clear().stdout(Stdio::piped()).stderr(Stdio::piped()).stdin(if let Some(f) = &self.stdin_file { Stdio::from({ use std::io::Seek; let mut h = std::fs::File::open(f).expect("open stdin file"); if self.stdin_offset > 0 { h.seek(std::io::SeekFrom::Start(self.stdin_offset)).expect("seek stdin file"); } h }) } else if self.stdin.is_some() { Stdio::piped() } else { Stdio::null() });
        // named pipe: created before the spawn, fed by a thread that opens it without blocking (the child may never open it)
        let done = std::sync::Arc::new(std::sync::atomic::AtomicBool::new(false));
        let feeder = self.fifo.clone().map(|(path, data)| {
            let _ = std::fs::remove_file(&path);
            let cp = std::ffi::CString::new(path.clone()).unwrap(); extern "C" { fn mkfifo(path: *const std::os::raw::c_char, mode: u32) -> i32; }
            assert_eq!(unsafe { mkfifo(cp.as_ptr(), 0o600) }, 0, "mkfifo {path}");
            let done = done.clone();
            std::thread::spawn(move || { use std::os::unix::fs::OpenOptionsExt; use std::sync::atomic::Ordering;
                let mut f = loop { match std::fs::OpenOptions::new().write(true).custom_flags(0o4000 /* O_NONBLOCK */).open(&path) { Ok(f) => break f, Err(_) => { if done.load(Ordering::Relaxed) { return; } std::thread::sleep(Duration::from_millis(1)); } } };
                let mut off = 0; while off < data.len() { match f.write(&data[off..]) { Ok(n) => off += n, Err(e) if e.kind() == std::io::ErrorKind::WouldBlock => { if done.load(Ordering::Relaxed) { return; } std::thread::sleep(Duration::from_millis(1)); } Err(_) => return } } })
        });
        for (k, v) in &self.env { c.env(k, v); }
        for (k, v) in &self.env_raw { use std::os::unix::ffi::OsStringExt; c.env(std::ffi::OsString::from_vec(k.clone()), std::ffi::OsString::from_vec(v.clone())); }
        // the child must never outlive the harness (a watchdog exit or a killed harness would otherwise leave endless
        // vanity searches behind): ask the kernel to SIGKILL it when its parent dies
        unsafe { use std::os::unix::process::CommandExt; c.pre_exec(|| { extern "C" { fn prctl(option: i32, arg2: u64, arg3: u64, arg4: u64, arg5: u64) -> i32; } prctl(1 /* PR_SET_PDEATHSIG */, 9 /* SIGKILL */, 0, 0, 0); Ok(()) }); }
        // standard output to a regular file or to a pseudo-terminal instead of the pipe
        let mut out_file: Option<String> = None; let mut pty_master: Option<std::fs::File> = None;
        match self.stdout_to {
            StdoutTo::Pipe => {}
            StdoutTo::File => { let p = scratch_file("stdout", std::time::SystemTime::now().duration_since(std::time::UNIX_EPOCH).map(|d| d.as_nanos() as u64).unwrap_or(0), "out", b""); c.stdout(Stdio::from(std::fs::OpenOptions::new().write(true).truncate(true).open(&p).expect("open stdout file"))); out_file = Some(p); }
            StdoutTo::Terminal => { use std::os::unix::io::FromRawFd;
                extern "C" { fn posix_openpt(flags: i32) -> i32; fn grantpt(fd: i32) -> i32; fn unlockpt(fd: i32) -> i32; fn ptsname_r(fd: i32, buf: *mut std::os::raw::c_char, len: usize) -> i32; }
                let m = unsafe { posix_openpt(0o2 | 0o400) }; assert!(m >= 0, "posix_openpt"); // O_RDWR | O_NOCTTY
                assert_eq!(unsafe { grantpt(m) }, 0, "grantpt"); assert_eq!(unsafe { unlockpt(m) }, 0, "unlockpt");
                let mut name = [0 as std::os::raw::c_char; 128]; assert_eq!(unsafe { ptsname_r(m, name.as_mut_ptr(), name.len()) }, 0, "ptsname_r");
                let path = unsafe { std::ffi::CStr::from_ptr(name.as_ptr()) }.to_string_lossy().into_owned();
                let slave = std::fs::OpenOptions::new().read(true).write(true).open(&path).expect("open pty slave");
                c.stdout(Stdio::from(slave)); pty_master = Some(unsafe { std::fs::File::from_raw_fd(m) }); }
        }
        let mut child = c.spawn().expect("spawn hdwallet");
        drop(c); // closes the harness's copies of the file / pty slave handed to the child
        let mut si = child.stdin.take(); let data = self.stdin.clone();
        let w = std::thread::spawn(move || { if let (Some(mut si), Some(d)) = (si.take(), data) { let _ = si.write_all(&d); } });
        let so = child.stdout.take(); let mut se = child.stderr.take().unwrap();
        // from a terminal, read until the last writer is gone (EIO); the line discipline turns LF into CR LF, which is undone
        let ro = std::thread::spawn(move || { let mut v = Vec::new(); if let Some(mut so) = so { let _ = so.read_to_end(&mut v); } else if let Some(mut m) = pty_master { let mut buf = [0u8; 4096]; loop { match m.read(&mut buf) { Ok(0) | Err(_) => break, Ok(n) => v.extend_from_slice(&buf[..n]) } } let mut w = Vec::with_capacity(v.len()); let mut i = 0; while i < v.len() { if v[i] == b'\r' && i + 1 < v.len() && v[i + 1] == b'\n' { i += 1; continue; } w.push(v[i]); i += 1; } v = w; } v });
        let re = std::thread::spawn(move || { let mut v = Vec::new(); let _ = se.read_to_end(&mut v); v });
        let status = match child.wait_timeout(Duration::from_secs(self.timeout_s)).expect("wait") {
            Some(st) => { use std::os::unix::process::ExitStatusExt; match st.code() { Some(c) => Status::Exit(c), None => Status::Signal(st.signal().unwrap_or(0)) } }
            None => { let _ = child.kill(); let _ = child.wait(); Status::Timeout }
        };
        let _ = w.join();
        done.store(true, std::sync::atomic::Ordering::Relaxed); if let Some(h) = feeder { let _ = h.join(); } if let Some((path, _)) = &self.fifo { let _ = std::fs::remove_file(path); }
        let mut captured = ro.join().unwrap_or_default();
        if let Some(p) = out_file { captured = std::fs::read(&p).unwrap_or_default(); let _ = std::fs::remove_file(&p); }
        Run { status, stdout: captured, stderr: String::from_utf8_lossy(&re.join().unwrap_or_default()).into_owned(), wall_ms: t0.elapsed().as_millis() }
    }
    pub fn shown(&self) -> String { format!("hdwallet {}{}{}", self.args.iter().map(|a| if a.chars().all(|c| c.is_ascii_alphanumeric() || "-_/.'=:".contains(c)) && !a.is_empty() { a.clone() } else { format!("{a:?}") }).collect::<Vec<_>>().join(" "),
        if self.env.is_empty() { String::new() } else { format!("  [env {}]", self.env.iter().map(|(k, v)| format!("{k}={:?}", trunc(v, 120))).collect::<Vec<_>>().join(" ")) },
        match &self.stdin { Some(d) => format!("  [stdin {} bytes: {}]", d.len(), trunc(&String::from_utf8_lossy(d), 300)), None => String::new() }) }
    pub fn replay(&self, sweep: &str, index: u64, build: Build) -> serde_json::Value {
        serde_json::json!({"sweep": sweep, "index": index, "entry": "CLI", "build": format!("{build:?}"), "argv": self.args, "env": self.env, "stdin_hex": self.stdin.as_ref().map(|d| explore::hex(&d[..d.len().min(4096)])), "command": trunc(&self.shown(), 3000)})
    }
}
/// a scratch file unique to (sweep, index, tag)
pub fn scratch_file(sweep: &str, index: u64, tag: &str, data: &[u8]) -> String {
    let dir = std::env::var("VERIF_SCRATCH").unwrap_or_else(|_| "/verif/target/scratch".into());
    let p = format!("{dir}/{}-{}-{index}-{tag}", std::process::id(), sweep.replace(|c: char| !c.is_ascii_alphanumeric(), "_"));
    std::fs::write(&p, data).expect("write scratch file"); p
}
pub fn rm(p: &str) { let _ = std::fs::remove_file(p); }

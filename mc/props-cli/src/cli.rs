//! Spawning the shipped CLI with a scrubbed environment and observing stdout / stderr / exit status / wall time.
use std::io::{Read, Write};
use std::process::{Command, Stdio};
use std::time::{Duration, Instant};
use wait_timeout::ChildExt;

#[derive(Clone, Copy, Debug, PartialEq, Eq)]
pub enum Build { Release, Checked }
#[derive(Clone, Debug, PartialEq, Eq)]
pub enum Status { Exit(i32), Signal(i32), Timeout }
#[derive(Clone, Debug)]
pub struct Run { pub status: Status, pub stdout: Vec<u8>, pub stderr: String, pub wall_ms: u128 }
impl Run {
    pub fn ok(&self) -> bool { self.status == Status::Exit(0) }
    /// an ordinary refusal: any non-zero exit status other than Rust's panic status 101 (today: 255 tool error, 2 usage error)
    pub fn refused(&self) -> bool { matches!(self.status, Status::Exit(c) if c != 0 && c != 101) }
    /// panic (101), signal, or hang
    pub fn crashed(&self) -> bool { !self.ok() && !self.refused() }
    pub fn out(&self) -> String { String::from_utf8_lossy(&self.stdout).into_owned() }
    pub fn line(&self) -> String { self.out().trim_end_matches('\n').to_string() }
    pub fn describe(&self) -> String { format!("{:?}, stdout {:?}, stderr {:?}", self.status, trunc(&self.out(), 200), trunc(&self.stderr, 300)) }
    pub fn crash_kind(&self) -> String { match self.status { Status::Exit(101) => "panic".into(), Status::Signal(s) => format!("signal{s}"), Status::Timeout => "hang".into(), Status::Exit(c) => format!("exit{c}") } }
}
pub fn trunc(s: &str, n: usize) -> String { if s.chars().count() > n { format!("{}…", s.chars().take(n).collect::<String>()) } else { s.to_string() } }
pub fn bin(b: Build) -> String {
    let (var, dflt) = match b { Build::Release => ("VERIF_CLI_RELEASE", "/verif/target/cli-release/release/hdwallet"), Build::Checked => ("VERIF_CLI_CHECKED", "/verif/target/cli-checked/release/hdwallet") };
    std::env::var(var).unwrap_or_else(|_| dflt.to_string())
}

#[derive(Clone, Debug, Default)]
pub struct Cmd { pub args: Vec<String>, pub env: Vec<(String, String)>, pub stdin: Option<Vec<u8>>, pub timeout_s: u64,
    /// standard input redirected from this (regular) file instead of a pipe
    pub stdin_file: Option<String>,
    /// a named pipe created at this path before the spawn and fed with these bytes once the child opens it
    pub fifo: Option<(String, Vec<u8>)> }
impl Cmd {
    pub fn new(args: &[&str]) -> Cmd { Cmd { args: args.iter().map(|s| s.to_string()).collect(), env: vec![], stdin: None, timeout_s: 20, stdin_file: None, fifo: None } }
    pub fn arg(mut self, a: &str) -> Cmd { self.args.push(a.into()); self }
    pub fn env(mut self, k: &str, v: &str) -> Cmd { self.env.push((k.into(), v.into())); self }
    pub fn stdin(mut self, b: &[u8]) -> Cmd { self.stdin = Some(b.to_vec()); self }
    pub fn timeout(mut self, s: u64) -> Cmd { self.timeout_s = s; self }
    pub fn stdin_from_file(mut self, path: &str) -> Cmd { self.stdin_file = Some(path.into()); self }
    pub fn fifo(mut self, path: &str, data: &[u8]) -> Cmd { self.fifo = Some((path.into(), data.to_vec())); self }
    pub fn run(&self, b: Build) -> Run {
        let t0 = Instant::now();
        let mut c = Command::new(bin(b));
        c.args(&self.args).env_clear().stdout(Stdio::piped()).stderr(Stdio::piped()).stdin(if let Some(f) = &self.stdin_file { Stdio::from(std::fs::File::open(f).expect("open stdin file")) } else if self.stdin.is_some() { Stdio::piped() } else { Stdio::null() });
        // named pipe: created before the spawn, fed by a thread that opens it without blocking (the child may never open it)
        let done = std::sync::Arc::new(std::sync::atomic::AtomicBool::new(false));
        let feeder = self.fifo.clone().map(|(path, data)| {
            let _ = std::fs::remove_file(&path);
            let cp = std::ffi::CString::new(path.clone()).unwrap(); extern "C" { fn mkfifo(path: *const std::os::raw::c_char, mode: u32) -> i32; }
            assert_eq!(unsafe { mkfifo(cp.as_ptr(), 0o600) }, 0, "mkfifo {path}");
            let done = done.clone();
            std::thread::spawn(move || { use std::os::unix::fs::OpenOptionsExt; use std::sync::atomic::Ordering;
                let mut f = loop { match std::fs::OpenOptions::new().write(true).custom_flags(0o4000 /* O_NONBLOCK */).open(&path) { Ok(f) => break f, Err(_) => { if done.load(Ordering::Relaxed) { return; } std::thread::sleep(Duration::from_millis(1)); } } };
                let mut off = 0; while off < data.len() { match f.write(&data[off..]) { Ok(n) => off += n, Err(e) if e.kind() == std::io::ErrorKind::WouldBlock => { if done.load(Ordering::Relaxed) { return; } std::thread::sleep(Duration::from_millis(1)); } Err(_) => return } } })
        });
        for (k, v) in &self.env { c.env(k, v); }
        // the child must never outlive the harness (a watchdog exit or a killed harness would otherwise leave endless
        // vanity searches behind): ask the kernel to SIGKILL it when its parent dies
        unsafe { use std::os::unix::process::CommandExt; c.pre_exec(|| { extern "C" { fn prctl(option: i32, arg2: u64, arg3: u64, arg4: u64, arg5: u64) -> i32; } prctl(1 /* PR_SET_PDEATHSIG */, 9 /* SIGKILL */, 0, 0, 0); Ok(()) }); }
        let mut child = c.spawn().expect("spawn hdwallet");
        let mut si = child.stdin.take(); let data = self.stdin.clone();
        let w = std::thread::spawn(move || { if let (Some(mut si), Some(d)) = (si.take(), data) { let _ = si.write_all(&d); } });
        let mut so = child.stdout.take().unwrap(); let mut se = child.stderr.take().unwrap();
        let ro = std::thread::spawn(move || { let mut v = Vec::new(); let _ = so.read_to_end(&mut v); v });
        let re = std::thread::spawn(move || { let mut v = Vec::new(); let _ = se.read_to_end(&mut v); v });
        let status = match child.wait_timeout(Duration::from_secs(self.timeout_s)).expect("wait") {
            Some(st) => { use std::os::unix::process::ExitStatusExt; match st.code() { Some(c) => Status::Exit(c), None => Status::Signal(st.signal().unwrap_or(0)) } }
            None => { let _ = child.kill(); let _ = child.wait(); Status::Timeout }
        };
        let _ = w.join();
        done.store(true, std::sync::atomic::Ordering::Relaxed); if let Some(h) = feeder { let _ = h.join(); } if let Some((path, _)) = &self.fifo { let _ = std::fs::remove_file(path); }
        Run { status, stdout: ro.join().unwrap_or_default(), stderr: String::from_utf8_lossy(&re.join().unwrap_or_default()).into_owned(), wall_ms: t0.elapsed().as_millis() }
    }
    pub fn shown(&self) -> String { format!("hdwallet {}{}{}", self.args.iter().map(|a| if a.chars().all(|c| c.is_ascii_alphanumeric() || "-_/.'=:".contains(c)) && !a.is_empty() { a.clone() } else { format!("{a:?}") }).collect::<Vec<_>>().join(" "),
        if self.env.is_empty() { String::new() } else { format!("  [env {}]", self.env.iter().map(|(k, v)| format!("{k}={:?}", trunc(v, 120))).collect::<Vec<_>>().join(" ")) },
        match &self.stdin { Some(d) => format!("  [stdin {} bytes: {}]", d.len(), trunc(&String::from_utf8_lossy(d), 300)), None => String::new() }) }
    pub fn replay(&self, sweep: &str, index: u64, build: Build) -> serde_json::Value {
        serde_json::json!({"sweep": sweep, "index": index, "entry": "CLI", "build": format!("{build:?}"), "argv": self.args, "env": self.env, "stdin_hex": self.stdin.as_ref().map(|d| explore::hex(&d[..d.len().min(4096)])), "command": trunc(&self.shown(), 3000)})
    }
}
/// a scratch file unique to (sweep, index, tag)
pub fn scratch_file(sweep: &str, index: u64, tag: &str, data: &[u8]) -> String {
    let dir = std::env::var("VERIF_SCRATCH").unwrap_or_else(|_| "/verif/target/scratch".into());
    let p = format!("{dir}/{}-{}-{index}-{tag}", std::process::id(), sweep.replace(|c: char| !c.is_ascii_alphanumeric(), "_"));
    std::fs::write(&p, data).expect("write scratch file"); p
}
pub fn rm(p: &str) { let _ = std::fs::remove_file(p); }

//! CLI repetition of properties that are decided on the library layer: the library-level run of the same check emits a
//! deterministic sample of its cases (document / phrase, reference verdict, reference outputs) into VERIF_CLI_CASES;
//! this module replays each of them on the shipped CLI. C03 and C05 generate their (small) alphabets themselves.
use crate::acct::*;
use crate::cli::*;
use explore::Ctx;
use refmodel::eth::hex;
use refmodel::grammar::{path_text, HARD};
use refmodel::secp::{self, Curve, U256};
use serde_json::Value;

fn load(ctx: &Ctx) -> Vec<Value> {
    let path = match std::env::var("VERIF_CLI_CASES") { Ok(p) => p, Err(_) => { ctx.engine_error("VERIF_CLI_CASES is not set: the CLI repetition needs the cases emitted by the library-level run"); return vec![]; } };
    match std::fs::read_to_string(&path) { Ok(t) => t.lines().filter_map(|l| serde_json::from_str(l).ok()).collect(), Err(e) => { ctx.engine_error(format!("cannot read the emitted cases {path}: {e} (run the whole check once before replaying a CLI case)")); vec![] } }
}
fn crash(ctx: &Ctx, p: &str, sweep: &str, i: u64, shape: &str, cmd: &Cmd, r: &Run) -> bool {
    if r.crashed() { ctx.eval(format!("{shape}:{}", r.crash_kind())); ctx.panic_violation(format!("{p}:cli:{shape}:{}", r.crash_kind()), format!("{}: {}", trunc(&cmd.shown(), 300), r.describe()), cmd.replay(sweep, i, Build::Release)); true } else { false }
}
pub fn run_emitted(ctx: &Ctx, p: &'static str) {
    let cases = load(ctx); let n = cases.len() as u64;
    if n == 0 { ctx.guard_check("cases emitted by the library layer", false, "no case was emitted for the CLI layer"); return; }
    ctx.sweep("cli-repetition", "a deterministic sample (every k-th case of every library-level sweep) replayed on the shipped CLI: hash typeddata / hash transaction / sign transaction / export, compared with the reference verdict and outputs recorded by the library-level run", n, |i| {
        let c = &cases[i as usize]; let case = &c["case"]; let kind = case["kind"].as_str().unwrap_or(""); let class = case["class"].as_str().unwrap_or("must-accept");
        let origin = format!("{}:{}", c["sweep"].as_str().unwrap_or("?"), c["index"]);
        ctx.sample("cli-repetition", || serde_json::json!({"kind": kind, "origin": origin, "class": class}));
        match kind {
            "typeddata" => {
                let text = case["json"].as_str().unwrap(); let via_stdin = i % 2 == 0;
                let (mut cmd, file) = if via_stdin { (Cmd::new(&["hash", "typeddata", "-"]).stdin(text.as_bytes()), None) } else { let f = scratch_file("cli-repetition", i, "td", text.as_bytes()); (Cmd::new(&["hash", "typeddata", &f]), Some(f)) };
                let mh = i % 3 == 0; if mh { cmd = cmd.arg("--message-hash"); }
                let r = cmd.run(Build::Release);
                // what must be refused must be refused in the other mode as well
                if class == "must-reject" { let other = if mh { Cmd::new(&["hash", "typeddata", "-"]).stdin(text.as_bytes()) } else { Cmd::new(&["hash", "typeddata", "-", "--message-hash"]).stdin(text.as_bytes()) }; let r2 = other.run(Build::Release);
                    if r2.ok() || !r2.stdout.is_empty() { ctx.violation(format!("{p}:cli:typeddata:must-reject:hashed"), format!("a document that must be refused is hashed on the CLI {} --message-hash ({origin}): {}", if mh { "without" } else { "with" }, trunc(&r2.line(), 80)), other.replay("cli-repetition", i, Build::Release)); } }
                if let Some(f) = file { rm(&f); }
                let shape = format!("typeddata:{class}{}", if mh { ",message-hash" } else { "" });
                if crash(ctx, p, "cli-repetition", i, &shape, &cmd, &r) { return; }
                ctx.eval(format!("{shape}:{}", if r.ok() { "hashed" } else { "refused" }));
                let replay = || { let mut v = cmd.replay("cli-repetition", i, Build::Release); v["origin"] = serde_json::json!(origin); v };
                let want = case["digests"].as_array().map(|d| format!("0x{}", d[if mh { 1 } else { 2 }].as_str().unwrap()));
                match (class, r.ok()) {
                    ("must-reject", true) => ctx.violation(format!("{p}:cli:typeddata:must-reject:hashed"), format!("a document that must be refused is hashed on the CLI ({origin}): {}", trunc(&r.line(), 80)), replay()),
                    ("must-reject", false) => if !r.stdout.is_empty() { ctx.violation(format!("{p}:cli:typeddata:must-reject:output-on-error"), "an error exit still printed something", replay()) },
                    ("must-accept", false) => ctx.violation(format!("{p}:cli:typeddata:must-accept:refused"), format!("a well-typed document is refused on the CLI ({origin}): {}", r.describe()), replay()),
                    (_, true) => if Some(r.line()) != want { ctx.violation(format!("{p}:cli:typeddata:{class}:wrong-digest"), format!("CLI printed {}, the EIP-712 {} is {:?} ({origin})", trunc(&r.line(), 80), if mh { "message hash" } else { "digest" }, want), replay()) },
                    _ => {}
                }
            }
            "transaction" => {
                let text = case["json"].as_str().unwrap(); let sign = i % 2 == 1; let allow = case["needs_allow"].as_bool().unwrap_or(false);
                let mut cmd = if sign { Cmd::new(&["sign", "--mnemonic", GANACHE, "transaction", "-"]) } else { Cmd::new(&["hash", "transaction", "-"]) }.stdin(text.as_bytes());
                if sign && (allow || class != "must-accept") { cmd = cmd.arg("--allow-missing-relay-protection"); }
                let r = cmd.run(Build::Release); let shape = format!("transaction:{class},{}", if sign { "sign" } else { "hash" });
                if crash(ctx, p, "cli-repetition", i, &shape, &cmd, &r) { return; }
                ctx.eval(format!("{shape}:{}", if r.ok() { "printed" } else { "refused" }));
                let replay = || { let mut v = cmd.replay("cli-repetition", i, Build::Release); v["origin"] = serde_json::json!(origin); v };
                let want = case[if sign { "signed_by_ganache0" } else { "unsigned_hash" }].as_str().map(|h| format!("0x{h}"));
                match (class, r.ok()) {
                    // same signature as the library-level sweep (the CLI goes through the same parser): a known finding stays one finding
                    ("must-reject", true) => ctx.violation(format!("{p}:tx:{}:accepted", case["shape"].as_str().unwrap_or("?")), format!("a malformed transaction is {} on the CLI ({origin})", if sign { "signed" } else { "hashed" }), replay()),
                    ("must-reject", false) => if !r.stdout.is_empty() { ctx.violation(format!("{p}:cli:transaction:must-reject:output-on-error"), "an error exit still printed something", replay()) },
                    ("must-accept", false) => ctx.violation(format!("{p}:cli:transaction:must-accept:refused"), format!("a well-formed transaction is refused on the CLI ({origin}): {}", r.describe()), replay()),
                    (_, true) => if Some(r.line()) != want { ctx.violation(format!("{p}:cli:transaction:{class}:wrong-output"), format!("CLI printed {}, the reference {} is {:?} ({origin})", trunc(&r.line(), 100), if sign { "signed transaction" } else { "signing digest" }, want.map(|w| trunc(&w, 100))), replay()) },
                    _ => {}
                }
            }
            "seed" => {
                let phrase = case["phrase"].as_str().unwrap(); let pass = case["passphrase"].as_str().unwrap(); let via_env = i % 2 == 1;
                if pass.contains('\0') { ctx.eval("seed:nul-in-passphrase:skipped"); return; } // cannot be passed through argv / environment
                let cmd = if via_env { Cmd::new(&["export"]).env("MNEMONIC", phrase).env("PASSWORD", pass) } else { Cmd::new(&["export", "--mnemonic", phrase, "--password", pass]) };
                let r = cmd.run(Build::Release); let shape = format!("seed:{}", if via_env { "env" } else { "flag" });
                if crash(ctx, p, "cli-repetition", i, &shape, &cmd, &r) { return; }
                ctx.eval(format!("{shape}:{}", if r.ok() { "exported" } else { "refused" }));
                let want = format!("0x{}", case["key0"].as_str().unwrap());
                if !r.ok() || r.line() != want { ctx.violation(format!("{p}:cli:seed:{}", if r.ok() { "wrong-key" } else { "refused" }), format!("`export` printed {:?}; the key of m/44'/60'/0'/0/0 under the BIP-39 seed of this phrase and passphrase is {want} ({origin})", trunc(&r.line(), 80)), cmd.replay("cli-repetition", i, Build::Release)) }
            }
            other => ctx.engine_error(format!("unknown emitted case kind {other:?}")),
        }
    });
}
/// C03 on the CLI: `export --hd-path` over all paths of depth <= 2 over 14 index symbols, and long lines of 0'
pub fn run_c03(ctx: &Ctx) {
    let curve = Curve::new(); let vals: [u32; 7] = [0, 1, 2, 44, 60, 0x01020304, 0x7fff_ffff]; let syms: Vec<u32> = vals.iter().flat_map(|v| [*v, *v | HARD]).collect();
    let mut paths: Vec<Vec<u32>> = Vec::new(); for a in &syms { paths.push(vec![*a]); for b in &syms { paths.push(vec![*a, *b]); } }
    for d in [3usize, 5, 8, 9, 12, 16, 17, 32, 33, 64, 128, 255, 256, 257, if ctx.quick() { 258 } else { 1000 }] { paths.push(vec![HARD; d]); let mut v = vec![HARD; d]; v[d / 2] = 7; paths.push(v.clone()); v[d - 1] = 0x7fff_ffff; paths.push(v); }
    ctx.sweep("cli-derivation", "`export --hd-path` (flag and HD_PATH) for every path of depth <= 2 over 7 index values x {normal, hardened} and lines of 0' of depth 3..17, 32, 33, 64, 128, 255..258 (thorough 1000) with deviations, two mnemonics", (paths.len() * 2) as u64, |i| {
        let path = &paths[i as usize / 2]; let (phrase, pass) = if i % 2 == 0 { (GANACHE, "") } else { (LONG24, "TREZOR") }; let text = path_text(path);
        let cmd = if i % 4 < 2 { Cmd::new(&["export", "--mnemonic", phrase, "--password", pass, "--hd-path", &text]) } else { Cmd::new(&["export", "--mnemonic", phrase, "--password", pass]).env("HD_PATH", &text) };
        let r = cmd.run(Build::Release); let shape = format!("depth={},last={}", path.len().min(9), if path.last().unwrap() & HARD != 0 { "hardened" } else { "normal" });
        ctx.sample("cli-derivation", || serde_json::json!({"command": trunc(&cmd.shown(), 300)}));
        if crash(ctx, "C03", "cli-derivation", i, &shape, &cmd, &r) { return; }
        ctx.eval(format!("{shape}:{}", if r.ok() { "key" } else { "refused" }));
        let want = format!("0x{}", key_of(&curve, phrase, pass, path).to_hex64());
        if !r.ok() || r.line() != want { ctx.violation(format!("C03:cli:{shape}:{}", if r.ok() { "wrong-key" } else { "refused" }), format!("`export --hd-path {text}` printed {:?}, BIP-32 CKDpriv gives {want}", trunc(&r.line(), 80)), cmd.replay("cli-derivation", i, Build::Release)) }
    });
}
/// C03 on the CLI: one selector on the command line while the OTHER one is present in the environment (an exported HD_PATH or
/// ACCOUNT_INDEX left over in the session). The combination is refused by the pinned tool; whatever an implementation makes of
/// it, a key that is printed for an explicit flag is the key of the path that flag names - never the ambient one's.
pub fn run_c03_ambient(ctx: &Ctx) {
    let curve = Curve::new(); let subs = ["export", "address", "public-key"];
    let flags: Vec<(Vec<String>, Vec<u32>)> = vec![(vec!["--account-index".into(), "1".into()], default_path(1)), (vec!["--account-index".into(), "0".into()], default_path(0)), (vec!["--account-index".into(), "7".into()], default_path(7)),
        (vec!["--hd-path".into(), "m/44'/60'/0'/0/1".into()], default_path(1)), (vec!["--hd-path".into(), "m/0".into()], vec![0]), (vec!["--hd-path".into(), "m/44'/60'/1'".into()], vec![44 | HARD, 60 | HARD, 1 | HARD])];
    let ambient: Vec<(&str, &str)> = vec![("HD_PATH", "m/44'/60'/0'/0/0"), ("HD_PATH", "m/44'/60'/0'/0/5"), ("HD_PATH", "m/1'"), ("HD_PATH", ""), ("ACCOUNT_INDEX", "0"), ("ACCOUNT_INDEX", "5"), ("ACCOUNT_INDEX", ""), ("HD_PATH+ACCOUNT_INDEX", "m/2'|3")];
    let total = (subs.len() * flags.len() * ambient.len()) as u64;
    ctx.sweep("cli-flag-selector-against-an-ambient-selector", "{export, address, public-key} x 6 explicit selectors (--account-index 0 / 1 / 7, --hd-path of depth 1 / 3 / 5) x 8 ambient settings (HD_PATH = 3 paths / empty, ACCOUNT_INDEX = 0 / 5 / empty, both): refused, or the key of the path the FLAG names", total, |i| {
        let sub = subs[i as usize % 3]; let (fl, path) = &flags[(i as usize / 3) % flags.len()]; let (var, val) = ambient[i as usize / (3 * flags.len())];
        let mut cmd = Cmd::new(&[sub, "--mnemonic", GANACHE]); for a in fl { cmd = cmd.arg(a); }
        if var == "HD_PATH+ACCOUNT_INDEX" { let (a, b) = val.split_once('|').unwrap(); cmd = cmd.env("HD_PATH", a).env("ACCOUNT_INDEX", b); } else { cmd = cmd.env(var, val); }
        let r = cmd.run(Build::Release); let shape = format!("{sub}:flag={},ambient={var}{}", &fl[0][2..], if val.is_empty() { "-empty" } else { "" });
        ctx.sample("cli-flag-selector-against-an-ambient-selector", || serde_json::json!({"command": trunc(&cmd.shown(), 300)}));
        if crash(ctx, "C03", "cli-flag-selector-against-an-ambient-selector", i, &shape, &cmd, &r) { return; }
        ctx.eval(format!("{shape}:{}", if r.ok() { "printed" } else { "refused" }));
        let key = key_of(&curve, GANACHE, "", path);
        let want = match sub { "export" => format!("0x{}", key.to_hex64()), "address" => address_text(&curve, &key), _ => pubkey_text(&curve, &key) };
        if r.ok() && r.line() != want { ctx.violation(format!("C03:cli:{sub}:flag={},ambient={var}:not-the-key-of-the-flag", &fl[0][2..]), format!("`{sub} {}` with {var}={val:?} in the environment printed {:?}; the key the flag selects gives {want}", fl.join(" "), trunc(&r.line(), 80)), cmd.replay("cli-flag-selector-against-an-ambient-selector", i, Build::Release)) }
    });
}
/// C05 on the CLI: `sign raw` over accounts x boundary digests
pub fn run_c05(ctx: &Ctx) {
    let curve = Curve::new(); let n = secp::n();
    let mut ds: Vec<(String, [u8; 32])> = vec![("0".into(), [0; 32]), ("1".into(), U256::ONE.to_be()), ("n-1".into(), n.sbb(&U256::ONE).0.to_be()), ("n".into(), n.to_be()), ("n+1".into(), n.adc(&U256::ONE).0.to_be()), ("p".into(), secp::p().to_be()), ("2^255".into(), U256([0, 0, 0, 1 << 63]).to_be()), ("max".into(), [0xff; 32])];
    for k in 0..(if ctx.quick() { 24u64 } else { 200 }) { ds.push(("filler".into(), explore::filler_bytes(ctx.seed, 0xC5 + k, 32).try_into().unwrap())); }
    let accounts = if ctx.quick() { 4u32 } else { 16 };
    ctx.sweep("cli-sign-raw", "`sign raw <digest>` for accounts 0..3 (thorough 0..15) x digests {0, 1, n-1, n, n+1, p, 2^255, 2^256-1, fillers}, with and without 0x: valid, recoverable to the account, low-s, and equal to RFC 6979 for digests below n", (ds.len() as u32 * accounts) as u64, |i| {
        let (dc, z) = &ds[i as usize % ds.len()]; let acct = (i as usize / ds.len()) as u32; let key = key_of(&curve, GANACHE, "", &default_path(acct));
        let cmd = Cmd::new(&["sign", "--mnemonic", GANACHE, "--account-index", &acct.to_string(), "raw", &format!("{}{}", if i % 2 == 0 { "0x" } else { "" }, hex(z))]);
        let r = cmd.run(Build::Release); let shape = format!("digest={dc}");
        ctx.sample("cli-sign-raw", || serde_json::json!({"command": trunc(&cmd.shown(), 300)}));
        if crash(ctx, "C05", "cli-sign-raw", i, &shape, &cmd, &r) { return; }
        let replay = cmd.replay("cli-sign-raw", i, Build::Release);
        // the spelling without 0x is not fixed by any property: it may be refused, but if it is signed the signature must be right
        if i % 2 == 1 && r.refused() && r.stdout.is_empty() { ctx.eval(format!("{shape}:bare-spelling-refused")); return; }
        match refmodel::grammar::classify_signature(&r.line()) {
            refmodel::json::Class::Accept((rr, ss, odd)) if r.ok() => { ctx.eval(format!("{shape}:parity={}", odd as u8));
                let pk = curve.mul_g(&key);
                if !curve.verify(z, &rr, &ss, &pk) || curve.recover(z, &rr, &ss, odd) != pk { ctx.violation(format!("C05:cli:{shape}:invalid-or-unrecoverable"), format!("the printed signature {} does not verify / recover to the selected account", r.line()), replay) }
                else if U256::from_be(z) < n && r.line() != sign_text(&curve, &key, z) { ctx.violation(format!("C05:cli:{shape}:not-rfc6979"), format!("printed {}, the RFC 6979 low-s signature is {}", r.line(), sign_text(&curve, &key, z)), replay) } }
            _ => { ctx.eval(format!("{shape}:no-signature")); ctx.violation(format!("C05:cli:{shape}:no-valid-signature"), format!("`sign raw` did not print a low-s signature text: {}", r.describe()), replay) }
        }
    });
}

//! C15 — sign and hash commands interoperate: sign --signature-only | hash --signature == Keccak(sign output).
use crate::acct::*;
use crate::cli::*;
use explore::{deviations, Ctx};
use refmodel::eth::{hex, unhex};
use refmodel::hash::keccak256;
use refmodel::nat::Nat;
use refmodel::secp::Curve;
use refmodel::tx::{Kind, Tx};
use refmodel::txjson::{self, Spell};

const P: &str = "C15";
fn variants(kind: Kind, with_chain: bool, d: usize) -> Vec<(String, Tx)> {
    let nums = [Nat::zero(), Nat::from_u64(0x80), Nat::pow2(64), Nat::pow2(256).sub(&Nat::from_u64(1))];
    let mut dims = vec![5usize, 5, 5, 5, 3, 4]; // nonce, price/maxfee, gas, value, to, data
    if kind != Kind::Legacy { dims.push(3); } if with_chain { dims.push(4); }
    deviations(&dims, d).into_iter().map(|c| {
        let mut t = txjson::template(kind, with_chain); let mut name = Vec::new();
        if c[0] > 0 { t.nonce = nums[c[0] - 1].clone(); name.push("nonce"); } if c[1] > 0 { t.gas_price = nums[c[1] - 1].clone(); t.max_fee = nums[c[1] - 1].clone(); name.push("price"); }
        if c[2] > 0 { t.gas = nums[c[2] - 1].clone(); name.push("gas"); } if c[3] > 0 { t.value = nums[c[3] - 1].clone(); name.push("value"); }
        if c[4] > 0 { t.to = [None, Some([0u8; 20])][c[4] - 1]; name.push("to"); } if c[5] > 0 { t.data = [vec![0u8], vec![0x80], vec![0x11; 60]][c[5] - 1].clone(); name.push("data"); }
        let mut k = 6; if kind != Kind::Legacy { if c[k] > 0 { t.access_list = [vec![([0xc1; 20], vec![])], vec![([0xc1; 20], vec![[1u8; 32], [2u8; 32]]), ([0xc2; 20], vec![[3u8; 32]])]][c[k] - 1].clone(); name.push("accessList"); } k += 1; }
        if with_chain && c[k] > 0 { t.chain_id = Some([Nat::zero(), Nat::from_u64(1), Nat::pow2(64)][c[k] - 1].clone()); name.push("chainId"); }
        (if name.is_empty() { "template".to_string() } else { name.join("+") }, t)
    }).collect()
}
pub fn run(ctx: &Ctx) {
    let curve = Curve::new(); let d = if ctx.quick() { 2 } else { 3 };
    let mut cases: Vec<(String, Tx)> = Vec::new();
    for (kind, wc, kn) in [(Kind::Legacy, false, "legacy-nochain"), (Kind::Legacy, true, "legacy-eip155"), (Kind::Eip2930, true, "eip2930"), (Kind::Eip1559, true, "eip1559")] { for (n, t) in variants(kind, wc, d) { cases.push((format!("{kn},dev={n}"), t)); } }
    // encodings of every size class: around 2^k bytes for k = 8..=17 (output buffers, chunked printing), calldata and access lists
    for (kind, wc, kn) in [(Kind::Legacy, true, "legacy-eip155"), (Kind::Eip1559, true, "eip1559")] {
        for k in 8..=17u32 { for delta in [-120i64, 0, 37] { let len = ((1i64 << k) + delta) as usize; let mut t = txjson::template(kind, wc); t.data = explore::filler_bytes(ctx.seed, 0xC15 + len as u64, len); cases.push((format!("{kn},calldata~2^{k}"), t)); } }
        if kind != Kind::Legacy { for n in [40usize, 130, 300] { let mut t = txjson::template(kind, wc); t.access_list = (0..n).map(|i| ([i as u8; 20], vec![[i as u8; 32]; i % 3])).collect(); cases.push((format!("{kn},access-list-entries={n}"), t)); } }
    }
    ctx.sweep("sign-hash-pipeline", &format!("every transaction with <= {d} deviating fields plus encodings around 2^8..2^17 bytes (calldata, access lists), 4 kinds, 2 accounts: `sign transaction --signature-only` output fed verbatim to `hash transaction --signature`, compared with Keccak-256 of what `sign transaction` prints and with the reference"), (cases.len() * 2) as u64, |i| {
        let (shape, tx) = &cases[i as usize / 2]; let acct = (i % 2) as usize; let key = key_of(&curve, GANACHE, "", &default_path(acct as u32));
        let text = txjson::tx_json(tx, Spell::Auto).to_text(); let allow = tx.chain_id.is_none();
        let mk = |extra: &[&str]| { let mut c = Cmd::new(&["sign", "--mnemonic", GANACHE, "--account-index", &acct.to_string(), "transaction", "-"]).stdin(text.as_bytes()); for e in extra { c = c.arg(e); } if allow { c = c.arg("--allow-missing-relay-protection"); } c };
        let c1 = mk(&["--signature-only"]); let r1 = c1.run(Build::Release);
        let c3 = mk(&[]); let r3 = c3.run(Build::Release);
        let sigline = r1.line();
        let c2 = Cmd::new(&["hash", "transaction", "-", "--signature", &sigline]).stdin(text.as_bytes()); let r2 = c2.run(Build::Release);
        ctx.sample("sign-hash-pipeline", || serde_json::json!({"sign": trunc(&c1.shown(), 300), "then": trunc(&c2.shown(), 200)}));
        for (c, r) in [(&c1, &r1), (&c2, &r2), (&c3, &r3)] { if r.crashed() { ctx.eval(format!("{shape}:{}", r.crash_kind())); ctx.panic_violation(format!("{P}:pipeline:{}", r.crash_kind()), format!("{}: {}", trunc(&c.shown(), 300), r.describe()), c.replay("sign-hash-pipeline", i, Build::Release)); return; } }
        ctx.eval(format!("{shape}:piped"));
        let replay = c2.replay("sign-hash-pipeline", i, Build::Release);
        if !r1.ok() || !r3.ok() { ctx.violation(format!("{P}:pipeline:sign-refused"), format!("signing a well-formed transaction failed: {} / {}", r1.describe(), r3.describe()), c1.replay("sign-hash-pipeline", i, Build::Release)); return; }
        if !r2.ok() { ctx.violation(format!("{P}:pipeline:hash-rejects-printed-signature"), format!("`hash transaction --signature` refuses the signature that `sign transaction --signature-only` printed: {}", r2.describe()), replay); return; }
        let full = match r3.line().strip_prefix("0x").and_then(unhex) { Some(b) => b, None => { ctx.violation(format!("{P}:pipeline:sign-output-not-hex"), r3.describe(), replay); return; } };
        let (rr, rs, rodd, _) = curve.sign_rfc6979(&key, &tx.signing_hash());
        let want_full = tx.signed_payload(rodd, &rr.to_nat(), &rs.to_nat());
        if full != want_full { ctx.violation(format!("{P}:pipeline:signed-transaction-differs"), "`sign transaction` output differs from the reference signed transaction", replay) }
        else if r2.line() != format!("0x{}", hex(&keccak256(&full))) { ctx.violation(format!("{P}:pipeline:hash-differs"), format!("hash --signature printed {}, Keccak-256 of the signed transaction is 0x{}", r2.line(), hex(&keccak256(&full))), replay) }
    });
}

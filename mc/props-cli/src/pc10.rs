//! C10 on the CLI: `hash message` and `sign message` (file and stdin) against the reference EIP-191 digest.
use crate::acct::*;
use crate::cli::*;
use explore::{filler_bytes, Ctx};
use refmodel::eth::{eip191_digest, hex};
use refmodel::secp::Curve;

const P: &str = "C10";
pub fn run(ctx: &Ctx) {
    let curve = Curve::new(); let key = key_of(&curve, GANACHE, "", &default_path(0));
    let mut ms: Vec<(String, Vec<u8>)> = Vec::new();
    for len in [0usize, 1, 9, 10, 11, 31, 32, 33, 99, 100, 101, 999, 1000, 1001, 9999, 10000, 10001, 65536, 100000, 1000000] { ms.push((format!("len-digits={}", len.to_string().len()), filler_bytes(ctx.seed, 0x10 + len as u64, len))); }
    for len in [1usize, 10, 32, 100] {
        ms.push(("invalid-utf8".into(), (0..len).map(|i| [0xff, 0xfe, 0xc3, 0x28][i % 4]).collect())); ms.push(("latin1".into(), (0..len).map(|i| 0xe0 + (i % 16) as u8).collect()));
        ms.push(("zeros".into(), vec![0; len])); ms.push(("utf8".into(), "h\u{e9}llo \u{1f600}".bytes().cycle().take(len).collect())); ms.push(("newlines".into(), (0..len).map(|i| if i % 3 == 0 { b'\n' } else { b'a' }).collect())); ms.push(("crlf-tail".into(), [vec![b'x'; len], b"\r\n".to_vec()].concat()));
    }
    for core in [b"hello world".as_slice(), b"\x00\x01\xfe\xff"] { for (n, m) in explore::affix_classes(core) { ms.push((format!("affix-{n}"), m)); } }
    ms.push(("starts-with-prefix".into(), b"\x19Ethereum Signed Message:\n5hello".to_vec())); ms.push(("raw-32-byte-hash".into(), refmodel::hash::keccak256(b"x").to_vec()));
    ctx.sweep("cli-messages", "`hash message` and `sign message` x {file, stdin} on messages of 20 lengths (0 .. 10^6, around every digit-count change) and content classes (invalid UTF-8, Latin-1, zeros, UTF-8, line feeds, CR LF tail, prefix look-alike, raw hash)", (ms.len() * 4) as u64, |i| {
        let (class, m) = &ms[i as usize / 4]; let sign = i % 2 == 1; let via_stdin = (i / 2) % 2 == 1;
        let d = eip191_digest(m); let want = if sign { sign_text(&curve, &key, &d) } else { format!("0x{}", hex(&d)) };
        let mut cmd = if sign { Cmd::new(&["sign", "--mnemonic", GANACHE, "message"]) } else { Cmd::new(&["hash", "message"]) };
        let mut file = None; if via_stdin { cmd = cmd.arg("-").stdin(m); } else { let f = scratch_file("cli-messages", i, "msg", m); cmd = cmd.arg(&f); file = Some(f); }
        let r = cmd.run(Build::Release); if let Some(f) = file { rm(&f); }
        let shape = format!("{}:{class}:{}", if sign { "sign" } else { "hash" }, if via_stdin { "stdin" } else { "file" });
        let replay = serde_json::json!({"sweep": "cli-messages", "index": i, "entry": "CLI", "command": trunc(&cmd.shown(), 400), "message_len": m.len(), "message_hex_prefix": hex(&m[..m.len().min(64)])});
        ctx.sample("cli-messages", || replay.clone());
        if r.crashed() { ctx.eval(format!("{shape}:{}", r.crash_kind())); ctx.panic_violation(format!("{P}:cli:{}:{class}:{}", if sign { "sign" } else { "hash" }, r.crash_kind()), r.describe(), replay); return; }
        ctx.eval(format!("{shape}:printed"));
        if !r.ok() || r.out() != format!("{want}\n") { ctx.violation(format!("{P}:cli:{}:{class}:wrong-output", if sign { "sign" } else { "hash" }), format!("printed {:?}; over the EIP-191 digest of the message bytes the result is {want}", trunc(&r.line(), 140)), replay) }
    });
}

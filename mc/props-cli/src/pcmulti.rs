//! Several documents in ONE input. The pinned tool reads exactly one JSON document and refuses anything after it; an
//! implementation that reads a stream / an array / a batch decides per input what used to be decided per document. C11: an
//! unprotected legacy transaction must not be signed without the override flag WHATEVER else the input holds. The oracle is
//! about what is printed, not about acceptance: refusing the whole input is fine, signing only the protected documents is
//! fine; printing the signature of an unprotected document (recognised by its r value, or as a decodable legacy transaction
//! with v = 27 / 28) is the violation.
use crate::acct::*;
use crate::cli::*;
use explore::Ctx;
use refmodel::eth::{hex, unhex};
use refmodel::nat::Nat;
use refmodel::rlp::{self, Item};
use refmodel::secp::Curve;
use refmodel::tx::Kind;
use refmodel::txjson::{self, Spell};

pub fn unprotected_in_a_batch(ctx: &Ctx, p: &str) {
    let curve = Curve::new(); let key = key_of(&curve, GANACHE, "", &default_path(0));
    // documents: two unprotected legacy transactions, protected ones of every kind and two chains
    let mut u1 = txjson::template(Kind::Legacy, false); u1.chain_id = None; let mut u2 = u1.clone(); u2.nonce = u2.nonce.add(&Nat::from_u64(1));
    let p1 = txjson::template(Kind::Legacy, true); let mut p5 = p1.clone(); p5.chain_id = Some(Nat::from_u64(5));
    let e = txjson::template(Kind::Eip1559, true); let a = txjson::template(Kind::Eip2930, true);
    let docs: Vec<(&str, refmodel::tx::Tx, bool)> = vec![("U", u1, true), ("U'", u2, true), ("L1", p1, false), ("L5", p5, false), ("E", e, false), ("A", a, false)];
    let texts: Vec<String> = docs.iter().map(|(_, t, _)| txjson::tx_json(t, Spell::Auto).to_text()).collect();
    // the r values of the signatures over the unprotected signing payloads: what must never be printed
    let forbidden: Vec<String> = docs.iter().filter(|d| d.2).map(|(_, t, _)| { let (r, _, _, _) = curve.sign_rfc6979(&key, &t.signing_hash()); r.to_hex64() }).collect();
    let n = docs.len(); let mut seqs: Vec<Vec<usize>> = Vec::new();
    for x in 0..n { for y in 0..n { seqs.push(vec![x, y]); for z in 0..n { seqs.push(vec![x, y, z]); } } }
    let seqs: Vec<Vec<usize>> = seqs.into_iter().filter(|s| s.iter().any(|k| docs[*k].2)).collect();
    let framings: [&str; 10] = ["newline", "blank", "glued", "comma", "crlf", "newline-and-trailing-newline", "json-array", "json-array-pretty", "object-with-transactions-member", "record-separator"];
    let total = (seqs.len() * framings.len() * 2 * 2) as u64;
    ctx.sweep("several-documents-in-one-input", "every sequence of 2 and 3 documents over {two unprotected legacy transactions, legacy on chain 1 / 5, EIP-1559, EIP-2930} that holds an unprotected one x 10 framings (newline, blank, glued, comma, CRLF, trailing newline, JSON array, pretty array, {\"transactions\": [..]}, RS-separated) x {full output, --signature-only} x {stdin, file}, no override flag: refused or not, nothing printed is the signature of an unprotected document", total, |i| {
        let mut x = i as usize; let mut take = |k: usize| { let r = x % k; x /= k; r };
        let by_file = take(2) == 1; let sig_only = take(2) == 1; let fr = framings[take(framings.len())]; let seq = &seqs[take(seqs.len())];
        let parts: Vec<&str> = seq.iter().map(|k| texts[*k].as_str()).collect();
        let input = match fr { "newline" => parts.join("\n"), "blank" => parts.join(" "), "glued" => parts.join(""), "comma" => parts.join(","), "crlf" => parts.join("\r\n"), "newline-and-trailing-newline" => format!("{}\n", parts.join("\n")),
            "json-array" => format!("[{}]", parts.join(",")), "json-array-pretty" => format!("[\n  {}\n]\n", parts.join(",\n  ")), "object-with-transactions-member" => format!("{{\"transactions\":[{}]}}", parts.join(",")), _ => parts.iter().map(|t| format!("\u{1e}{t}\n")).collect::<String>() };
        let path = if by_file { Some(scratch_file("several-documents-in-one-input", i, "txs.json", input.as_bytes())) } else { None };
        let mut cmd = Cmd::new(&["sign", "--mnemonic", GANACHE, "transaction"]); if sig_only { cmd = cmd.arg("--signature-only"); }
        cmd = match &path { Some(f) => cmd.arg(f), None => cmd.arg("-").stdin(input.as_bytes()) };
        let r = cmd.run(Build::Release); if let Some(f) = &path { rm(f); }
        let label: Vec<&str> = seq.iter().map(|k| docs[*k].0).collect();
        let pattern: String = seq.iter().map(|k| if docs[*k].2 { 'u' } else { 'p' }).collect();
        let shape = format!("batch={pattern},framing={fr},sigonly={}", sig_only as u8);
        let replay = serde_json::json!({"sweep": "several-documents-in-one-input", "index": i, "entry": "CLI", "command": trunc(&cmd.shown(), 300), "documents": label, "framing": fr, "through": if by_file { "file" } else { "stdin" }, "input_prefix": trunc(&input, 600)});
        ctx.sample("several-documents-in-one-input", || replay.clone());
        if r.crashed() { ctx.eval(format!("{shape}:{}", r.crash_kind())); ctx.panic_violation(format!("{p}:sign:several-documents:{}", r.crash_kind()), r.describe(), replay); return; }
        let out = r.out().to_lowercase();
        let unprotected_tx = out.split(|c: char| !c.is_ascii_hexdigit() && c != 'x').filter_map(|t| t.strip_prefix("0x")).filter_map(unhex).any(|b| match rlp::decode(&b) { Ok(Item::List(l)) if l.len() == 9 => rlp::as_uint(&l[6]).map_or(false, |v| v == Nat::from_u64(27) || v == Nat::from_u64(28)), _ => false });
        let leaked = forbidden.iter().any(|f| out.contains(f.as_str()));
        ctx.eval(format!("{shape}:{}", if leaked || unprotected_tx { "unprotected-signature-printed" } else if r.ok() { "accepted-without-it" } else { "refused" }));
        if leaked || unprotected_tx { ctx.violation(format!("{p}:sign:several-documents:batch={pattern},sigonly={}:unprotected-signed", sig_only as u8), format!("an input of {} documents [{}] ({fr}) without the override flag: the output holds {} ({})", seq.len(), label.join(", "), if leaked { "the signature of a legacy transaction without chain id" } else { "a legacy transaction with v = 27 / 28" }, trunc(&r.line(), 160)), replay) }
    });
    let _ = hex(&[]);
}

/// The override flag must come from the COMMAND LINE: an environment that holds variables named like the tool's options
/// (every long option in upper snake case, with and without a tool prefix) set to the usual truthy spellings does not stand
/// in for `--allow-missing-relay-protection` - an unprotected legacy transaction is still refused, in both output modes.
pub fn override_from_the_environment(ctx: &Ctx, p: &str) {
    let curve = Curve::new(); let key = key_of(&curve, GANACHE, "", &default_path(0));
    let mut u = txjson::template(Kind::Legacy, false); u.chain_id = None; let text = txjson::tx_json(&u, Spell::Auto).to_text();
    let (r0, _, _, _) = curve.sign_rfc6979(&key, &u.signing_hash()); let forbidden = r0.to_hex64();
    let names = ["ALLOW_MISSING_RELAY_PROTECTION", "ALLOW_MISSING_REPLAY_PROTECTION", "HDWALLET_ALLOW_MISSING_RELAY_PROTECTION", "HDWALLET_SIGN_ALLOW_MISSING_RELAY_PROTECTION", "allow_missing_relay_protection", "ALLOW-MISSING-RELAY-PROTECTION", "SIGNATURE_ONLY", "CHAIN_ID", "CHAINID", "HDWALLET_OPTS", "CLAP_ARGS"];
    let values = ["true", "1", "yes", "on", "TRUE", "", "--allow-missing-relay-protection", "1337"];
    ctx.sweep("override-named-in-the-environment", "an unprotected legacy transaction, no override flag, with one of 11 variables named like the tool's options (upper snake case, prefixed, lower case, dashed, CHAIN_ID, an options variable) set to one of 8 values (true, 1, yes, on, TRUE, empty, the flag itself, 1337) x {full output, --signature-only} x {flag, environment} for the mnemonic: refused, nothing signed", (names.len() * values.len() * 4) as u64, |i| {
        let mut x = i as usize; let mut take = |k: usize| { let r = x % k; x /= k; r };
        let sig_only = take(2) == 1; let mn_env = take(2) == 1; let val = values[take(values.len())]; let name = names[take(names.len())];
        let mut cmd = if mn_env { Cmd::new(&["sign", "transaction", "-"]).env("MNEMONIC", GANACHE) } else { Cmd::new(&["sign", "--mnemonic", GANACHE, "transaction", "-"]) };
        if sig_only { cmd = cmd.arg("--signature-only"); } cmd = cmd.env(name, val).stdin(text.as_bytes());
        let r = cmd.run(Build::Release); let shape = format!("override-in-env:{},sigonly={}", if name.contains("ALLOW") || name.contains("allow") { "named-like-the-flag" } else { "other-option-name" }, sig_only as u8);
        let replay = cmd.replay("override-named-in-the-environment", i, Build::Release);
        ctx.sample("override-named-in-the-environment", || serde_json::json!({"command": trunc(&cmd.shown(), 300)}));
        if r.crashed() { ctx.eval(format!("{shape}:{}", r.crash_kind())); ctx.panic_violation(format!("{p}:sign:override-in-env:{}", r.crash_kind()), r.describe(), replay); return; }
        ctx.eval(format!("{shape}:{}", if r.ok() { "signed" } else { "refused" }));
        if r.ok() || r.out().to_lowercase().contains(&forbidden) { ctx.violation(format!("{p}:sign:override-in-env:sigonly={}:unprotected-signed", sig_only as u8), format!("with {name}={val:?} in the environment and no override flag a legacy transaction without chain id was signed: {}", trunc(&r.line(), 120)), replay) }
    });
}

//! C18 — vanity search returns a phrase whose account really has the prefix (sequential / process part).
//! Which worker wins is decided by the loom harness; multi-threaded runs here are free-running smoke runs.
use crate::acct::*;
use crate::cli::*;
use crate::shim::*;
use explore::Ctx;
use refmodel::bip39;
use refmodel::eth;
use refmodel::grammar::{address_has_prefix, classify_path, classify_prefix};
use refmodel::json::Class;
use refmodel::secp::Curve;

const P: &str = "C18";
#[derive(Clone)]
struct Case { prefix: String, jobs: &'static str, sel: usize, len: usize, build: Build, smoke: bool }
const SELS: [(&str, &[&str]); 8] = [("default", &[]), ("password", &["--vanity-password", "pa\u{df} w\u{f6}rd \u{ff11}"]), ("account-index", &["--vanity-account-index", "3"]), ("hd-path", &["--vanity-hd-path", "m/0'/1"]),
    ("password+account-index", &["--vanity-password", "pa\u{df} w\u{f6}rd \u{ff11}", "--vanity-account-index", "3"]), ("password+hd-path", &["--vanity-hd-path", "m/0'/1", "--vanity-password", "pa\u{df} w\u{f6}rd \u{ff11}"]),
    // account options of the OTHER commands in the environment must not influence the search
    ("default+env-noise", &["ENV:PASSWORD=not-the-vanity-password", "ENV:ACCOUNT_INDEX=5", "ENV:HD_PATH=m/9"]), ("account-index+env-noise", &["--vanity-account-index", "3", "ENV:PASSWORD=x", "ENV:HD_PATH=m/9", "ENV:MNEMONIC=abandon abandon abandon abandon abandon abandon abandon abandon abandon abandon abandon about"])];

pub fn run(ctx: &Ctx) {
    let curve = Curve::new(); let mut cases: Vec<Case> = Vec::new();
    let digits: Vec<char> = "0123456789abcdefABCDEF".chars().collect();
    for d in &digits { for j in ["0", "1"] { cases.push(Case { prefix: format!("0x{d}"), jobs: j, sel: 0, len: 12, build: Build::Release, smoke: false }); } cases.push(Case { prefix: format!("0x{d}"), jobs: "1", sel: 0, len: 12, build: Build::Checked, smoke: false }); }
    let two: Vec<String> = if ctx.quick() { ["00", "0a", "a0", "A0", "0A", "aB", "Ab", "AB", "ff", "F9", "9f", "7E", "e7", "c0", "Dd", "1b"].iter().map(|s| s.to_string()).collect() } else { digits.iter().flat_map(|a| digits.iter().map(move |b| format!("{a}{b}"))).collect() };
    for t in &two { cases.push(Case { prefix: format!("0x{t}"), jobs: if t.as_bytes()[0] % 2 == 0 { "0" } else { "1" }, sel: 0, len: 12, build: Build::Release, smoke: false }); }
    for t in if ctx.quick() { vec!["aBc"] } else { vec!["abc", "ABC", "aBc", "0a0", "fff", "000"] } { cases.push(Case { prefix: format!("0x{t}"), jobs: "1", sel: 0, len: 12, build: Build::Release, smoke: false }); }
    for sel in 1..SELS.len() { for p in ["0x5", "0xC", "0xd4"] { for j in ["0", "1"] { cases.push(Case { prefix: p.into(), jobs: j, sel, len: 12, build: Build::Release, smoke: false }); } } }
    for p in ["0x3", "0xE", "0x4b"] { for j in ["0", "1"] { cases.push(Case { prefix: p.into(), jobs: j, sel: 0, len: 24, build: Build::Release, smoke: false }); cases.push(Case { prefix: p.into(), jobs: j, sel: 2, len: 24, build: Build::Release, smoke: false }); } }
    for len in [15usize, 18, 21] { cases.push(Case { prefix: "0xb".into(), jobs: "1", sel: 0, len, build: Build::Release, smoke: false }); }
    // free-running smoke runs (sampling of schedules; the oracle holds under every schedule)
    for p in ["0x2", "0xd"] { cases.push(Case { prefix: p.into(), jobs: "", sel: 0, len: 12, build: Build::Release, smoke: true }); } // no -j: the default worker count
    for j in ["2", "16"] { for p in ["0x1", "0xA", "0xe7", "0xB3"] { cases.push(Case { prefix: p.into(), jobs: j, sel: 0, len: 12, build: Build::Release, smoke: true }); cases.push(Case { prefix: p.into(), jobs: j, sel: 3, len: 24, build: Build::Release, smoke: true }); } }
    ctx.sweep("vanity-search", "all 22 one-digit prefixes x -j {0,1} (+ checked build), two-digit prefixes (16 in quick, all 484 case combinations in thorough), three-digit boundary prefixes, vanity password / account index / path, lengths 12..24; scripted entropy stream; multi-threaded runs are labelled smoke", cases.len() as u64, |i| {
        let c = &cases[i as usize]; let (sname, sargs) = SELS[c.sel];
        let mut cmd = Cmd::new(&["new", "-n", &c.len.to_string(), "--vanity-prefix", &c.prefix]).timeout(if c.prefix.len() > 4 { 900 } else { 300 }); if !c.jobs.is_empty() { cmd = cmd.arg("-j").arg(c.jobs); }
        for a in sargs { if let Some(kv) = a.strip_prefix("ENV:") { let (k, v) = kv.split_once('=').unwrap(); cmd = cmd.env(k, v); } else { cmd = cmd.arg(a); } }
        let (r, reqs, full) = run_shimmed(&cmd, c.build, &Mode::Stream { seed: 5000 + i, fail_at: None }, "vanity-search", i);
        let body = &c.prefix[2..]; let case_kind = if body.chars().any(|x| x.is_ascii_uppercase()) { if body.chars().any(|x| x.is_ascii_lowercase()) { "mixed-case" } else { "upper-case" } } else if body.chars().any(|x| x.is_ascii_lowercase()) { "lower-case" } else { "numeric" };
        let shape = format!("digits={},{case_kind},j={},{sname},len={}{}", body.len(), c.jobs, c.len, if c.smoke { ",smoke" } else { "" });
        let sig = format!("digits={},{case_kind},{sname}", body.len());
        let replay = full.replay("vanity-search", i, c.build);
        ctx.sample("vanity-search", || serde_json::json!({"command": trunc(&full.shown(), 300), "entropy_requests": reqs.len()}));
        if r.crashed() { ctx.eval(format!("{shape}:{}", r.crash_kind())); ctx.panic_violation(format!("{P}:vanity:{sig}:{}", r.crash_kind()), format!("{} after {} entropy requests", r.describe(), reqs.len()), replay); return; }
        ctx.eval(format!("{shape}:{}", if r.ok() { "found" } else { "refused" }));
        if !r.ok() { ctx.violation(format!("{P}:vanity:{sig}:refused"), format!("a hexadecimal prefix is refused: {}", r.describe()), replay); return; }
        let line = r.line(); let toks: Vec<&str> = line.split(' ').collect();
        let nib = match classify_prefix(&c.prefix) { Class::Accept(n) | Class::Unc(n) => n, Class::Reject => unreachable!() };
        let path = match sname { "account-index" | "password+account-index" | "account-index+env-noise" => default_path(3), "hd-path" | "password+hd-path" => match classify_path("m/0'/1") { Class::Accept(p) => p, _ => unreachable!() }, _ => default_path(0) };
        let pass = if sname.starts_with("password") { "pa\u{df} w\u{f6}rd \u{ff11}" } else { "" };
        match bip39::tokens_to_entropy(&toks) {
            Err(e) => ctx.violation(format!("{P}:vanity:{sig}:invalid-phrase"), format!("printed {:?}: {e:?}", trunc(&line, 200)), replay),
            Ok(ent) => {
                let addr = eth::address_of_secret(&curve, &key_of(&curve, &line, pass, &path));
                if toks.len() != c.len || r.out() != format!("{line}\n") { ctx.violation(format!("{P}:vanity:{sig}:wrong-length"), format!("{} words for requested length {}", toks.len(), c.len), replay) }
                else if !address_has_prefix(&addr, &nib) { ctx.violation(format!("{P}:vanity:{sig}:prefix-mismatch"), format!("the selected account of the printed phrase has address {}, which does not begin with {}", eth::eip55(&addr), c.prefix), replay) }
                else if !carried_by(&ent, &reqs) { ctx.violation(format!("{P}:vanity:{sig}:entropy-not-from-source"), "the printed phrase does not carry one of the answers of the entropy source", replay) }
            }
        }
    });
    let mut bad: Vec<String> = ["0xg", "ab", "0x ", "0x\u{e9}", "0x1g", "x1", "", "1", "0x-1", "0x1 ", " 0x1", "0x0x1", "0x1\u{ff11}", "0xG", "0x+", "0x+a", "0x+F", "0x1+", "0xa+b", "0x-a", "0x+1a"].iter().map(|s| s.to_string()).collect();
    // every printable ASCII character that is not a hex digit, in each position of one- and two-digit prefixes
    for ch in (0x20u8..0x7f).map(|b| b as char).filter(|c| !c.is_ascii_hexdigit()) { for t in [format!("0x{ch}"), format!("0x{ch}a"), format!("0xa{ch}"), format!("0x{ch}{ch}")] { if !bad.contains(&t) { bad.push(t); } } }
    let bad: Vec<&str> = bad.iter().map(|s| s.as_str()).collect();
    let open = ["0x", "0X1"];
    ctx.sweep("prefix-grammar", "non-hexadecimal prefixes must be refused: hand-picked ones and every printable non-hex ASCII character in every position of one- and two-digit prefixes (empty prefix and 0X are unconstrained), -j {0,1}", ((bad.len() + open.len()) * 2) as u64, |i| {
        let k = i as usize / 2; let j = ["0", "1"][i as usize % 2]; let (p, must_reject) = if k < bad.len() { (bad[k], true) } else { (open[k - bad.len()], false) };
        let cmd = Cmd::new(&["new", "--vanity-prefix", p, "-j", j]).timeout(60);
        let (r, _, full) = run_shimmed(&cmd, Build::Release, &Mode::Stream { seed: 9, fail_at: Some(400) }, "prefix-grammar", i);
        let shape = format!("prefix={},{}", if must_reject { "non-hex" } else { "open" }, if r.ok() { "searched" } else { "refused" });
        ctx.sample("prefix-grammar", || serde_json::json!({"command": trunc(&full.shown(), 200)}));
        ctx.eval(shape);
        if r.crashed() { ctx.panic_violation(format!("{P}:vanity:prefix-grammar:{}", r.crash_kind()), format!("prefix {p:?}: {}", r.describe()), full.replay("prefix-grammar", i, Build::Release)) }
        else if must_reject && (r.ok() || !r.stdout.is_empty()) { ctx.violation(format!("{P}:vanity:non-hex-prefix:accepted"), format!("prefix {p:?} is not hexadecimal but a search was run: {}", trunc(&r.line(), 100)), full.replay("prefix-grammar", i, Build::Release)) }
    });
    ctx.guard_check("every hex digit in both cases searched", ctx.classes_matching(|c| c.contains("upper-case") && c.ends_with(":found")) > 0 && ctx.classes_matching(|c| c.contains("lower-case") && c.ends_with(":found")) > 0 && ctx.classes_matching(|c| c.contains("mixed-case") && c.ends_with(":found")) > 0, "lower-, upper- and mixed-case prefixes all produced a phrase");
}

//! Driving the CLI under the LD_PRELOAD entropy shim (shim/entropy_shim.c) and reading its request log.
use crate::cli::*;
use explore::mix;

pub fn shim_path() -> String { std::env::var("VERIF_SHIM").unwrap_or_else(|_| "/verif/target/entropy_shim.so".into()) }
#[derive(Clone, Debug)]
pub struct Req { pub len: usize, pub entry: String, pub ok: bool, pub bytes: Vec<u8> }
#[allow(dead_code)]
pub enum Mode { Cycle { pattern: Vec<u8>, fail_at: Option<u64>, once: bool }, List(Vec<Option<Vec<u8>>>), Stream { seed: u64, fail_at: Option<u64> }, StreamFailOnce { seed: u64, fail_at: u64 } }
/// bytes the shim returns for request k of a stream
pub fn stream_bytes(seed: u64, k: u64, len: usize) -> Vec<u8> { let base = mix(seed, k); (0..len).map(|i| (mix(base, i as u64 / 8) >> (8 * (i % 8))) as u8).collect() }

pub fn run_shimmed(cmd: &Cmd, build: Build, mode: &Mode, sweep: &str, index: u64) -> (Run, Vec<Req>, Cmd) {
    let log = scratch_file(sweep, index, "elog", b"");
    let mut c = cmd.clone().env("LD_PRELOAD", &shim_path()).env("HDW_ENTROPY_LOG", &log);
    let mut script = None;
    match mode {
        Mode::List(a) => { let text: String = a.iter().map(|x| match x { Some(b) => format!("ok {}\n", explore::hex(b)), None => "fail\n".to_string() }).collect(); let f = scratch_file(sweep, index, "escript", text.as_bytes()); c = c.env("HDW_ENTROPY_MODE", &format!("list:{f}")); script = Some(f); }
        Mode::Cycle { pattern, fail_at, once } => { c = c.env("HDW_ENTROPY_MODE", &format!("cycle:{}{}", explore::hex(pattern), match fail_at { Some(k) => format!(":{k}{}", if *once { ":once" } else { "" }), None => String::new() })); }
        Mode::StreamFailOnce { seed, fail_at } => { c = c.env("HDW_ENTROPY_MODE", &format!("stream:{seed}:{fail_at}:once")); }
        Mode::Stream { seed, fail_at } => { c = c.env("HDW_ENTROPY_MODE", &match fail_at { Some(k) => format!("stream:{seed}:{k}"), None => format!("stream:{seed}") }); }
    }
    let r = c.run(build);
    let reqs = std::fs::read_to_string(&log).unwrap_or_default().lines().filter_map(|l| { let p: Vec<&str> = l.split(' ').collect(); if p.len() < 4 { return None; }
        Some(Req { len: p[1].parse().ok()?, entry: p[2].to_string(), ok: p[3] == "ok", bytes: p.get(4).and_then(|h| refmodel::eth::unhex(h)).unwrap_or_default() }) }).collect();
    rm(&log); if let Some(f) = script { rm(&f); }
    (r, reqs, c)
}

/// Data-flow oracle: every byte of `ent` is a byte the source returned, in order. Accepted shapes: a contiguous slice of
/// one answer (an implementation may fetch a block and carve candidates out of it), or a slice that runs to the end of an
/// answer followed by the beginnings of later answers (entropy gathered in several requests; requests of concurrent
/// workers may interleave in the log). Constant, repeated-from-elsewhere or derived bytes do not match.
pub fn carried_by(ent: &[u8], reqs: &[Req]) -> bool {
    // continue with prefixes of later answers
    fn cont(ent: &[u8], reqs: &[Req], from: usize, budget: &mut u32) -> bool {
        if ent.is_empty() { return true; }
        for j in from..reqs.len() {
            let b = &reqs[j].bytes; if !reqs[j].ok || b.is_empty() || b[0] != ent[0] { continue; }
            if *budget == 0 { return false; } *budget -= 1;
            if b.len() >= ent.len() { if b[..ent.len()] == ent[..] { return true; } }
            else if ent[..b.len()] == b[..] && cont(&ent[b.len()..], reqs, j + 1, budget) { return true; }
        }
        false
    }
    let mut budget = 400_000u32;
    for (j, r) in reqs.iter().enumerate() {
        if !r.ok { continue; } let b = &r.bytes;
        for o in 0..b.len() {
            if b[o] != ent[0] { continue; }
            let n = (b.len() - o).min(ent.len());
            if b[o..o + n] != ent[..n] { continue; }
            if n == ent.len() { return true; }                 // a slice inside one answer
            if cont(&ent[n..], reqs, j + 1, &mut budget) { return true; } // ran to the end of this answer, goes on in later ones
        }
    }
    ent.is_empty()
}

//! C12 — new mnemonics carry exactly the OS entropy; entropy failure is an error (CLI under the entropy shim).
use crate::acct::*;
use crate::cli::*;
use crate::shim::*;
use explore::{filler_bytes, Ctx};
use refmodel::bip39;
use refmodel::grammar::address_has_prefix;
use refmodel::secp::Curve;
use refmodel::eth;

const P: &str = "C12";
fn patterns(seed: u64) -> Vec<(&'static str, Vec<u8>)> {
    let count: Vec<u8> = (1..=64u8).collect();
    vec![("zeros", vec![0; 64]), ("ones", vec![0xff; 64]), ("counting", count.clone()), ("counting-complement", count.iter().map(|b| !b).collect()), ("filler", filler_bytes(seed, 0xC12, 64))]
}
/// data-flow oracle for one generated phrase
fn check_phrase(ctx: &Ctx, sig: &str, out: &str, len: usize, reqs: &[Req], replay: serde_json::Value) -> bool { check_phrase_p(ctx, P, sig, out, len, reqs, replay) }
fn check_phrase_p(ctx: &Ctx, p: &str, sig: &str, out: &str, len: usize, reqs: &[Req], replay: serde_json::Value) -> bool {
    let pid = p;
    let line = out.trim_end_matches('\n'); let toks: Vec<&str> = line.split(' ').collect();
    let handed = reqs.iter().filter(|r| r.ok).count();
    match bip39::tokens_to_entropy(&toks) {
        Err(e) => { ctx.violation(format!("{pid}:new:{sig}:invalid-phrase"), format!("printed {:?}, which is not a valid BIP-39 phrase: {e:?}", trunc(line, 200)), replay); false }
        Ok(ent) => {
            if toks.len() != len || out != format!("{line}\n") { ctx.violation(format!("{pid}:new:{sig}:wrong-length"), format!("{} words printed for requested length {len}", toks.len()), replay); false }
            else if !carried_by(&ent, reqs) { ctx.violation(format!("{pid}:new:{sig}:entropy-not-from-source"), format!("entropy {} of the printed phrase is not made of answers of the entropy source ({} requests answered)", eth::hex(&ent), handed), replay); false }
            else { true }
        }
    }
}
pub fn run(ctx: &Ctx) {
    let curve = Curve::new(); let pats = patterns(ctx.seed);
    ctx.sweep("length-x-pattern", "`new -n L` for L in 0..=40 x 5 byte patterns answered by the scripted source; supported lengths must print the phrase of exactly those bytes and it must parse back", (41 * pats.len()) as u64, |i| {
        let len = i as usize / pats.len(); let (pn, pb) = &pats[i as usize % pats.len()];
        let cmd = Cmd::new(&["new", "-n", &len.to_string()]);
        let (r, reqs, full) = run_shimmed(&cmd, Build::Release, &Mode::Cycle { pattern: pb.clone(), fail_at: None, once: false }, "length-x-pattern", i);
        let supported = bip39::entropy_len_for_words(len).is_some();
        let shape = format!("len={},{pn}", if supported { len.to_string() } else if len < 12 { "below-12".into() } else if len > 24 { "above-24".into() } else { "between".into() });
        let replay = full.replay("length-x-pattern", i, Build::Release);
        ctx.sample("length-x-pattern", || serde_json::json!({"command": trunc(&full.shown(), 300), "requests": reqs.iter().map(|r| format!("{} {} {}", r.entry, r.len, r.ok)).collect::<Vec<_>>()}));
        if r.crashed() { ctx.eval(format!("{shape}:{}", r.crash_kind())); ctx.panic_violation(format!("{P}:new:{shape}:{}", r.crash_kind()), r.describe(), replay); return; }
        ctx.eval(format!("{shape}:{},requests={:?}", if r.ok() { "phrase" } else { "refused" }, reqs.iter().map(|r| r.len).collect::<Vec<_>>()));
        if !supported { if r.ok() || !r.stdout.is_empty() { ctx.violation(format!("{P}:new:{shape}:generated"), format!("an unsupported length is not refused: {}", r.describe()), replay) } return; }
        if !r.ok() { ctx.violation(format!("{P}:new:{shape}:refused"), format!("a supported length is refused although the source answered: {}", r.describe()), replay); return; }
        if reqs.is_empty() { // a source the shim does not see: decide between constant output and uninterposed randomness
            let again = cmd.run(Build::Release);
            if again.stdout == r.stdout { ctx.violation(format!("{P}:new:{shape}:constant-phrase"), "no request reached the entropy source and two invocations print the same phrase", replay) } else { ctx.engine_error("the tool draws randomness from a source the shim does not interpose; C12 cannot be decided on the CLI layer") }
            return;
        }
        if check_phrase(ctx, &shape, &r.out(), len, &reqs, replay.clone()) {
            let back = Cmd::new(&["address", "--mnemonic", r.line().as_str()]).run(Build::Release);
            if !back.ok() { ctx.violation(format!("{P}:new:{shape}:does-not-parse-back"), format!("the tool rejects its own phrase: {}", back.describe()), replay) }
        }
    });
    ctx.sweep("failure-at-request-k", "`new -n L` for every L in 0..=40 with request k of the source failing (k = 0..=3, persistent and one-shot): whenever a failure was delivered, error exit and nothing printed; otherwise the phrase of the stream", 41 * 8, |i| {
        let len = i / 8; let k = (i % 8) / 2; let once = i % 2 == 1; let pat: Vec<u8> = (1..=251u8).collect();
        let cmd = Cmd::new(&["new", "-n", &len.to_string()]); let (r, reqs, full) = run_shimmed(&cmd, Build::Release, &Mode::Cycle { pattern: pat, fail_at: Some(k), once }, "failure-at-request-k", i);
        let delivered = reqs.iter().any(|q| !q.ok); let supported = bip39::entropy_len_for_words(len as usize).is_some();
        let shape = format!("len-class={},fail-at={k}{},failure-{}", if supported { "supported" } else { "unsupported" }, if once { ",once" } else { "" }, if delivered { "delivered" } else { "not-reached" });
        ctx.sample("failure-at-request-k", || serde_json::json!({"command": trunc(&full.shown(), 300), "requests": reqs.iter().map(|q| format!("{} {}", q.len, q.ok)).collect::<Vec<_>>()}));
        ctx.eval(format!("{shape}:{:?}", r.status)); let replay = full.replay("failure-at-request-k", i, Build::Release);
        if r.crashed() { ctx.panic_violation(format!("{P}:new:{shape}:{}", r.crash_kind()), r.describe(), replay) }
        else if delivered || !supported { if r.ok() || !r.stdout.is_empty() { ctx.violation(format!("{P}:new:len-class={},failure-delivered:phrase-despite-failure", if supported { "supported" } else { "unsupported" }), format!("request {k} of the entropy source failed but the tool printed {:?}", trunc(&r.line(), 120)), replay) } }
        else if !r.ok() { ctx.violation(format!("{P}:new:{shape}:refused"), format!("no failure was delivered, yet generation failed: {}", r.describe()), replay) }
        else { check_phrase(ctx, &shape, &r.out(), len as usize, &reqs, replay); }
    });
    // vanity search: failure injected at request k = 0..5, worker modes -j 0 / -j 1 / -j 2
    let jobs = ["0", "1", "2"];
    ctx.sweep("vanity-failure-injection", "vanity search for 0xfff with the source failing at request k (k = 0..=5, none of the earlier answers matches) x -j {0, 1, 2} x lengths {12, 24}: error exit, nothing printed", (6 * jobs.len() * 2) as u64, |i| {
        let k = i % 6; let j = jobs[(i / 6) as usize % jobs.len()]; let len = [12usize, 24][(i / 18) as usize]; let seed = 1000 + i;
        // guard: none of the answers before k yields an address starting with fff
        for q in 0..k { let e = stream_bytes(seed, q, len * 4 / 3); let key = key_of(&curve, &bip39::entropy_to_phrase(&e), "", &default_path(0)); if address_has_prefix(&eth::address_of_secret(&curve, &key), &[15, 15, 15]) { ctx.eval("vanity-failure:skipped-early-match"); return; } }
        let cmd = Cmd::new(&["new", "-n", &len.to_string(), "--vanity-prefix", "0xfff", "-j", j]).timeout(300);
        let (r, reqs, full) = run_shimmed(&cmd, Build::Release, &Mode::Stream { seed, fail_at: Some(k) }, "vanity-failure-injection", i);
        let shape = format!("vanity,fail-at={},j={j}", if k == 0 { "first" } else { "later" });
        ctx.sample("vanity-failure-injection", || serde_json::json!({"command": trunc(&full.shown(), 300), "requests_seen": reqs.len()}));
        ctx.eval(format!("{shape}:{:?}", r.status));
        if r.crashed() { ctx.panic_violation(format!("{P}:new:{shape}:{}", r.crash_kind()), format!("{} (requests seen: {})", r.describe(), reqs.len()), full.replay("vanity-failure-injection", i, Build::Release)) }
        else if r.ok() || !r.stdout.is_empty() {
            // legitimate only if the match was found among the answers given before the failure
            let before: Vec<Req> = reqs.iter().take_while(|q| q.ok).cloned().collect(); let line = r.line(); let toks: Vec<&str> = line.split(' ').collect();
            let early = bip39::tokens_to_entropy(&toks).ok().map_or(false, |ent| carried_by(&ent, &before) && address_has_prefix(&eth::address_of_secret(&curve, &key_of(&curve, &line, "", &default_path(0))), &[15, 15, 15]));
            if early { ctx.eval("vanity-failure:matched-before-the-failure"); } else { ctx.violation(format!("{P}:new:{shape}:phrase-despite-failure"), format!("the entropy source failed at request {k} but the tool printed {:?}", trunc(&r.line(), 120)), full.replay("vanity-failure-injection", i, Build::Release)) } }
    });
    // a single failing request while every other request succeeds: the worker that hit the failure finishes first
    // (none of the first 60 answers matches, so no other worker can have finished), and the search must end with an error
    let once: Vec<(u64, &str)> = [1u64, 2, 3, 5].iter().flat_map(|k| ["1", "2", "4"].iter().map(move |j| (*k, *j))).collect();
    ctx.sweep("vanity-one-shot-failure", "vanity search for 0xfff with ONLY request k failing (k in {1, 2, 3, 5}) x -j {1, 2, 4}; the first 60 answers do not match: error exit and nothing printed, or (several workers) the matching phrase of a generation whose own requests were all answered", once.len() as u64, |i| {
        let (k, j) = once[i as usize]; let mut seed = 4000 + i * 1000;
        'pick: loop { for q in 0..60 { let e = stream_bytes(seed, q, 16); let key = key_of(&curve, &bip39::entropy_to_phrase(&e), "", &default_path(0)); if address_has_prefix(&eth::address_of_secret(&curve, &key), &[15, 15, 15]) { seed += 1; continue 'pick; } } break; }
        let cmd = Cmd::new(&["new", "--vanity-prefix", "0xfff", "-j", j]).timeout(600);
        let (r, reqs, full) = run_shimmed(&cmd, Build::Release, &Mode::StreamFailOnce { seed, fail_at: k }, "vanity-one-shot-failure", i);
        let shape = format!("vanity,one-shot-failure,j={j}");
        ctx.sample("vanity-one-shot-failure", || serde_json::json!({"command": trunc(&full.shown(), 300), "requests_seen": reqs.len()}));
        ctx.eval(format!("{shape}:{:?}", r.status));
        if r.crashed() { ctx.panic_violation(format!("{P}:new:{shape}:{}", r.crash_kind()), r.describe(), full.replay("vanity-one-shot-failure", i, Build::Release)) }
        else if r.ok() || !r.stdout.is_empty() {
            let before: Vec<Req> = reqs.iter().take_while(|q| q.ok).cloned().collect(); let line = r.line(); let toks: Vec<&str> = line.split(' ').collect();
            let early = bip39::tokens_to_entropy(&toks).ok().map_or(false, |ent| carried_by(&ent, &before) && address_has_prefix(&eth::address_of_secret(&curve, &key_of(&curve, &line, "", &default_path(0))), &[15, 15, 15]));
            // with several workers, a worker whose own generation succeeded may legitimately deliver its matching phrase although
            // another worker's generation failed (the failure is reported to that generation, which fails); with one worker
            // a phrase after the failure would mean the failed generation was silently retried
            let by_another_worker = j != "1" && bip39::tokens_to_entropy(&toks).ok().map_or(false, |ent| carried_by(&ent, &reqs) && toks.len() == 12 && address_has_prefix(&eth::address_of_secret(&curve, &key_of(&curve, &line, "", &default_path(0))), &[15, 15, 15]));
            if early { ctx.eval("vanity-one-shot:matched-before-the-failure"); } else if by_another_worker { ctx.eval("vanity-one-shot:another-worker-matched-after-the-failure"); } else { ctx.violation(format!("{P}:new:{shape}:phrase-despite-failure"), format!("request {k} of the entropy source failed (and the printed phrase is not made of answers given before it) but the tool printed {:?} after {} requests", trunc(&r.line(), 120), reqs.len()), full.replay("vanity-one-shot-failure", i, Build::Release)) } }
    });
    let lens5 = [12usize, 15, 18, 21, 24]; let jobs3 = ["0", "1", "2"]; let rounds = if ctx.quick() { 1u64 } else { 6 };
    ctx.sweep("vanity-data-flow", "vanity search for each of the 16 single hex digits x every supported length x -j {0, 1, 2} (thorough: 6 entropy streams) under a scripted stream: every byte of the printed phrase's entropy is a byte the source returned", 16 * 5 * 3 * rounds, |i| {
        let digit = format!("0x{:x}", i % 16); let len = lens5[(i / 16 % 5) as usize]; let j = jobs3[(i / 80 % 3) as usize];
        let cmd = Cmd::new(&["new", "-n", &len.to_string(), "--vanity-prefix", &digit, "-j", j]).timeout(300);
        let (r, reqs, full) = run_shimmed(&cmd, Build::Release, &Mode::Stream { seed: 77 + i * 7919, fail_at: None }, "vanity-data-flow", i);
        let shape = format!("vanity-data-flow,j={j},len={len}"); let replay = full.replay("vanity-data-flow", i, Build::Release);
        ctx.sample("vanity-data-flow", || serde_json::json!({"command": trunc(&full.shown(), 300), "requests_seen": reqs.len()}));
        if r.crashed() { ctx.eval(format!("{shape}:{}", r.crash_kind())); ctx.panic_violation(format!("{P}:new:{shape}:{}", r.crash_kind()), r.describe(), replay); return; }
        ctx.eval(format!("{shape}:{},request-lengths={:?}", if r.ok() { "phrase" } else { "refused" }, { let mut l: Vec<usize> = reqs.iter().map(|r| r.len).collect(); l.sort(); l.dedup(); l }));
        if !r.ok() { ctx.violation(format!("{P}:new:{shape}:refused"), r.describe(), replay); return; }
        check_phrase(ctx, &shape, &r.out(), len, &reqs, replay);
    });
    // where the phrase is printed: a regular file and a pseudo-terminal instead of the pipe. On a terminal the layout is the
    // program's business (rows, columns); the words, their number and their order are not
    let outs = [StdoutTo::File, StdoutTo::Terminal];
    ctx.sweep("output-to-file-and-terminal", "`new -n L` for the five supported lengths with standard output going to a regular file and to a pseudo-terminal: exactly the L words of the entropy the source returned, in order (any white-space layout on the terminal)", (lens5.len() * outs.len()) as u64, |i| {
        let len = lens5[i as usize / outs.len()]; let to = outs[i as usize % outs.len()]; let e = len * 4 / 3; let pattern = filler_bytes(ctx.seed, 0xC12C + i, 64);
        let cmd = Cmd::new(&["new", "-n", &len.to_string()]).stdout_to(to);
        let (r, reqs, full) = run_shimmed(&cmd, Build::Release, &Mode::Cycle { pattern: pattern.clone(), fail_at: None, once: false }, "output-to-file-and-terminal", i);
        let shape = format!("new,len={len},stdout={to:?}"); let replay = full.replay("output-to-file-and-terminal", i, Build::Release);
        ctx.sample("output-to-file-and-terminal", || serde_json::json!({"command": trunc(&full.shown(), 200), "stdout_to": format!("{to:?}")}));
        if r.crashed() { ctx.eval(format!("{shape}:{}", r.crash_kind())); ctx.panic_violation(format!("{P}:new:{shape}:{}", r.crash_kind()), r.describe(), replay); return; }
        ctx.eval(format!("{shape}:{}", if r.ok() { "phrase" } else { "refused" }));
        let out = r.out(); let toks: Vec<&str> = out.split_whitespace().collect();
        // the entropy handed out, however it was requested
        let handed: Vec<u8> = reqs.iter().filter(|q| q.ok).flat_map(|q| q.bytes.clone()).collect();
        let want = if handed.len() >= e { bip39::entropy_to_phrase(&handed[..e]) } else { String::new() };
        let exact = to == StdoutTo::File;
        if !r.ok() || toks.join(" ") != want || (exact && out != format!("{want}\n")) { ctx.violation(format!("{P}:new:{shape}:wrong-phrase"), format!("printed {:?}; the phrase of the entropy the source returned is {:?}", trunc(&out, 200), trunc(&want, 200)), replay) }
    });
    // the AMBIENT environment of a real session: variables every desktop, container or CI job exports (locale and gettext
    // settings, terminal geometry, paths, home) and variables named like the tool's own options - none of them is an input of
    // `new` that the property knows, so generation must work, with the scripted entropy, whatever they hold
    let ambient: Vec<(&str, &str)> = vec![("LANGUAGE", "en_US:en"), ("LANGUAGE", "de_DE:de"), ("LANGUAGE", ""), ("LANG", "en_US.UTF-8"), ("LC_ALL", "C"), ("LC_ALL", "tr_TR.UTF-8"), ("TERM", "xterm-256color"), ("COLUMNS", "80"), ("LINES", "24"), ("HOME", "/root"), ("USER", "root"), ("SHELL", "/bin/bash"),
        ("PATH", "/usr/bin:/bin"), ("PWD", "/"), ("TMPDIR", "/tmp"), ("LENGTH", "80"), ("THREADS", "4"), ("PREFIX", "/usr/local"), ("VANITY_PREFIX", ""), ("NO_COLOR", "1"), ("RUST_LOG", "debug"), ("RUST_BACKTRACE", "1"), ("CI", "true"), ("DEBUG", "1"), ("PASSWORD", "hunter2"), ("ACCOUNT_INDEX", "3"), ("HD_PATH", "m/0"), ("MNEMONIC", "x")];
    ctx.sweep("ambient-environment", "`new -n L` (12 and 21 words) with one ambient variable of a real session set (locale / gettext, terminal, paths, home, CI flags, names like the tool's own options, the account variables of the other commands): the phrase of the scripted entropy", (ambient.len() * 2) as u64, |i| {
        let (k, v) = ambient[i as usize / 2]; let len = [12usize, 21][i as usize % 2]; let e = len * 4 / 3; let pattern = filler_bytes(ctx.seed, 0xC12D + i, 64);
        let cmd = Cmd::new(&["new", "-n", &len.to_string()]).env(k, v);
        let (r, reqs, full) = run_shimmed(&cmd, Build::Release, &Mode::Cycle { pattern, fail_at: None, once: false }, "ambient-environment", i);
        let shape = format!("new,ambient={k}"); let replay = full.replay("ambient-environment", i, Build::Release);
        ctx.sample("ambient-environment", || serde_json::json!({"command": trunc(&full.shown(), 300)}));
        if r.crashed() { ctx.eval(format!("{shape}:{}", r.crash_kind())); ctx.panic_violation(format!("{P}:new:{shape}:{}", r.crash_kind()), r.describe(), replay); return; }
        ctx.eval(format!("{shape}:{}", if r.ok() { "phrase" } else { "refused" }));
        let handed: Vec<u8> = reqs.iter().filter(|q| q.ok).flat_map(|q| q.bytes.clone()).collect();
        let want = if handed.len() >= e { bip39::entropy_to_phrase(&handed[..e]) } else { String::new() };
        if !r.ok() || r.out() != format!("{want}\n") { ctx.violation(format!("{P}:new:ambient-environment,{k}:wrong-or-refused"), format!("with {k}={v:?} in the environment `new -n {len}` gave {}; the phrase of the entropy the source returned is {:?}", r.describe(), trunc(&want, 120)), replay) }
    });
    kth_candidate(ctx, P);
}

/// shared by C12 (data flow) and C18 (length and prefix of what is printed)
pub fn kth_candidate(ctx: &Ctx, p: &str) {
    let pid = p; let curve = Curve::new(); let lens5 = [12usize, 15, 18, 21, 24];
    // the k-th candidate of a single-threaded search, for EVERY k up to a bound and every length: entropy streams and
    // one-digit prefixes are chosen with the reference so that, when candidates are carved from the stream one after
    // the other, the first candidate whose account matches is exactly the k-th (buffers refilled or carved between
    // candidates: the candidate that straddles a block boundary is reached whatever the block size up to k * bytes)
    let kmax = if ctx.quick() { 16usize } else { 40 };
    let plans: std::sync::Mutex<Vec<(usize, usize, Vec<u8>, u8)>> = std::sync::Mutex::new(Vec::new()); // (length, k, stream, digit)
    std::thread::scope(|sc| { for len in lens5 { let plans = &plans; let seed = ctx.seed; sc.spawn(move || { let curve = Curve::new(); let e = len * 4 / 3; let mut covered = vec![false; kmax + 1]; let mut s = 0u64;
        while covered[1..].iter().any(|c| !c) && s < 64 { let stream = filler_bytes(seed, 0xC12B + s * 16 + len as u64, e * (kmax + 24)); s += 1;
            let nib: Vec<u8> = (0..kmax + 24).map(|j| { let ph = bip39::entropy_to_phrase(&stream[j * e..(j + 1) * e]); eth::address_of_secret(&curve, &key_of(&curve, &ph, "", &default_path(0)))[0] >> 4 }).collect();
            for d in 0..16u8 { if let Some(j) = nib.iter().position(|n| *n == d) { let k = j + 1; if k <= kmax && !covered[k] { covered[k] = true; plans.lock().unwrap().push((len, k, stream.clone(), d)); } } } } }); } });
    let mut plans = plans.into_inner().unwrap(); plans.sort_by_key(|p| (p.0, p.1));
    ctx.sweep("vanity-kth-candidate", &format!("single-threaded vanity search (-j 0) for every supported length x every k in 1..={kmax}: a stream and a one-digit prefix for which the k-th candidate carved from the stream is the first match; data-flow oracle on the printed phrase"), plans.len() as u64, |i| {
        let (len, k, stream, d) = &plans[i as usize]; let e = len * 4 / 3;
        let cmd = Cmd::new(&["new", "-n", &len.to_string(), "--vanity-prefix", &format!("0x{d:x}"), "-j", "0"]).timeout(300);
        let (r, reqs, full) = run_shimmed(&cmd, Build::Release, &Mode::Cycle { pattern: stream.clone(), fail_at: None, once: false }, "vanity-kth-candidate", i);
        let shape = format!("vanity-kth-candidate,len={len}"); let replay = full.replay("vanity-kth-candidate", i, Build::Release);
        ctx.sample("vanity-kth-candidate", || serde_json::json!({"command": trunc(&full.shown(), 200), "k": k, "requests_seen": reqs.len()}));
        if r.crashed() { ctx.eval(format!("{shape}:{}", r.crash_kind())); ctx.panic_violation(format!("{pid}:new:{shape}:{}", r.crash_kind()), format!("k = {k}: {}", r.describe()), replay); return; }
        if !r.ok() { ctx.eval(format!("{shape}:refused")); ctx.violation(format!("{pid}:new:{shape}:refused"), format!("k = {k}: {}", r.describe()), replay); return; }
        let natural = r.line() == bip39::entropy_to_phrase(&stream[(k - 1) * e..k * e]);
        ctx.eval(format!("{shape},k={k}:{}", if natural { "the k-th candidate" } else { "another candidate" }));
        if check_phrase_p(ctx, pid, &shape, &r.out(), *len, &reqs, replay.clone()) { // and it really has the prefix
            if eth::address_of_secret(&curve, &key_of(&curve, &r.line(), "", &default_path(0)))[0] >> 4 != *d { ctx.violation(format!("{pid}:new:{shape}:prefix-not-matched"), format!("k = {k}: the printed phrase's account does not start with {d:x}"), replay); } }
    });
}

/// C17: the same searches, judged only for panics, aborts and hangs
pub fn kth_candidate_crash_only(ctx: &Ctx, p: &str) {
    let curve = Curve::new(); let lens5 = [12usize, 15, 18, 21, 24]; let kmax = if ctx.quick() { 16usize } else { 40 }; let _ = &curve;
    // streams are not chosen with the reference here (no oracle on the phrase): a two-digit prefix keeps every search going well beyond
    // kmax candidates, for -j 0 and -j 2
    let cases: Vec<(usize, &str)> = lens5.iter().flat_map(|l| ["0", "2"].iter().map(move |j| (*l, *j))).collect();
    ctx.sweep("vanity-long-search", &format!("vanity search for a two-digit prefix (about 256 candidates, far beyond {kmax}) x every supported length x -j {{0, 2}} under a scripted stream: terminates without panic, abort or hang"), cases.len() as u64, |i| {
        let (len, j) = cases[i as usize];
        let cmd = Cmd::new(&["new", "-n", &len.to_string(), "--vanity-prefix", "0xa7", "-j", j]).timeout(300);
        let (r, _reqs, full) = run_shimmed(&cmd, Build::Release, &Mode::Stream { seed: 9100 + i, fail_at: None }, "vanity-long-search", i);
        ctx.sample("vanity-long-search", || serde_json::json!({"command": trunc(&full.shown(), 200)}));
        ctx.eval(format!("vanity-long-search,len={len},j={j}:{}", if r.crashed() { r.crash_kind() } else if r.ok() { "phrase".into() } else { "refused".into() }));
        if r.crashed() { ctx.panic_violation(format!("{p}:cli:vanity-long-search,len={len},j={j}:{}", r.crash_kind()), r.describe(), full.replay("vanity-long-search", i, Build::Release)); }
    });
}

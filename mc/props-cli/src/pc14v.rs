//! C14 wherever path text is read: the vanity search takes a path too (`--vanity-hd-path`). The same grammar decides what
//! is a path there, and a path that is accepted is the path that is USED: the printed phrase's account at that path has
//! the prefix (a one-digit prefix, one worker, scripted entropy: a handful of candidates per run).
use crate::acct::*;
use crate::cli::*;
use crate::shim::*;
use explore::Ctx;
use refmodel::bip39;
use refmodel::eth;
use refmodel::grammar::{address_has_prefix, classify_path, classify_prefix};
use refmodel::json::Class;
use refmodel::secp::Curve;

pub fn run(ctx: &Ctx) {
    let curve = Curve::new();
    let texts = ["m/0", "m/0'", "m/1", "m/44'/60'/0'/0/5", "m/44'/60'/1'", "m/2147483647", "m/2147483647'/0", "m/0/0/0/0/0/0/0/1", "m/2147483648", "m/2147483648'", "m/4294967296", "m//0", "m/0/", "0/1", "m/-0", "m/x", "m/1.0", ""];
    let prefixes = ["0x5", "0xC", "0xa"];
    ctx.sweep("cli-vanity-hd-path", "`new --vanity-prefix D --vanity-hd-path P -j 1` for 3 one-digit prefixes x 18 path texts (8 canonical paths of depth 1..8 incl. index 2^31-1, 10 texts that are not paths): refused exactly when the path grammar refuses, and the printed phrase's account AT THAT PATH has the prefix", (texts.len() * prefixes.len()) as u64, |i| {
        let t = texts[i as usize / prefixes.len()]; let pre = prefixes[i as usize % prefixes.len()];
        let cmd = Cmd::new(&["new", "-n", "12", "--vanity-prefix", pre, "-j", "1", "--vanity-hd-path", t]).timeout(120);
        let (r, reqs, full) = run_shimmed(&cmd, Build::Release, &Mode::Stream { seed: 14_000 + i, fail_at: None }, "cli-vanity-hd-path", i);
        let class = classify_path(t); let shape = format!("vanity-path,ref={}", class.name()); let replay = full.replay("cli-vanity-hd-path", i, Build::Release);
        ctx.sample("cli-vanity-hd-path", || serde_json::json!({"command": trunc(&full.shown(), 300), "entropy_requests": reqs.len()}));
        if r.crashed() { ctx.eval(format!("{shape}:{}", r.crash_kind())); ctx.panic_violation(format!("C14:cli:vanity-hd-path:{}", r.crash_kind()), r.describe(), replay); return; }
        ctx.eval(format!("{shape}:{}", if r.ok() { "found" } else { "refused" }));
        let path = match class { Class::Reject => { if r.ok() || !r.stdout.is_empty() { ctx.violation("C14:cli:vanity-hd-path:not-a-path:accepted", format!("--vanity-hd-path {t:?} is not a standard path and the search printed {:?}", trunc(&r.line(), 100)), replay) } return; }
            Class::Accept(p) => { if !r.ok() { ctx.violation("C14:cli:vanity-hd-path:canonical:refused", format!("the canonical path {t} is refused: {}", r.describe()), replay); return; } p }
            Class::Unc(p) => { if !r.ok() { return; } p } };
        if path.is_empty() { return; }
        let nib = match classify_prefix(pre) { Class::Accept(n) | Class::Unc(n) => n, Class::Reject => unreachable!() };
        let line = r.line(); let toks: Vec<&str> = line.split(' ').collect();
        if bip39::tokens_to_entropy(&toks).is_err() { ctx.violation("C14:cli:vanity-hd-path:invalid-phrase", format!("printed {:?}", trunc(&line, 200)), replay); return; }
        let addr = eth::address_of_secret(&curve, &key_of(&curve, &line, "", &path));
        if !address_has_prefix(&addr, &nib) { ctx.violation("C14:cli:vanity-hd-path:another-path-used", format!("the account of the printed phrase at the given path {t} has address {}, which does not begin with {pre}: the path that was accepted is not the path that was used", eth::eip55(&addr)), replay) }
    });
}

//! C16 — every command acts on the selected account and prints the standard result.
use crate::acct::*;
use crate::cli::*;
use crate::docs::*;
use explore::{deviations, Ctx};
use refmodel::eth::{eip191_digest, hex};
use refmodel::grammar::{classify_path, HARD};
use refmodel::hash::keccak256;
use refmodel::json::Class;
use refmodel::secp::Curve;
use refmodel::txjson::{self, Spell};
use refmodel::eip712;

const P: &str = "C16";
const SUBS: [&str; 13] = ["address", "export", "public-key", "sign message", "sign transaction", "sign typeddata", "sign raw", "hash message", "hash transaction", "hash typeddata", "hash typeddata --message-hash", "hash data", "sign transaction --signature-only"];
const SELECTORS: [(&str, &str); 10] = [("default", ""), ("index", "0"), ("index", "1"), ("index", "2"), ("index", "2147483647"), ("path", "m/44'/60'/0'/0/1"), ("path", "m/0"), ("path", "m/0'/1"), ("path", "m/1/2'/3/4'/5/6'/7/2147483647'/9/10'/11"), ("index", "1000")];
const PASSES: [&str; 4] = ["", "TREZOR", "\u{e9}", "pass word"];
const MESSAGE: &[u8] = b"hello \xff\x00 world";
const RAW: [u8; 32] = [0x3c; 32];

pub fn run(ctx: &Ctx) {
    let curve = Curve::new();
    // dims: mnemonic, pass, selector, mnemonic channel, pass channel, selector channel, subcommand, input channel
    let dims = [2usize, PASSES.len(), SELECTORS.len(), 2, 2, 2, SUBS.len(), 2];
    let choices = deviations(&dims, if ctx.quick() { 3 } else { 4 });
    let mail = mail_doc(); let mail_text = mail.to_json().to_text(); let mail_d = match eip712::evaluate(&mail).0 { Class::Accept(d) => d, _ => unreachable!() };
    let tx = sample_tx(); let tx_text = txjson::tx_json(&tx, Spell::Auto).to_text();
    ctx.sweep("commands", &format!("all assignments with <= {} deviations over: 2 mnemonics, 4 passphrases, 10 account selectors, flag vs environment for each of the three, 13 subcommands, file vs stdin", if ctx.quick() { 3 } else { 4 }), choices.len() as u64, |i| {
        let c = &choices[i as usize];
        let phrase = [GANACHE, LONG24][c[0]]; let pass = PASSES[c[1]]; let (skind, sval) = SELECTORS[c[2]]; let sub = SUBS[c[6]]; let via_stdin = c[7] == 1;
        let path: Vec<u32> = match skind { "default" => default_path(0), "index" => default_path(sval.parse().unwrap()), _ => match classify_path(sval) { Class::Accept(p) => p, _ => unreachable!() } };
        let key = key_of(&curve, phrase, pass, &path);
        // argv
        let parts: Vec<&str> = sub.split(' ').collect(); let needs_account = !sub.starts_with("hash");
        let mut cmd = Cmd::new(&[parts[0]]); let mut acct: Vec<String> = Vec::new();
        if needs_account {
            if c[3] == 0 { acct.push("--mnemonic".into()); acct.push(phrase.into()); } else { cmd = cmd.env("MNEMONIC", phrase); }
            if !pass.is_empty() || c[4] == 1 { if c[4] == 0 { acct.push("--password".into()); acct.push(pass.into()); } else { cmd = cmd.env("PASSWORD", pass); } }
            match skind { "index" => if c[5] == 0 { acct.push("--account-index".into()); acct.push(sval.into()); } else { cmd = cmd.env("ACCOUNT_INDEX", sval); }, "path" => if c[5] == 0 { acct.push("--hd-path".into()); acct.push(sval.into()); } else { cmd = cmd.env("HD_PATH", sval); }, _ => {} }
        }
        for a in &acct { cmd = cmd.arg(a); }
        for p in &parts[1..] { if !p.starts_with("--") { cmd = cmd.arg(p); } }
        let input: Option<&[u8]> = match parts.get(1).copied() { Some("message") => Some(MESSAGE), Some("transaction") => Some(tx_text.as_bytes()), Some("typeddata") => Some(mail_text.as_bytes()), Some("data") => Some(MESSAGE), _ => None };
        let mut file = None;
        if let Some(data) = input { if via_stdin { cmd = cmd.arg("-").stdin(data); } else { let f = scratch_file("commands", i, "in", data); cmd = cmd.arg(&f); file = Some(f); } }
        if parts.get(1) == Some(&"raw") { cmd = cmd.arg(&format!("0x{}", hex(&RAW))); }
        for p in &parts[1..] { if p.starts_with("--") { cmd = cmd.arg(p); } }
        // reference output
        let txd = tx.signing_hash();
        let want = match sub {
            "address" => address_text(&curve, &key), "export" => format!("0x{}", key.to_hex64()), "public-key" => pubkey_text(&curve, &key),
            "sign message" => sign_text(&curve, &key, &eip191_digest(MESSAGE)), "hash message" => format!("0x{}", hex(&eip191_digest(MESSAGE))),
            "sign transaction" => { let (r, s, odd, _) = curve.sign_rfc6979(&key, &txd); format!("0x{}", hex(&tx.signed_payload(odd, &r.to_nat(), &s.to_nat()))) }
            "sign transaction --signature-only" => sign_text(&curve, &key, &txd), "hash transaction" => format!("0x{}", hex(&txd)),
            "sign typeddata" => sign_text(&curve, &key, &mail_d.digest), "hash typeddata" => format!("0x{}", hex(&mail_d.digest)), "hash typeddata --message-hash" => format!("0x{}", hex(&mail_d.message_hash)),
            "sign raw" => sign_text(&curve, &key, &RAW), "hash data" => format!("0x{}", hex(&keccak256(MESSAGE))), _ => unreachable!(),
        };
        let r = cmd.run(Build::Release); if let Some(f) = file { rm(&f); }
        let shape = format!("{sub};selector={skind}{};mn={},pw={},sel={};{}", if skind == "path" || sval == "0" || sval.is_empty() { "" } else { ">0" }, ["flag", "env"][c[3]], ["flag", "env"][c[4]], ["flag", "env"][c[5]], if input.is_some() { ["file", "stdin"][c[7]] } else { "no-input" });
        let replay = cmd.replay("commands", i, Build::Release);
        ctx.sample("commands", || serde_json::json!({"command": trunc(&cmd.shown(), 400), "expected": trunc(&want, 140)}));
        if r.crashed() { ctx.eval(format!("{shape}:{}", r.crash_kind())); ctx.panic_violation(format!("{P}:{sub}:{}", r.crash_kind()), format!("{}: {}", cmd.shown(), r.describe()), replay); return; }
        ctx.eval(format!("{shape}:{}", if r.ok() { "printed" } else { "refused" }));
        if !r.ok() { ctx.violation(format!("{P}:{sub}:selector={skind},channels={}{}{}:refused", c[3], c[4], c[5]), format!("a valid invocation is refused: {}", r.describe()), replay) }
        else if r.out() != format!("{want}\n") { ctx.violation(format!("{P}:{sub}:selector={skind},channels={}{}{}:wrong-output", c[3], c[4], c[5]), format!("printed {:?}, the standard result for the selected account is {:?}", trunc(&r.line(), 150), trunc(&want, 150)), replay) }
    });
    // the two account selectors cannot be combined
    let subs_acct = ["address", "export", "public-key", "sign"];
    let conflict_idx = ["1", "0", "2147483647"];
    ctx.sweep("selector-conflict", "both account selectors at once in the four flag/environment combinations x 4 account commands x index {1, 0, 2^31-1}: must be refused", 48, |i| {
        let orig = i; let cidx = conflict_idx[(i / 16) as usize]; let i = i % 16;
        let sub = subs_acct[(i / 4) as usize]; let (ie, pe) = (i % 2 == 1, (i / 2) % 2 == 1);
        let mut cmd = Cmd::new(&[sub, "--mnemonic", GANACHE]);
        if ie { cmd = cmd.env("ACCOUNT_INDEX", cidx); } else { cmd = cmd.arg("--account-index").arg(cidx); }
        if pe { cmd = cmd.env("HD_PATH", "m/0"); } else { cmd = cmd.arg("--hd-path").arg("m/0"); }
        if sub == "sign" { cmd = cmd.arg("raw").arg(&format!("0x{}", hex(&RAW))); }
        let r = cmd.run(Build::Release); let shape = format!("conflict:{sub},index={}{},path={}", ["flag", "env"][ie as usize], if cidx == "0" { "(=0)" } else { "" }, ["flag", "env"][pe as usize]);
        ctx.sample("selector-conflict", || serde_json::json!({"command": trunc(&cmd.shown(), 300)}));
        ctx.eval(format!("{shape}:{:?}", r.status));
        if r.crashed() { ctx.panic_violation(format!("{P}:{sub}:conflict:{}", r.crash_kind()), r.describe(), cmd.replay("selector-conflict", orig, Build::Release)) }
        else if r.ok() || !r.stdout.is_empty() { ctx.violation(format!("{P}:{sub}:conflict:accepted"), format!("--account-index and --hd-path were combined and the command printed {:?}", trunc(&r.line(), 100)), cmd.replay("selector-conflict", orig, Build::Release)) }
    });
    // both selectors as flags in every placement around the nested `sign` subcommand (before / after / one on each side)
    let nested = ["raw", "message", "typeddata", "transaction"];
    ctx.sweep("selector-conflict-placement", "both account selectors as flags, placed before and / or after the nested subcommand of `sign` (4 subcommands x 6 placements x index {1, 0}): never a signature", (nested.len() * 6 * 2) as u64, |i| {
        let sub = nested[i as usize % nested.len()]; let placement = (i as usize / nested.len()) % 6; let idx = ["1", "0"][i as usize / nested.len() / 6];
        let (a, b): (Vec<&str>, Vec<&str>) = (vec!["--account-index", idx], vec!["--hd-path", "m/44'/60'/0'/0/2"]);
        let (mut before, mut after): (Vec<&str>, Vec<&str>) = (vec![], vec![]);
        match placement { 0 => { before.extend(&a); before.extend(&b) } 1 => { before.extend(&b); before.extend(&a) } 2 => { before.extend(&a); after.extend(&b) } 3 => { before.extend(&b); after.extend(&a) } 4 => { after.extend(&a); after.extend(&b) } _ => { after.extend(&b); after.extend(&a) } }
        let mut cmd = Cmd::new(&["sign", "--mnemonic", GANACHE]); for x in &before { cmd = cmd.arg(x); } cmd = cmd.arg(sub);
        let input: Option<&[u8]> = match sub { "message" => Some(MESSAGE), "typeddata" => Some(mail_text.as_bytes()), "transaction" => Some(tx_text.as_bytes()), _ => None };
        match input { Some(d) => { cmd = cmd.arg("-").stdin(d); } None => { cmd = cmd.arg(&format!("0x{}", hex(&RAW))); } }
        for x in &after { cmd = cmd.arg(x); }
        let r = cmd.run(Build::Release);
        ctx.sample("selector-conflict-placement", || serde_json::json!({"command": trunc(&cmd.shown(), 300)}));
        ctx.eval(format!("conflict-placement:{placement}:{:?}", r.status));
        if r.crashed() { ctx.panic_violation(format!("{P}:sign:conflict-placement:{}", r.crash_kind()), r.describe(), cmd.replay("selector-conflict-placement", i, Build::Release)) }
        else if r.ok() || !r.stdout.is_empty() { ctx.violation(format!("{P}:sign:conflict-placement:accepted"), format!("--account-index and --hd-path were combined (placement {placement}) and `sign {sub}` printed {:?}", trunc(&r.line(), 100)), cmd.replay("selector-conflict-placement", i, Build::Release)) }
    });
    // commands that take no account must not look at account options in the environment (not even to validate them)
    let noise: [&[(&str, &str)]; 4] = [&[("MNEMONIC", "not a mnemonic")], &[("ACCOUNT_INDEX", "x"), ("HD_PATH", "nonsense")], &[("PASSWORD", "\u{e9}"), ("MNEMONIC", GANACHE), ("ACCOUNT_INDEX", "7")], &[("HD_PATH", "m/0"), ("ACCOUNT_INDEX", "1")]];
    let hash_subs = ["hash message", "hash transaction", "hash typeddata", "hash typeddata --message-hash", "hash data", "hex encode"];
    ctx.sweep("environment-noise", "hash message / transaction / typeddata / data and hex encode with (valid, invalid and conflicting) account options in the environment: same output as without", (noise.len() * hash_subs.len()) as u64, |i| {
        let envs = noise[i as usize % noise.len()]; let sub = hash_subs[i as usize / noise.len()]; let parts: Vec<&str> = sub.split(' ').collect();
        let input: &[u8] = match parts[1] { "transaction" => tx_text.as_bytes(), "typeddata" => mail_text.as_bytes(), _ => MESSAGE };
        let mut cmd = Cmd::new(&[parts[0], parts[1], "-"]).stdin(input); for p in &parts[2..] { cmd = cmd.arg(p); } for (k, v) in envs { cmd = cmd.env(k, v); }
        let want = match sub { "hash message" => format!("0x{}", hex(&eip191_digest(MESSAGE))), "hash transaction" => format!("0x{}", hex(&tx.signing_hash())), "hash typeddata" => format!("0x{}", hex(&mail_d.digest)), "hash typeddata --message-hash" => format!("0x{}", hex(&mail_d.message_hash)), "hash data" => format!("0x{}", hex(&keccak256(MESSAGE))), _ => format!("0x{}", hex(MESSAGE)) };
        let r = cmd.run(Build::Release);
        ctx.sample("environment-noise", || serde_json::json!({"command": trunc(&cmd.shown(), 300)}));
        ctx.eval(format!("env-noise:{sub}:{}", if r.ok() { "printed" } else { "refused" }));
        if r.crashed() { ctx.panic_violation(format!("{P}:{sub}:env-noise:{}", r.crash_kind()), r.describe(), cmd.replay("environment-noise", i, Build::Release)) }
        else if r.out() != format!("{want}\n") { ctx.violation(format!("{P}:{sub}:env-noise:wrong-output"), format!("with account options in the environment the command printed {:?} ({}), expected {want}", trunc(&r.line(), 100), trunc(&r.stderr, 120)), cmd.replay("environment-noise", i, Build::Release)) }
    });
    // `hash data` is Keccak-256 of the input bytes as they are: content classes with prefixes / suffixes text-oriented code treats specially
    let hd: Vec<(String, Vec<u8>)> = [b"hello".as_slice(), b"\x00\x01\xfe\xff"].iter().flat_map(|c| explore::affix_classes(c)).collect();
    ctx.sweep("hash-data-content", "`hash data` (file and stdin) on inputs with byte order marks, 0x, white space, NUL, line ends and other lead-ins / tails around a core", (hd.len() * 2) as u64, |i| {
        let (class, data) = &hd[i as usize / 2]; let via_stdin = i % 2 == 1;
        let (cmd, file) = if via_stdin { (Cmd::new(&["hash", "data", "-"]).stdin(data), None) } else { let f = scratch_file("hash-data-content", i, "bin", data); (Cmd::new(&["hash", "data", &f]), Some(f)) };
        let r = cmd.run(Build::Release); if let Some(f) = file { rm(&f); }
        ctx.sample("hash-data-content", || serde_json::json!({"class": class, "input_hex": hex(data)}));
        ctx.eval(format!("hash-data:{class}:{}", if r.ok() { "printed" } else { "refused" }));
        let want = format!("0x{}", hex(&keccak256(data)));
        if r.crashed() { ctx.panic_violation(format!("{P}:hash data:{}", r.crash_kind()), r.describe(), cmd.replay("hash-data-content", i, Build::Release)) }
        else if r.out() != format!("{want}\n") { ctx.violation(format!("{P}:hash data:{class}:wrong-output"), format!("printed {:?}, Keccak-256 of the {} input bytes is {want}", trunc(&r.line(), 80), data.len()), cmd.replay("hash-data-content", i, Build::Release)) }
    });
    // accounts whose key / public key / address begin with zero nibbles or zero bytes (found with the reference):
    // a printer that drops leading zeros is only visible there
    let mut special: Vec<(u32, &str)> = Vec::new(); let mut have = [false; 6];
    for idx in 0..4000u32 { let k = key_of(&curve, GANACHE, "", &default_path(idx)); let kb = k.to_be(); let pk = curve.mul_g(&k).unwrap(); let ad = refmodel::eth::address_of_point(&pk); let xb = pk.0.to_be();
        for (slot, hit, name) in [(0, kb[0] >> 4 == 0, "key-zero-nibble"), (1, kb[0] == 0, "key-zero-byte"), (2, xb[0] >> 4 == 0, "pubkey-zero-nibble"), (3, xb[0] == 0, "pubkey-zero-byte"), (4, ad[0] >> 4 == 0, "address-zero-nibble"), (5, ad[0] == 0, "address-zero-byte")] { if hit && !have[slot] { have[slot] = true; special.push((idx, name)); } }
        if have.iter().all(|h| *h) { break; } }
    for idx in 0..48u32 { special.push((idx, "first-48-accounts")); }
    ctx.sweep("leading-zero-accounts", "account indices 0..=47 and the first indices whose key / public key x-coordinate / address starts with a zero nibble and with a zero byte: address, export, public-key, sign raw", (special.len() * 4) as u64, |i| {
        let (idx, why) = special[i as usize / 4]; let sub = ["address", "export", "public-key", "sign"][i as usize % 4]; let k = key_of(&curve, GANACHE, "", &default_path(idx));
        let mut cmd = Cmd::new(&[sub, "--mnemonic", GANACHE, "--account-index", &idx.to_string()]); if sub == "sign" { cmd = cmd.arg("raw").arg(&format!("0x{}", hex(&RAW))); }
        let want = match sub { "address" => address_text(&curve, &k), "export" => format!("0x{}", k.to_hex64()), "public-key" => pubkey_text(&curve, &k), _ => sign_text(&curve, &k, &RAW) };
        let r = cmd.run(Build::Release);
        ctx.sample("leading-zero-accounts", || serde_json::json!({"command": trunc(&cmd.shown(), 300), "why": why}));
        ctx.eval(format!("{sub}:{why}:{}", if r.ok() { "printed" } else { "refused" }));
        if r.crashed() { ctx.panic_violation(format!("{P}:{sub}:{}", r.crash_kind()), r.describe(), cmd.replay("leading-zero-accounts", i, Build::Release)) }
        else if r.out() != format!("{want}\n") { ctx.violation(format!("{P}:{sub}:{why}:wrong-output"), format!("printed {:?}, the standard result is {:?}", trunc(&r.line(), 150), trunc(&want, 150)), cmd.replay("leading-zero-accounts", i, Build::Release)) }
    });
    let _ = HARD;
}

//! Layer P: exploration of the shipped CLI (built from /repo, spawned as a process) against the reference model.
//! This binary deliberately does not link the hdwallet library.
use explore::Ctx;
mod acct;
mod cli;
mod docs;
mod pc01;
mod pc10;
mod pc11;
mod pc17;
mod phrase;
mod pc12;
mod pc18;
mod shim;
mod pc15;
mod pc16;
mod pc19;
mod pcrep;
mod pcchan;
mod pcsize;
mod pcmulti;
mod pc14v;

fn main() {
    explore::install_panic_hook();
    refmodel::trace::init_from_env();
    let args: Vec<String> = std::env::args().skip(1).collect();
    let id = args.first().cloned().unwrap_or_default();
    if args.iter().all(|a| a != "--only") { if let Err(e) = refmodel::selftest::run() { eprintln!("ENGINE-ERROR reference self-test failed: {e}"); std::process::exit(2); } }
    let mut c = Ctx::from_args(&id, "P", &args[1..]);
    // spawned commands carry their own timeouts (up to 240 s for three-digit vanity searches); the in-process watchdog sits above them
    if std::env::var("VERIF_CASE_TIMEOUT").is_err() { c.case_timeout = std::time::Duration::from_secs(1500); }
    c.at_exit = refmodel::trace::flush;
    let ctx: &'static Ctx = Box::leak(Box::new(c));
    match id.as_str() {
        "C01" => pc01::run_c01(ctx),
        "C06" => { pcrep::run_emitted(ctx, "C06"); pcsize::run(ctx, "C06") }
        "C02" | "C07" | "C08" | "C09" | "C13" | "C20" => pcrep::run_emitted(ctx, Box::leak(id.clone().into_boxed_str())),
        "C03" => { pcrep::run_c03(ctx); pcrep::run_c03_ambient(ctx) }
        "C05" => pcrep::run_c05(ctx),
        "C14" => { pc01::run_c14(ctx); pc14v::run(ctx) }
        "C10" => { pc10::run(ctx); pcchan::run(ctx, "C10") }
        "C11" => { pc11::run(ctx); pcrep::run_emitted(ctx, "C11"); pcmulti::unprotected_in_a_batch(ctx, "C11"); pcmulti::override_from_the_environment(ctx, "C11") }
        "C17" => { pc17::run(ctx); pc12::kth_candidate_crash_only(ctx, "C17"); pcmulti::unprotected_in_a_batch(ctx, "C17") }
        "C12" => pc12::run(ctx),
        "C15" => { pc15::run(ctx); pcsize::short_scalar(ctx, "C15") }
        "C16" => { pc16::run(ctx); pcchan::run(ctx, "C16") }
        "C18" => { pc18::run(ctx); pc12::kth_candidate(ctx, "C18") }
        "C19" => { pc19::run(ctx); pcchan::run(ctx, "C19") }
        _ => { eprintln!("unknown property {id}"); std::process::exit(2); }
    }
    ctx.finish_and_exit();
}

//! Exploration infrastructure shared by all checks: deterministic parallel enumeration, panic capture,
//! hang watchdog, crash localisation (announce mode), counters, observation classes, samples, violations.
//! A run produces one *part* file; the `check` driver merges parts, applies KNOWN_FINDINGS.txt and writes evidence.
use serde_json::{json, Value};
use std::cell::RefCell;
use std::collections::{BTreeMap, BTreeSet};
use std::panic::{catch_unwind, AssertUnwindSafe};
use std::sync::atomic::{AtomicBool, AtomicU64, AtomicUsize, Ordering};
use std::sync::Mutex;
use std::time::{Duration, Instant};

#[derive(Clone, Copy, PartialEq, Eq, Debug)]
pub enum Tier { Quick, Thorough }

thread_local! { static TL_CLASSES: RefCell<std::collections::HashSet<String>> = RefCell::new(Default::default()); static TL_SAMPLES: RefCell<std::collections::HashMap<String, u32>> = RefCell::new(Default::default()); static LAST_PANIC: RefCell<Option<String>> = RefCell::new(None); static SLOT: RefCell<usize> = RefCell::new(usize::MAX); }

pub fn install_panic_hook() {
    std::panic::set_hook(Box::new(|info| {
        let loc = info.location().map(|l| format!("{}:{}", l.file(), l.line())).unwrap_or_default();
        let msg = if let Some(s) = info.payload().downcast_ref::<&str>() { s.to_string() } else if let Some(s) = info.payload().downcast_ref::<String>() { s.clone() } else { "panic".into() };
        LAST_PANIC.with(|p| *p.borrow_mut() = Some(format!("{msg} @ {loc}")));
    }));
}
/// Runs subject code; a panic becomes Err(message @ location).
pub fn guard<T>(f: impl FnOnce() -> T) -> Result<T, String> {
    match catch_unwind(AssertUnwindSafe(f)) { Ok(v) => Ok(v), Err(_) => Err(LAST_PANIC.with(|p| p.borrow_mut().take()).unwrap_or_else(|| "panic".into())) }
}
/// "file.rs:line" part of a captured panic, with the directory stripped (stable across checkouts)
pub fn panic_site(msg: &str) -> String { msg.rsplit(" @ ").next().unwrap_or("").rsplit('/').next().unwrap_or("").split(':').next().unwrap_or("").to_string() }

pub struct Sweep { pub name: String, pub cases: AtomicU64, pub bound: String, pub exhaustive: AtomicBool, pub cap: Mutex<Option<String>>, pub wall_ms: AtomicU64 }

const MAX_THREADS: usize = 64;
pub struct Ctx {
    pub property: String, pub layer: String, pub tier: Tier, pub seed: u64, pub threads: usize,
    pub only: Option<(String, u64)>,
    /// replay of a violation that needs what ran before it: cases `from..=to` of one sweep, in index order, on one fresh thread
    pub window: Option<(String, u64, u64)>,
    /// C17 mode: only panics / hangs count, every other oracle is muted
    pub panic_only: bool,
    start: Instant,
    pub evaluations: AtomicU64, pub states: AtomicU64, pub transitions: AtomicU64, pub traces: AtomicU64,
    classes: Mutex<BTreeSet<String>>, samples: Mutex<BTreeMap<String, Vec<Value>>>,
    violations: Mutex<Vec<Value>>, violations_total: AtomicU64, sigs_seen: Mutex<BTreeMap<String, u64>>,
    sweeps: Mutex<Vec<std::sync::Arc<Sweep>>>, guards: Mutex<Vec<Value>>, engine_errors: Mutex<Vec<String>>, notes: Mutex<Vec<String>>,
    extra: Mutex<BTreeMap<String, Value>>,
    // watchdog / announce
    slots: Vec<(AtomicU64, AtomicU64, AtomicUsize)>, // (start millis since ctx start, or 0 = idle; index; sweep id)
    announce_dir: Option<String>, pub case_timeout: Duration,
    /// called just before the process exits (flushes the reference trace)
    pub at_exit: fn(),
    /// deterministic sample of this layer's cases, emitted for replay on the CLI layer (VERIF_CLI_CASES)
    cli_cases: Mutex<Option<std::io::BufWriter<std::fs::File>>>,
}

pub fn mix(seed: u64, a: u64) -> u64 { // splitmix64: deterministic filler values only
    let mut z = seed.wrapping_add(a.wrapping_mul(0x9E3779B97F4A7C15)).wrapping_add(0x9E3779B97F4A7C15);
    z = (z ^ (z >> 30)).wrapping_mul(0xBF58476D1CE4E5B9); z = (z ^ (z >> 27)).wrapping_mul(0x94D049BB133111EB); z ^ (z >> 31)
}
pub fn filler_bytes(seed: u64, tag: u64, len: usize) -> Vec<u8> { (0..len).map(|i| (mix(seed ^ tag.rotate_left(17), i as u64 / 8) >> (8 * (i % 8))) as u8).collect() }

impl Ctx {
    pub fn from_args(property: &str, layer: &str, args: &[String]) -> Ctx {
        let mut tier = match std::env::var("VERIF_TIER").as_deref() { Ok("thorough") => Tier::Thorough, _ => Tier::Quick };
        let mut only = None; let mut window = None; let mut i = 0;
        while i < args.len() {
            match args[i].as_str() {
                "--tier" => { tier = if args[i + 1] == "thorough" { Tier::Thorough } else { Tier::Quick }; i += 1; }
                "--window" => { let mut it = args[i + 1].rsplitn(3, ':'); let to: u64 = it.next().and_then(|x| x.parse().ok()).expect("--window sweep:from:to"); let from: u64 = it.next().and_then(|x| x.parse().ok()).expect("--window sweep:from:to"); let s = it.next().expect("--window sweep:from:to").to_string(); only = Some((s.clone(), to)); window = Some((s, from, to)); i += 1; }
                "--only" => { let (s, n) = args[i + 1].rsplit_once(':').expect("--only sweep:index"); only = Some((s.to_string(), n.parse().expect("index"))); i += 1; }
                _ => {}
            }
            i += 1;
        }
        let seed = std::env::var("VERIF_SEED").ok().and_then(|s| s.parse::<i64>().ok()).unwrap_or(0) as u64;
        let threads = std::env::var("VERIF_THREADS").ok().and_then(|s| s.parse().ok()).unwrap_or_else(|| std::thread::available_parallelism().map(|n| n.get()).unwrap_or(8)).min(MAX_THREADS).max(1);
        let emit = if layer == "L" && only.is_none() { std::env::var("VERIF_CLI_CASES").ok().and_then(|p| std::fs::File::create(p).ok()).map(std::io::BufWriter::new) } else { None };
        Ctx { property: property.into(), layer: layer.into(), tier, seed, threads, only, window, panic_only: false, start: Instant::now(),
            evaluations: AtomicU64::new(0), states: AtomicU64::new(0), transitions: AtomicU64::new(0), traces: AtomicU64::new(0),
            classes: Default::default(), samples: Default::default(), violations: Default::default(), violations_total: AtomicU64::new(0), sigs_seen: Default::default(),
            sweeps: Default::default(), guards: Default::default(), engine_errors: Default::default(), notes: Default::default(), extra: Default::default(),
            slots: (0..MAX_THREADS).map(|_| (AtomicU64::new(0), AtomicU64::new(0), AtomicUsize::new(0))).collect(),
            cli_cases: Mutex::new(emit), at_exit: || {}, announce_dir: std::env::var("VERIF_ANNOUNCE").ok(), case_timeout: Duration::from_secs(std::env::var("VERIF_CASE_TIMEOUT").ok().and_then(|s| s.parse().ok()).unwrap_or(30)) }
    }
    pub fn quick(&self) -> bool { self.tier == Tier::Quick }
    pub fn thorough(&self) -> bool { self.tier == Tier::Thorough }
    pub fn class(&self, c: impl Into<String>) {
        let c = c.into();
        let fresh = TL_CLASSES.with(|t| { let mut t = t.borrow_mut(); if t.contains(&c) { false } else { t.insert(c.clone()); true } });
        if fresh { let mut g = self.classes.lock().unwrap(); if !g.contains(&c) { g.insert(c); } }
    }
    pub fn eval(&self, class: impl Into<String>) { self.evaluations.fetch_add(1, Ordering::Relaxed); self.class(class); }
    pub fn note(&self, s: impl Into<String>) { self.notes.lock().unwrap().push(s.into()); }
    pub fn engine_error(&self, s: impl Into<String>) { let s = s.into(); let mut g = self.engine_errors.lock().unwrap(); if g.len() < 20 { eprintln!("ENGINE-ERROR {s}"); g.push(s); } }
    pub fn set_extra(&self, k: &str, v: Value) { self.extra.lock().unwrap().insert(k.into(), v); }
    pub fn guard_check(&self, name: &str, ok: bool, detail: impl Into<String>) {
        let detail = detail.into();
        self.guards.lock().unwrap().push(json!({"name": name, "ok": ok, "detail": detail}));
        if !ok && self.only.is_none() { self.engine_error(format!("vacuity guard failed: {name}: {detail}")); }
    }
    /// keep up to 3 samples per sweep (first two, then the latest replaces the third)
    pub fn sample(&self, sweep: &str, v: impl FnOnce() -> Value) {
        let tries = TL_SAMPLES.with(|t| { let mut t = t.borrow_mut(); let c = t.entry(sweep.to_string()).or_insert(0); *c += 1; *c });
        if tries > 2 { return; }
        let mut g = self.samples.lock().unwrap(); let e = g.entry(sweep.to_string()).or_default();
        if e.len() < 2 { e.push(v()); }
    }
    pub fn violation(&self, sig: impl Into<String>, what: impl Into<String>, replay: Value) { if !self.panic_only { self.record_violation(sig, what, replay) } }
    /// a panic, abort or hang: a violation of the property at hand and of C17
    pub fn panic_violation(&self, sig: impl Into<String>, what: impl Into<String>, replay: Value) { self.record_violation(sig, what, replay) }
    pub fn has_class(&self, c: &str) -> bool { self.classes.lock().unwrap().contains(c) }
    pub fn classes_matching(&self, f: impl Fn(&str) -> bool) -> usize { self.classes.lock().unwrap().iter().filter(|c| f(c)).count() }
    fn record_violation(&self, sig: impl Into<String>, what: impl Into<String>, replay: Value) {
        let sig = sig.into(); self.violations_total.fetch_add(1, Ordering::Relaxed);
        let mut seen = self.sigs_seen.lock().unwrap(); let cnt = seen.entry(sig.clone()).or_insert(0); *cnt += 1;
        if *cnt <= 2 { // keep at most two replays per signature
            let mut v = self.violations.lock().unwrap();
            if v.len() < 400 { v.push(json!({"sig": sig, "what": what.into(), "replay": replay})); }
        }
    }
    /// emits case `index` of `sweep` for the CLI layer when `index % stride == 0` (a deterministic sample)
    pub fn emit_cli(&self, sweep: &str, index: u64, stride: u64, case: impl FnOnce() -> Value) {
        if index % stride.max(1) != 0 { return; }
        let mut g = self.cli_cases.lock().unwrap();
        if let Some(w) = g.as_mut() { use std::io::Write; let _ = writeln!(w, "{}", json!({"sweep": sweep, "index": index, "case": case()})); }
    }
    pub fn violations_so_far(&self) -> u64 { self.violations_total.load(Ordering::Relaxed) }

    /// Deterministic parallel enumeration of case indices 0..n of the sweep `name`. `f(i)` must derive the
    /// case from `i` alone, so that `--only name:i` replays it in isolation.
    pub fn sweep(&self, name: &str, bound: &str, n: u64, f: impl Fn(u64) + Sync) {
        let sw = std::sync::Arc::new(Sweep { name: name.into(), cases: AtomicU64::new(0), bound: bound.into(), exhaustive: AtomicBool::new(true), cap: Mutex::new(None), wall_ms: AtomicU64::new(0) });
        let t_sweep = Instant::now();
        let sweep_id = { let mut g = self.sweeps.lock().unwrap(); g.push(sw.clone()); g.len() };
        if let Some((only_name, idx)) = &self.only {
            if let Some((_, from, to)) = &self.window {
                if only_name == name && *to < n { let (from, to) = (*from, *to); std::thread::scope(|s| { let (sw, f) = (&sw, &f); std::thread::Builder::new().stack_size(64 << 20).spawn_scoped(s, move || { for i in from..=to { self.run_one(sw, sweep_id, 0, i, f); } }).unwrap(); }); }
            } else if only_name == name && *idx < n { self.run_one(&sw, sweep_id, 0, *idx, &f); }
            return;
        }
        let next = AtomicU64::new(0); let chunk = (n / (self.threads as u64 * 64)).clamp(1, 4096);
        let done = AtomicBool::new(false);
        std::thread::scope(|s| {
            for t in 0..self.threads {
                let (next, sw, f) = (&next, &sw, &f);
                std::thread::Builder::new().stack_size(64 << 20).spawn_scoped(s, move || {
                    SLOT.with(|x| *x.borrow_mut() = t);
                    loop {
                        let lo = next.fetch_add(chunk, Ordering::Relaxed); if lo >= n { break; }
                        for i in lo..(lo + chunk).min(n) { self.run_one(sw, sweep_id, t, i, f); }
                    }
                }).unwrap();
            }
            // watchdog
            let done = &done; let sw = &sw;
            s.spawn(move || {
                while !done.load(Ordering::Relaxed) {
                    std::thread::sleep(Duration::from_millis(200));
                    let now = self.start.elapsed().as_millis() as u64;
                    for t in 0..self.threads {
                        let st = self.slots[t].0.load(Ordering::Relaxed);
                        if st != 0 && now.saturating_sub(st) > self.case_timeout.as_millis() as u64 && self.slots[t].2.load(Ordering::Relaxed) == sweep_id {
                            let idx = self.slots[t].1.load(Ordering::Relaxed);
                            self.panic_violation(format!("{}:{}:hang", self.property, sw.name), format!("case {}:{} did not terminate within {:?}", sw.name, idx, self.case_timeout), json!({"sweep": sw.name, "index": idx, "kind": "hang"}));
                            self.note(format!("watchdog: aborting run, case {}:{} hung", sw.name, idx));
                            self.finish_and_exit();
                        }
                    }
                }
            });
            // wait for workers: scope joins all; signal watchdog when workers are done
            // (workers are joined implicitly at scope end, so poll `next` instead)
            while next.load(Ordering::Relaxed) < n || (0..self.threads).any(|t| self.slots[t].0.load(Ordering::Relaxed) != 0) { std::thread::sleep(Duration::from_millis(2)); }
            done.store(true, Ordering::Relaxed);
        });
        sw.wall_ms.store(t_sweep.elapsed().as_millis() as u64, Ordering::Relaxed);
    }
    fn run_one(&self, sw: &Sweep, sweep_id: usize, t: usize, i: u64, f: &(impl Fn(u64) + Sync)) {
        self.slots[t].1.store(i, Ordering::Relaxed); self.slots[t].2.store(sweep_id, Ordering::Relaxed);
        self.slots[t].0.store(self.start.elapsed().as_millis() as u64 + 1, Ordering::Relaxed);
        if let Some(dir) = &self.announce_dir { let _ = std::fs::write(format!("{dir}/thread-{t}"), format!("{}:{}", sw.name, i)); }
        if let Err(p) = guard(|| f(i)) { self.engine_error(format!("harness panic in {}:{}: {}", sw.name, i, p)); }
        sw.cases.fetch_add(1, Ordering::Relaxed);
        self.slots[t].0.store(0, Ordering::Relaxed);
    }
    /// records a sweep that was run by another engine (explicit-state search, loom)
    pub fn register_sweep(&self, name: &str, bound: &str, cases: u64, exhaustive: bool) {
        self.sweeps.lock().unwrap().push(std::sync::Arc::new(Sweep { name: name.into(), cases: AtomicU64::new(cases), bound: bound.into(), exhaustive: AtomicBool::new(exhaustive), cap: Mutex::new(None), wall_ms: AtomicU64::new(0) }));
    }
    pub fn cap_hit(&self, sweep: &str, what: &str) {
        for s in self.sweeps.lock().unwrap().iter() { if s.name == sweep { s.exhaustive.store(false, Ordering::Relaxed); *s.cap.lock().unwrap() = Some(what.into()); } }
    }
    pub fn part_json(&self) -> Value {
        let sweeps: Vec<Value> = self.sweeps.lock().unwrap().iter().map(|s| json!({"name": s.name, "cases": s.cases.load(Ordering::Relaxed), "bound": s.bound, "exhaustive": s.exhaustive.load(Ordering::Relaxed), "cap": *s.cap.lock().unwrap(), "wall_ms": s.wall_ms.load(Ordering::Relaxed)})).collect();
        let samples: Vec<Value> = self.samples.lock().unwrap().iter().flat_map(|(k, v)| v.iter().map(move |x| json!({"sweep": k, "case": x}))).collect();
        json!({
            "property": self.property, "layer": self.layer, "tier": if self.quick() { "quick" } else { "thorough" }, "seed": self.seed, "threads": self.threads,
            "wall_s": self.start.elapsed().as_secs_f64(), "sweeps": sweeps,
            "evaluations": self.evaluations.load(Ordering::Relaxed), "states": self.states.load(Ordering::Relaxed), "transitions": self.transitions.load(Ordering::Relaxed), "traces": self.traces.load(Ordering::Relaxed),
            "classes": self.classes.lock().unwrap().iter().cloned().collect::<Vec<_>>(), "samples": samples,
            "violations": *self.violations.lock().unwrap(), "violations_total": self.violations_total.load(Ordering::Relaxed),
            "guards": *self.guards.lock().unwrap(), "engine_errors": *self.engine_errors.lock().unwrap(), "notes": *self.notes.lock().unwrap(),
            "extra": *self.extra.lock().unwrap(), "replay_only": self.only.as_ref().map(|(s, i)| format!("{s}:{i}")),
        })
    }
    /// writes the part file named by VERIF_PART (or stdout) and exits: 0 nothing found, 1 violations, 2 engine error
    pub fn finish_and_exit(&self) -> ! {
        (self.at_exit)();
        if let Some(w) = self.cli_cases.lock().unwrap().as_mut() { use std::io::Write; let _ = w.flush(); }
        let part = self.part_json();
        let text = serde_json::to_string(&part).unwrap();
        match std::env::var("VERIF_PART") { Ok(p) => std::fs::write(&p, text).expect("write part"), Err(_) => println!("{text}") }
        let code = if !self.engine_errors.lock().unwrap().is_empty() { 2 } else if self.violations_total.load(Ordering::Relaxed) > 0 { 1 } else { 0 };
        std::process::exit(code)
    }
}
pub fn hex(b: &[u8]) -> String { b.iter().map(|x| format!("{:02x}", x)).collect() }

/// All assignments over dimensions with `dims[k]` values each (0 = default) having at most `d` non-default entries,
/// ordered by number of deviations, then lexicographically: the iterative-deviation scheme applied to input shape.
pub fn deviations(dims: &[usize], d: usize) -> Vec<Vec<usize>> {
    fn rec(dims: &[usize], start: usize, left: usize, cur: &mut Vec<usize>, out: &mut Vec<Vec<usize>>) {
        if left == 0 { out.push(cur.clone()); return; }
        for k in start..dims.len() { for a in 1..dims[k] { cur[k] = a; rec(dims, k + 1, left - 1, cur, out); cur[k] = 0; } }
    }
    let mut out = Vec::new();
    for n in 0..=d.min(dims.len()) { rec(dims, 0, n, &mut vec![0; dims.len()], &mut out); }
    out
}

/// Content classes for "arbitrary bytes" inputs: a core with each of a set of prefixes / suffixes that text-oriented code
/// tends to treat specially (byte order marks, hex prefix, white space, NUL, line ends, JSON / shell lead-ins).
pub fn affix_classes(core: &[u8]) -> Vec<(String, Vec<u8>)> {
    let pre: [(&str, &[u8]); 14] = [("utf8-bom", b"\xef\xbb\xbf"), ("utf16le-bom", b"\xff\xfe"), ("utf16be-bom", b"\xfe\xff"), ("0x", b"0x"), ("space", b" "), ("newline", b"\n"), ("tab", b"\t"), ("nul", b"\0"), ("crlf", b"\r\n"), ("hash", b"#"), ("brace", b"{"), ("quote", b"\""), ("dash", b"-"), ("bom-then-space", b"\xef\xbb\xbf ")];
    let suf: [(&str, &[u8]); 8] = [("newline", b"\n"), ("crlf", b"\r\n"), ("space", b" "), ("nul", b"\0"), ("two-newlines", b"\n\n"), ("utf8-bom", b"\xef\xbb\xbf"), ("tab", b"\t"), ("ctrl-z", b"\x1a")];
    let mut v = Vec::new();
    for (n, p) in pre { v.push((format!("prefix-{n}"), [p, core].concat())); v.push((format!("only-{n}"), p.to_vec())); }
    for (n, x) in suf { v.push((format!("suffix-{n}"), [core, x].concat())); }
    v.push(("bom-both-ends".into(), [b"\xef\xbb\xbf".as_slice(), core, b"\xef\xbb\xbf"].concat())); v.push(("space-both-ends".into(), [b" ".as_slice(), core, b" "].concat()));
    v
}

/// The same JSON document with the characters of its string literals (member names and string values alike) written as
/// \uXXXX escapes: `mode` 0 escapes the first character of every literal, 1 every ASCII letter and digit, 2 only literals
/// that are values of a member called "type" or "name" (every character). A parser that borrows strings from the input
/// (zero-copy) cannot borrow an escaped one; one that compares raw bytes with keywords sees another spelling.
pub fn json_escaped(text: &str, mode: u8) -> String {
    let mut out = String::with_capacity(text.len() * 3); let cs: Vec<char> = text.chars().collect(); let mut i = 0; let mut last_key = String::new();
    while i < cs.len() {
        if cs[i] != '"' { out.push(cs[i]); i += 1; continue; }
        // a string literal: find its end
        let mut j = i + 1; let mut body = String::new(); while j < cs.len() && cs[j] != '"' { if cs[j] == '\\' && j + 1 < cs.len() { body.push(cs[j]); body.push(cs[j + 1]); j += 2; } else { body.push(cs[j]); j += 1; } }
        let mut k = j + 1; while k < cs.len() && cs[k].is_whitespace() { k += 1; } let is_key = k < cs.len() && cs[k] == ':';
        let esc_all = |b: &str| { let mut o = String::new(); let bc: Vec<char> = b.chars().collect(); let mut x = 0; while x < bc.len() { if bc[x] == '\\' && x + 1 < bc.len() { o.push(bc[x]); o.push(bc[x + 1]); x += 2; } else { if bc[x].is_ascii_alphanumeric() { o.push_str(&format!("\\u{:04x}", bc[x] as u32)); } else { o.push(bc[x]); } x += 1; } } o };
        let new_body = match mode { 0 => match body.chars().next() { Some(c) if c.is_ascii_alphanumeric() => format!("\\u{:04x}{}", c as u32, &body[c.len_utf8()..]), _ => body.clone() }, 1 => esc_all(&body),
            _ => if !is_key && (last_key == "type" || last_key == "name") { esc_all(&body) } else { body.clone() } };
        out.push('"'); out.push_str(&new_body); out.push('"'); if is_key { last_key = body.clone(); }
        i = j + 1;
    }
    out
}

//! C01 — mnemonic phrases and entropy are in exact BIP-39 correspondence.
use explore::{guard, mix, panic_site, Ctx};
use hdwallet::mnemonic::Mnemonic;
use refmodel::bip39::{self, Reject};
use refmodel::json::Class;
use serde_json::json;

const P: &str = "C01";
fn is_layout_ws(c: char) -> bool { matches!(c, ' ' | '\t' | '\n' | '\r') }

/// reference verdict for raw phrase text: canonical phrase if acceptable
pub fn classify(text: &str) -> (Class<String>, String) {
    let exotic_ws = text.chars().any(|c| c.is_whitespace() && !is_layout_ws(c));
    let tokens: Vec<&str> = text.split(|c: char| c.is_whitespace()).filter(|t| !t.is_empty()).collect();
    match bip39::tokens_to_entropy(&tokens) {
        Ok(_) => { let canon = tokens.join(" "); (if exotic_ws { Class::Unc(canon) } else { Class::Accept(canon) }, format!("words={},valid", tokens.len())) }
        Err(Reject::WordCount(n)) => {
            // is it only the count that is wrong? (known words + would-be checksum coincidence are input classes of their own)
            let known = tokens.iter().all(|t| bip39::word_index(t).is_some());
            (Class::Reject, format!("words={n}{}", if known { "" } else { ",unknown-word" }))
        }
        Err(Reject::UnknownWord(_)) => (Class::Reject, format!("words={},unknown-word", tokens.len())),
        Err(Reject::Checksum) => (Class::Reject, format!("words={},bad-checksum", tokens.len())),
    }
}

pub struct Obs { pub printed: String, pub display: String, pub len: usize, pub reparsed: Option<String>, pub fromstr_same: bool }
pub fn observe(text: &str) -> Result<Option<Obs>, String> {
    guard(|| match Mnemonic::from_phrase(text) {
        Err(_) => { assert!(text.parse::<Mnemonic>().is_err(), "from_phrase rejects but FromStr accepts"); None }
        Ok(m) => {
            let printed = m.to_phrase();
            let reparsed = Mnemonic::from_phrase(&printed).ok().map(|m2| m2.to_phrase());
            let fromstr_same = text.parse::<Mnemonic>().map(|m3| m3.to_phrase() == printed).unwrap_or(false);
            Some(Obs { display: m.to_string(), len: m.mnemonic_length(), printed, reparsed, fromstr_same })
        }
    })
}

/// one case: compare implementation and reference on `text`
pub fn check_phrase(ctx: &Ctx, sweep: &str, idx: u64, text: &str) {
    let (class, shape) = classify(text);
    let replay = || json!({"sweep": sweep, "index": idx, "entry": "Mnemonic::from_phrase", "phrase": text, "reference": format!("{:?}", class)});
    ctx.sample(sweep, || json!({"phrase": text, "reference": class.name(), "shape": shape}));
    match observe(text) {
        Err(p) => { ctx.eval(format!("{shape}:panic")); ctx.panic_violation(format!("{P}:from_phrase:{shape}:panic@{}", panic_site(&p)), format!("parsing a phrase panics: {p}"), replay()); }
        Ok(None) => { ctx.eval(format!("{shape}:rejected"));
            if let Class::Accept(_) = class { ctx.violation(format!("{P}:from_phrase:{shape}:rejected"), "a valid BIP-39 phrase is rejected", replay()); } }
        Ok(Some(o)) => { ctx.eval(format!("{shape}:accepted"));
            match &class {
                Class::Reject => ctx.violation(format!("{P}:from_phrase:{shape}:accepted"), format!("a phrase BIP-39 does not allow is accepted (printed back as '{}')", o.printed), replay()),
                Class::Accept(canon) | Class::Unc(canon) => {
                    let n = canon.split(' ').count();
                    if &o.printed != canon || &o.display != canon { ctx.violation(format!("{P}:to_phrase:{shape}:differs"), format!("printed form '{}' is not the words joined by single spaces", o.printed), replay()); }
                    else if o.len != n { ctx.violation(format!("{P}:mnemonic_length:{shape}:wrong"), format!("reported length {} for {n} words", o.len), replay()); }
                    else if o.reparsed.as_deref() != Some(canon.as_str()) { ctx.violation(format!("{P}:reparse:{shape}:differs"), "printed form does not parse back to itself", replay()); }
                    else if !o.fromstr_same { ctx.violation(format!("{P}:FromStr:{shape}:differs"), "FromStr and from_phrase disagree", replay()); }
                }
            }
        }
    }
}

/// reference comparison of one phrase as a plain verdict (used by the history sweeps)
pub fn verdict(text: &str) -> Result<&'static str, String> {
    let (class, _) = classify(text);
    match observe(text) {
        Err(p) => Err(format!("panics: {p}")),
        Ok(None) => if let Class::Accept(_) = class { Err("a valid BIP-39 phrase is rejected".into()) } else { Ok("rejected") },
        Ok(Some(o)) => match class {
            Class::Reject => Err(format!("a phrase BIP-39 does not allow is accepted (printed back as '{}')", o.printed)),
            Class::Accept(c) | Class::Unc(c) => if o.printed == c && o.display == c && o.len == c.split(' ').count() && o.reparsed.as_deref() == Some(c.as_str()) && o.fromstr_same { Ok("accepted") } else { Err(format!("printed '{}' with length {} instead of '{c}'", o.printed, o.len)) },
        },
    }
}

pub fn filler_index(seed: u64, n: usize, j: usize, round: u64) -> usize { (mix(seed ^ (round << 40), (n * 64 + j) as u64) % 2048) as usize }
/// n-word phrase of filler words whose last word is recomputed so the checksum is right
pub fn valid_indices(seed: u64, n: usize, round: u64, fix: Option<(usize, usize)>) -> Vec<usize> {
    let mut idx: Vec<usize> = (0..n).map(|j| filler_index(seed, n, j, round)).collect();
    if let Some((p, w)) = fix { idx[p] = w; }
    idx[n - 1] = bip39::complete_last(&idx[..n - 1], idx[n - 1]);
    idx
}

pub fn run(ctx: &Ctx) {
    let w = bip39::words();
    let rounds: u64 = if ctx.quick() { 1 } else { 12 };
    // S1: every word in every position of every valid length
    let lens = bip39::VALID_COUNTS; let total_pos: usize = lens.iter().sum();
    ctx.sweep("S1-word-x-position", "5 lengths x every position x all 2048 words x filler rounds; last position = all 2048 checksum candidates", rounds * (total_pos as u64) * 2048, |i| {
        let round = i / (total_pos as u64 * 2048); let r = i % (total_pos as u64 * 2048);
        let (mut pos, word) = ((r / 2048) as usize, (r % 2048) as usize);
        let mut n = 0; for l in lens { if pos < l { n = l; break; } pos -= l; }
        let idx = if pos < n - 1 { valid_indices(ctx.seed, n, round, Some((pos, word))) } else { let mut v = valid_indices(ctx.seed, n, round, None); v[n - 1] = word; v };
        check_phrase(ctx, "S1-word-x-position", i, &bip39::indices_to_phrase(&idx));
    });
    // S2: every word count 0..=40 x every final word
    ctx.sweep("S2-count-x-final-word", "word counts 0..=40 x all 2048 final words over a valid-word filler", rounds * 41 * 2048, |i| {
        let round = i / (41 * 2048); let r = i % (41 * 2048); let (n, word) = ((r / 2048) as usize, (r % 2048) as usize);
        let mut idx: Vec<usize> = (0..n).map(|j| filler_index(ctx.seed, 50 + n, j, round)).collect();
        if n > 0 { idx[n - 1] = word; }
        check_phrase(ctx, "S2-count-x-final-word", i, &bip39::indices_to_phrase(&idx));
    });
    // S3: single-bit entropies (one bit set / one bit cleared)
    let bit_cases: Vec<(usize, usize, bool)> = [16usize, 20, 24, 28, 32].iter().flat_map(|l| (0..l * 8).flat_map(move |b| [(*l, b, false), (*l, b, true)])).collect();
    ctx.sweep("S3-single-bit-entropy", "every single set bit and every single cleared bit of the five entropy sizes", bit_cases.len() as u64, |i| {
        let (l, b, inv) = bit_cases[i as usize]; let mut e = vec![if inv { 0xffu8 } else { 0 }; l]; e[b / 8] ^= 0x80 >> (b % 8);
        check_phrase(ctx, "S3-single-bit-entropy", i, &bip39::entropy_to_phrase(&e));
    });
    // S4: unknown tokens at every position of every valid length
    let bad = ["abandonx", "aban", "Abandon", "ABANDON", "\u{e1}bandon", "abandon\u{200b}", "\u{e1}baco", "zoo0", "a", "about,", "-", "0"];
    let mut s4: Vec<(usize, usize, &str)> = Vec::new(); for n in lens { for p in 0..n { for b in bad { s4.push((n, p, b)); } } }
    ctx.sweep("S4-unknown-token", "12 non-list tokens at every position of every valid length", s4.len() as u64, |i| {
        let (n, p, b) = s4[i as usize]; let idx = valid_indices(ctx.seed, n, 0, None);
        let mut toks: Vec<&str> = idx.iter().map(|k| w[*k]).collect(); toks[p] = b;
        check_phrase(ctx, "S4-unknown-token", i, &toks.join(" "));
    });
    // S4b: look-alikes of the word that is actually in place (compatibility characters that NFKD / case folding would map
    // onto it): the phrase would be valid after folding, but the token is not a word of the list
    fn lookalikes(w: &str) -> Vec<String> {
        let first = w.chars().next().unwrap(); let rest = &w[1..]; let mut v = vec![
            format!("{}{rest}", char::from_u32(0xff41 + (first as u32 - 'a' as u32)).unwrap()),                   // full-width first letter
            w.chars().map(|c| char::from_u32(0xff41 + (c as u32 - 'a' as u32)).unwrap()).collect::<String>(),      // all full-width
            format!("{}{rest}", char::from_u32(0x1d41a + (first as u32 - 'a' as u32)).unwrap()),                  // mathematical bold
            format!("{}{rest}", first.to_ascii_uppercase()), w.to_ascii_uppercase(),                              // case
            format!("{}{rest}", char::from_u32(0x24d0 + (first as u32 - 'a' as u32)).unwrap())];                  // circled letter
        if let Some(i) = w.find('s') { v.push(format!("{}\u{17f}{}", &w[..i], &w[i + 1..])); }                     // long s
        if let Some(i) = w.find("fi") { v.push(format!("{}\u{fb01}{}", &w[..i], &w[i + 2..])); }                   // fi ligature
        if let Some(i) = w.find('l') { v.push(format!("{}\u{2113}{}", &w[..i], &w[i + 1..])); }                    // script small l
        v.push(format!("{w}\u{ad}")); v.push(format!("{w}\u{200d}")); v.push(format!("\u{feff}{w}"));            // soft hyphen, ZWJ, BOM glued to the word
        v
    }
    let mut s4b: Vec<(usize, usize, usize)> = Vec::new(); for n in lens { for p in 0..n { for k in 0..12 { s4b.push((n, p, k)); } } }
    ctx.sweep("S4b-lookalike-of-the-word-in-place", "at every position of every valid length, the word in place replaced by one of up to 12 look-alikes (full-width, mathematical, circled, upper case, long s, fi ligature, script l, glued soft hyphen / ZWJ / BOM): must be rejected", s4b.len() as u64, |i| {
        let (n, p, k) = s4b[i as usize]; let idx = valid_indices(ctx.seed, n, 0, None);
        let la = lookalikes(w[idx[p]]); if k >= la.len() { return; }
        let toks: Vec<String> = idx.iter().enumerate().map(|(j, x)| if j == p { la[k].clone() } else { w[*x].to_string() }).collect();
        check_phrase(ctx, "S4b-lookalike-of-the-word-in-place", i, &toks.join(" "));
    });
    // S4c: edits of the word in place, for ALL 2048 words (so every word length 3..8 and every shared prefix occurs): a
    // suffix or prefix glued on, the 4-letter abbreviation other wallets accept, the last letter dropped or doubled, the
    // word twice without a space, an inner letter swapped. The phrase is valid with the unedited word; the edited token is
    // (with few exceptions the reference knows) not a list word
    fn edits(w: &str) -> Vec<String> {
        let mut v = vec![format!("{w}s"), format!("{w}x"), format!("x{w}"), w[..w.len() - 1].to_string(), format!("{w}{}", &w[w.len() - 1..]), format!("{w}{w}"), format!("{w}-"), format!("{w}.")];
        if w.len() > 4 { v.push(w[..4].to_string()); }
        let b = w.as_bytes(); let mut sw = b.to_vec(); sw.swap(1, 2); v.push(String::from_utf8(sw).unwrap());
        v
    }
    ctx.sweep("S4c-edit-of-the-word-in-place", "for each of the 2048 words at position 0 of a valid 12-word phrase (and at the last position of a valid 24-word phrase): the word with a glued suffix s / x / - / ., a glued prefix, without its last letter, with it doubled, written twice, abbreviated to 4 letters, with two letters swapped", 2048 * 10 * 2, |i| {
        let (wi, k, long) = ((i / 20) as usize, (i % 10) as usize, (i / 10) % 2 == 1);
        let idx = if long { let mut x = valid_indices(ctx.seed, 24, 3, None); // the last word carries the checksum: choose the first 23 so that word wi is the valid last word if possible
                x[23] = wi; let fixed = bip39::complete_last(&x[..23], wi); if fixed != wi { return; } x } else { valid_indices(ctx.seed, 12, 3, Some((0, wi))) };
        let p = if long { 23 } else { 0 };
        let e = edits(w[idx[p]]); if k >= e.len() || e[k].is_empty() { return; }
        let toks: Vec<String> = idx.iter().enumerate().map(|(j, x)| if j == p { e[k].clone() } else { w[*x].to_string() }).collect();
        check_phrase(ctx, "S4c-edit-of-the-word-in-place", i, &toks.join(" "));
    });
    // S4d: the whole value wrapped the way env files, shells and copy-paste leave it: quotes of every kind, brackets, a
    // trailing comma or semicolon, a shell comment - glued to the first / last word these are tokens that are not list words
    let wraps: [(&str, &str); 14] = [("\"", "\""), ("'", "'"), ("`", "`"), ("\u{201c}", "\u{201d}"), ("\u{2018}", "\u{2019}"), ("(", ")"), ("[", "]"), ("<", ">"), ("", ","), ("", ";"), ("", "."), ("MNEMONIC=", ""), ("\"", ""), ("", "'")];
    ctx.sweep("S4d-wrapped-value", "a valid phrase of every length wrapped in 14 ways (double / single / back / typographic quotes, brackets, trailing , ; ., an assignment prefix, an unmatched quote), glued and blank-separated: glued it is not made of list words and is rejected; separated by blanks the wrapper is a token of its own and is rejected too", (lens.len() * wraps.len() * 2) as u64, |i| {
        let n = lens[(i / (wraps.len() as u64 * 2)) as usize]; let (a, b) = wraps[((i / 2) % wraps.len() as u64) as usize]; let spaced = i % 2 == 1;
        let idx = valid_indices(ctx.seed, n, 4, None); let body: Vec<&str> = idx.iter().map(|k| w[*k]).collect();
        let text = if spaced { format!("{a} {} {b}", body.join(" ")) } else { format!("{a}{}{b}", body.join(" ")) };
        check_phrase(ctx, "S4d-wrapped-value", i, text.trim());
    });
    // S4e: a COMPLETE valid phrase with something added between its words - the decoration a written-down backup carries
    // (position numbers, bullets, punctuation, filler words): every added token is a token that is not a list word and
    // makes the count wrong, so the text is not a BIP-39 phrase; an implementation that skips what it does not recognise
    // would accept it
    let extra = ["0", "1", "7", "12", "13", "25", "1.", "1)", "1:", "(1)", "#1", "01", "-", "*", "\u{2022}", ",", ";", ".", "and", "the", "a", "word", "=", "|", "x", "#", "//", "\u{2014}"];
    let mut s4e: Vec<(usize, usize, usize)> = Vec::new(); for n in lens { for g in 0..=n { for k in 0..extra.len() { s4e.push((n, g, k)); } } }
    ctx.sweep("S4e-token-added-to-a-complete-phrase", "a valid phrase of every length with one of 28 non-list tokens (numbers, numbered-list markers, bullets, punctuation, filler words) ADDED at every gap including both ends: not a BIP-39 phrase, must be rejected", s4e.len() as u64, |i| {
        let (n, g, k) = s4e[i as usize]; let idx = valid_indices(ctx.seed, n, 5, None);
        let mut toks: Vec<&str> = idx.iter().map(|k| w[*k]).collect(); toks.insert(g, extra[k]);
        check_phrase(ctx, "S4e-token-added-to-a-complete-phrase", i, &toks.join(" "));
    });
    // S4f: the same decoration applied to EVERY word (a numbered or bulleted list, one word per line)
    let decor: [(&str, &str, &str); 14] = [("{k}. ", "", " "), ("{k}) ", "", " "), ("{k}: ", "", " "), ("{k} ", "", " "), ("", " {k}", " "), ("#{k} ", "", " "), ("- ", "", "\n"), ("* ", "", "\n"), ("{k}. ", "", "\n"), ("{k}.\t", "", "\n"), ("", " ,", " "), ("", " ;", "\n"), ("{k0}. ", "", " "), ("({k}) ", "", "\n")];
    ctx.sweep("S4f-every-word-decorated", "a valid phrase of every length written as a numbered / bulleted list (14 layouts: `1. w`, `1) w`, `1: w`, `1 w`, `w 1`, `#1 w`, `- w`, `* w`, one per line, zero-based, `(1) w`, separated `,` / `;`): the markers are tokens that are not list words, must be rejected", (lens.len() * decor.len()) as u64, |i| {
        let n = lens[i as usize / decor.len()]; let (pre, post, sep) = decor[i as usize % decor.len()]; let idx = valid_indices(ctx.seed, n, 6, None);
        let sub = |t: &str, k: usize| t.replace("{k0}", &k.to_string()).replace("{k}", &(k + 1).to_string());
        let text = idx.iter().enumerate().map(|(k, x)| format!("{}{}{}", sub(pre, k), w[*x], sub(post, k))).collect::<Vec<_>>().join(sep);
        check_phrase(ctx, "S4f-every-word-decorated", i, &text);
    });
    // S5: whitespace layout
    let seps = [" ", "  ", "\t", "\n", "\r\n", " \t ", "\u{a0}", "\u{2003}", "\u{3000}", "\u{b}", "\u{c}", "\u{85}", "\u{200b}", ""];
    let edges = ["", " ", "\n", "\t \r\n", "\u{3000}"];
    let mut s5: Vec<(usize, usize, usize, usize, usize)> = Vec::new(); // (n, gap index or usize::MAX for uniform, sep, lead, trail)
    for n in lens { for (si, _) in seps.iter().enumerate() { s5.push((n, usize::MAX, si, 0, 0)); for g in 0..n - 1 { s5.push((n, g, si, 0, 0)); } }
        for l in 0..edges.len() { for t in 0..edges.len() { s5.push((n, usize::MAX, 0, l, t)); } } }
    ctx.sweep("S5-whitespace-layout", "14 separators uniformly and at every single gap, 5x5 leading/trailing runs, every valid length", s5.len() as u64, |i| {
        let (n, gap, si, l, t) = s5[i as usize]; let idx = valid_indices(ctx.seed, n, 0, None);
        let mut s = String::from(edges[l]);
        for (j, k) in idx.iter().enumerate() { s += w[*k]; if j + 1 < n { s += if gap == usize::MAX || gap == j { seps[si] } else { " " }; } }
        s += edges[t];
        check_phrase(ctx, "S5-whitespace-layout", i, &s);
    });
    if ctx.thorough() {
        // S6: pairs of positions x boundary words for the shortest and longest length
        let bw = [0usize, 1, 1023, 1024, 2046, 2047];
        let mut s6 = Vec::new(); for n in [12usize, 15, 18, 21, 24] { for a in 0..n { for b in a + 1..n { for x in bw { for y in bw { s6.push((n, a, b, x, y)); } } } } }
        ctx.sweep("S6-position-pairs", "all position pairs x 6x6 boundary words for every valid length (checksum recomputed unless the last word is one of the pair)", s6.len() as u64, |i| {
            let (n, a, b, x, y) = s6[i as usize]; let mut idx = valid_indices(ctx.seed, n, 0, None); idx[a] = x; idx[b] = y;
            if b != n - 1 { idx[n - 1] = bip39::complete_last(&idx[..n - 1], idx[n - 1]); }
            check_phrase(ctx, "S6-position-pairs", i, &bip39::indices_to_phrase(&idx));
        });
    }
    for n in lens { ctx.guard_check(&format!("{n}-word phrases accepted"), ctx.has_class(&format!("words={n},valid:accepted")), "at least one valid phrase of this length was accepted"); }
    ctx.guard_check("bad checksums rejected", ctx.classes_matching(|c| c.ends_with("bad-checksum:rejected")) >= 5, "each valid length saw a checksum mismatch rejected");
    crate::hist::histories(ctx, P, "phrase-histories", "Mnemonic::from_phrase / to_phrase, a sequence on one fresh thread", crate::hist::c01_ops(ctx.seed));
    crate::hist::long_runs(ctx, P, "phrase-long-runs", "Mnemonic::from_phrase / to_phrase, a long run on one fresh thread", if ctx.quick() { 40 } else { 150 }, crate::hist::c01_nth(ctx.seed));
}

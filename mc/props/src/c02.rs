//! C02 — wallet seed is the BIP-39 PBKDF2 stretch of canonical phrase and NFKD passphrase.
use crate::c01::valid_indices;
use explore::{guard, panic_site, Ctx};
use hdwallet::mnemonic::Mnemonic;
use refmodel::{bip39, nfkd};
use serde_json::json;

const P: &str = "C02";
pub const LAYOUTS: [(&str, &str, &str, &str); 4] = [("canonical", "", " ", ""), ("tabs-newlines", "", "\t\n", ""), ("padded", "  ", " ", " \n"), ("double-space", "", "  ", "")];

pub fn run(ctx: &Ctx) {
    let rounds: u64 = if ctx.quick() { 1 } else { 12 };
    let mut mn: Vec<Vec<usize>> = Vec::new();
    for n in bip39::VALID_COUNTS { for r in 0..rounds { mn.push(valid_indices(ctx.seed, n, 100 + r, None)); } }
    // the all-zero and all-one entropies as well
    for n in bip39::VALID_COUNTS { mn.push(bip39::entropy_to_indices(&vec![0u8; n * 4 / 3])); mn.push(bip39::entropy_to_indices(&vec![0xffu8; n * 4 / 3])); }
    let passes: Vec<&str> = nfkd::TABLE.iter().map(|(i, _)| *i).collect();
    let nl = if ctx.quick() { 2 } else { LAYOUTS.len() };
    let total = (mn.len() * passes.len() * nl) as u64;
    ctx.sweep("seed-product", "mnemonics (every valid length x filler rounds, plus all-zero / all-one entropy) x every passphrase of the NFKD alphabet x phrase layouts", total, |i| {
        let (mi, rest) = ((i as usize) / (passes.len() * nl), (i as usize) % (passes.len() * nl)); let (pi, li) = (rest / nl, rest % nl);
        let words: Vec<&str> = mn[mi].iter().map(|k| bip39::words()[*k]).collect();
        let (lname, lead, sep, trail) = LAYOUTS[li];
        let text = format!("{lead}{}{trail}", words.join(sep)); let canon = words.join(" ");
        let pass = passes[pi]; let norm = nfkd::nfkd(pass);
        let want = bip39::seed(&canon, norm);
        let shape = format!("words={},pass#{pi}{},layout={lname}", words.len(), if pass == norm { "" } else { "(nfkd-changes)" });
        let replay = json!({"sweep": "seed-product", "index": i, "entry": "Mnemonic::seed", "phrase": text, "passphrase": pass, "passphrase_utf8_hex": explore::hex(pass.as_bytes()), "reference_seed": explore::hex(&want)});
        ctx.sample("seed-product", || replay.clone());
        ctx.emit_cli("seed-product", i, 2, || { let c = refmodel::secp::Curve::new(); let h = refmodel::grammar::HARD; let k = refmodel::bip32::derive(&c, &want, &[44 | h, 60 | h, h, 0, 0]).unwrap().k; json!({"kind": "seed", "shape": shape, "phrase": text, "passphrase": pass, "key0": k.to_hex64()}) });
        match guard(|| Mnemonic::from_phrase(&text).map(|m| *m.seed(pass))) {
            Err(p) => { ctx.eval(format!("{shape}:panic")); ctx.panic_violation(format!("{P}:seed:{shape}:panic@{}", panic_site(&p)), format!("seed computation panics: {p}"), replay) }
            Ok(Err(e)) => { ctx.eval(format!("{shape}:rejected")); ctx.violation(format!("{P}:seed:{shape}:phrase-rejected"), format!("valid phrase rejected: {e}"), replay) }
            Ok(Ok(s)) => { ctx.eval(format!("{shape}:seed")); if s != want { ctx.violation(format!("{P}:seed:{shape}:differs"), format!("seed {} is not PBKDF2-HMAC-SHA512(phrase, \"mnemonic\"+NFKD(pass))", explore::hex(&s)), replay) } }
        }
    });
    ctx.guard_check("normalising passphrases present", ctx.classes_matching(|c| c.contains("(nfkd-changes)")) > 0, "at least one passphrase whose NFKD form differs from its input was compared");
    crate::hist::histories(ctx, P, "seed-histories", "Mnemonic::seed, a sequence on one fresh thread", crate::hist::c02_ops(ctx.seed));
    crate::hist::long_runs(ctx, P, "seed-long-runs", "Mnemonic::seed, a long run on one fresh thread", if ctx.quick() { 40 } else { 100 }, crate::hist::c02_nth(ctx.seed));
    crate::hist::under_entropy_answers(ctx, P, "seeds-under-entropy-answers", "Mnemonic::seed with the entropy source scripted", crate::hist::c02_ops(ctx.seed));
    crate::hist::size_runs(ctx, P, "passphrase-size-runs", "Mnemonic::seed: passphrase sizes across orders of magnitude on one fresh thread", &[0, 1, 8, 55, 56, 111, 112, 127, 128, 129, 1000, 65_536, (1 << 20) + 100], crate::hist::c02_sized(ctx.seed));
}

//! C05 — signatures are valid, recoverable, low-s and RFC 6979 deterministic.
use explore::{filler_bytes, guard, panic_site, Ctx};
use ethdigest::Digest;
use hdwallet::account::PrivateKey;
use refmodel::hash::keccak256;
use refmodel::secp::{self, Curve, U256};
use serde_json::json;
use std::sync::atomic::{AtomicU64, Ordering};

const P: &str = "C05";
pub fn keys(seed: u64, extra: usize) -> Vec<(String, U256)> {
    let n = secp::n(); let sub = |k: u64| n.sbb(&U256::from_u64(k)).0;
    let mut v = vec![("1".into(), U256::ONE), ("2".into(), U256::from_u64(2)), ("n-2".into(), sub(2)), ("n-1".into(), sub(1)),
        ("ganache".into(), U256::from_hex("4f3edf983ac636a65a842ce7c78d9aa706d3b113bce9c46f30d7d21715b23b1d")), ("pattern".into(), U256::from_be(&[1u8; 32]))];
    for i in 0..extra { let x = U256::from_be(&filler_bytes(seed, 0xC05 + i as u64, 32).try_into().unwrap()); if !x.is_zero() && x < n { v.push(("filler".into(), x)); } }
    v
}
pub fn digests(seed: u64, extra: usize) -> Vec<(String, [u8; 32])> {
    let n = secp::n(); let mut v: Vec<(String, [u8; 32])> = Vec::new();
    v.push(("0".into(), [0; 32])); v.push(("1".into(), U256::ONE.to_be())); v.push(("2".into(), U256::from_u64(2).to_be()));
    v.push(("n-1".into(), n.sbb(&U256::ONE).0.to_be())); v.push(("n".into(), n.to_be())); v.push(("n+1".into(), n.adc(&U256::ONE).0.to_be()));
    v.push(("2^255".into(), U256([0, 0, 0, 1 << 63]).to_be())); v.push(("max".into(), [0xff; 32]));
    for s in ["", "a", "abc", "hello", "hdwallet", "0", "\u{0}", "The quick brown fox"] { v.push(("keccak".into(), keccak256(s.as_bytes()))); }
    for i in 0..extra { v.push(("filler".into(), filler_bytes(seed, 0xD1 + i as u64, 32).try_into().unwrap())); }
    v
}
pub fn run(ctx: &Ctx) {
    let curve = Curve::new(); let n = secp::n();
    let (ks, ds) = if ctx.quick() { (keys(ctx.seed, 2), digests(ctx.seed, 24)) } else { (keys(ctx.seed, 34), digests(ctx.seed, 384)) };
    let (par0, par1, flips, ge_n_differs) = (AtomicU64::new(0), AtomicU64::new(0), AtomicU64::new(0), AtomicU64::new(0));
    ctx.sweep("key-x-digest", "full product of boundary/filler keys x boundary/filler digests", (ks.len() * ds.len()) as u64, |i| {
        let (kc, d) = &ks[i as usize / ds.len()]; let (dc, z) = &ds[i as usize % ds.len()];
        let below = U256::from_be(z) < n;
        let (rr, rs, rodd, high) = curve.sign_rfc6979(d, z);
        let pubkey = curve.mul_g(d);
        let shape = format!("key={kc},digest={dc}");
        let replay = json!({"sweep": "key-x-digest", "index": i, "entry": "PrivateKey::sign", "secret": d.to_hex64(), "digest": explore::hex(z), "reference": refmodel::eth::sig_text(&rr, &rs, rodd)});
        ctx.sample("key-x-digest", || replay.clone());
        let got = guard(|| { let k = PrivateKey::new(d.to_be()).expect("valid key"); let s1 = k.sign(Digest(*z)); let s2 = k.try_sign(Digest(*z)).expect("try_sign"); let s3 = k.sign(Digest(*z));
            (s1.r().to_be_bytes(), s1.s().to_be_bytes(), s1.y_parity().as_u8(), s1 == s2 && s2 == s3) });
        match got {
            Err(p) => { ctx.eval(format!("{shape}:panic")); ctx.panic_violation(format!("{P}:sign:{shape}:panic@{}", panic_site(&p)), format!("signing panics: {p}"), replay) }
            Ok((r, s, par, same)) => {
                let (r, s) = (U256::from_be(&r), U256::from_be(&s)); let odd = par == 1;
                ctx.eval(format!("parity={par},digest-below-n={below},raw-s-high={high}"));
                if odd { par1.fetch_add(1, Ordering::Relaxed); } else { par0.fetch_add(1, Ordering::Relaxed); } if high { flips.fetch_add(1, Ordering::Relaxed); }
                if par > 1 { ctx.violation(format!("{P}:sign:{shape}:parity-range"), format!("y parity {par}"), replay) }
                else if r.is_zero() || r >= n || s.is_zero() || s > secp::half_n() { ctx.violation(format!("{P}:sign:{shape}:range"), format!("r={} s={} violates 1<=r<n, 1<=s<=n/2", r.to_hex64(), s.to_hex64()), replay) }
                else if !curve.verify(z, &r, &s, &pubkey) { ctx.violation(format!("{P}:sign:{shape}:does-not-verify"), "ECDSA verification fails under the signer's public key", replay) }
                else if curve.recover(z, &r, &s, odd) != pubkey { ctx.violation(format!("{P}:sign:{shape}:recovers-other-key"), "public-key recovery from (digest, r, s, yParity) does not return the signer", replay) }
                else if !same { ctx.violation(format!("{P}:sign:{shape}:not-deterministic"), "signing the same digest twice gives different signatures", replay) }
                else if (r, s, odd) != (rr, rs, rodd) { if below { ctx.violation(format!("{P}:sign:{shape}:not-rfc6979"), format!("signature {} differs from the RFC 6979 / low-s signature", refmodel::eth::sig_text(&r, &s, odd)), replay) } else { ge_n_differs.fetch_add(1, Ordering::Relaxed); } }
            }
        }
    });
    // histories: every sequence of three signing operations over 3 keys x 2 digests, each sequence on a FRESH thread
    // (per-thread or per-process state that survives from one signer to the next shows only in such sequences)
    let hk: Vec<U256> = vec![ks[0].1, ks[2].1, ks[4].1]; let hd: Vec<[u8; 32]> = vec![ds[8].1, ds[1].1];
    let ops: Vec<(usize, usize)> = (0..3).flat_map(|k| (0..2).map(move |d| (k, d))).collect(); let n_ops = ops.len() as u64;
    ctx.sweep("signing-histories", "every sequence of 3 signing operations over 3 keys x 2 digests (216 histories), each on a fresh thread: every signature of the sequence is the reference signature of its own (key, digest)", n_ops * n_ops * n_ops, |i| {
        let seq = [ops[(i / n_ops / n_ops) as usize], ops[(i / n_ops % n_ops) as usize], ops[(i % n_ops) as usize]];
        let (hk2, hd2) = (hk.clone(), hd.clone());
        let got = std::thread::spawn(move || guard(|| seq.iter().map(|(k, d)| { let s = PrivateKey::new(hk2[*k].to_be()).expect("valid key").sign(Digest(hd2[*d])); (U256::from_be(&s.r().to_be_bytes()), U256::from_be(&s.s().to_be_bytes()), s.y_parity().as_u8() == 1) }).collect::<Vec<_>>())).join().unwrap_or_else(|_| Err("thread died".into()));
        let replay = json!({"sweep": "signing-histories", "index": i, "entry": "PrivateKey::sign x 3 on a fresh thread", "sequence": seq.iter().map(|(k, d)| format!("key {} digest {}", hk[*k].to_hex64(), explore::hex(&hd[*d]))).collect::<Vec<_>>()});
        ctx.sample("signing-histories", || replay.clone());
        let shape = if seq[0].0 != seq[1].0 && seq[0].0 == seq[2].0 { "history=A,B,A" } else if seq[0].0 == seq[1].0 && seq[1].0 == seq[2].0 { "history=A,A,A" } else { "history=other" };
        match got {
            Err(p) => { ctx.eval(format!("{shape}:panic")); ctx.panic_violation(format!("{P}:sign:{shape}:panic@{}", panic_site(&p)), format!("panics: {p}"), replay) }
            Ok(sigs) => { ctx.eval(format!("{shape}:signed"));
                for (step, ((k, d), got)) in seq.iter().zip(sigs.iter()).enumerate() { let (rr, rs, ro, _) = curve.sign_rfc6979(&hk[*k], &hd[*d]);
                    if *got != (rr, rs, ro) { ctx.violation(format!("{P}:sign:{shape}:step-{}-depends-on-history", step + 1), format!("operation {} of the sequence returns {} instead of the signature of its own key and digest {}", step + 1, refmodel::eth::sig_text(&got.0, &got.1, got.2), refmodel::eth::sig_text(&rr, &rs, ro)), replay); break; } } }
        }
    });
    // a relation between the RESULTS of two steps: two signatures (one key, two digests) whose r values share their leading
    // 2, 3 or 4 bytes, signed one after the other on one thread in both orders. Such pairs are found by a birthday search over
    // the implementation's own signatures of 2^18 digests (sixteen threads of their own; each digest of a pair found is then
    // re-signed by the reference). Anything that fingerprints, indexes or compares earlier results by a prefix meets them.
    let n_search: u64 = if ctx.quick() { 1 << 18 } else { 1 << 20 }; let skey = ks[4].1;
    let digest_of = |k: u64| -> [u8; 32] { refmodel::hash::keccak256(&k.to_be_bytes()) };
    let mut fp: Vec<(u32, u64)> = std::thread::scope(|sc| { let hs: Vec<_> = (0..16u64).map(|t| sc.spawn(move || { let key = PrivateKey::new(skey.to_be()).expect("valid key"); let per = n_search / 16;
        (t * per..(t + 1) * per).map(|k| { let s = key.sign(Digest(refmodel::hash::keccak256(&k.to_be_bytes()))); let r = s.r().to_be_bytes(); (u32::from_be_bytes([r[0], r[1], r[2], r[3]]), k) }).collect::<Vec<_>>() })).collect(); hs.into_iter().flat_map(|h| h.join().unwrap_or_default()).collect() });
    fp.sort();
    let mut pairs: Vec<(usize, u64, u64)> = Vec::new(); let mut count = [0usize; 5];
    for w in fp.windows(2) { let same = (w[0].0 ^ w[1].0).leading_zeros() / 8; for bytes in [4usize, 3, 2] { if same as usize >= bytes && count[bytes] < 24 { count[bytes] += 1; pairs.push((bytes, w[0].1, w[1].1)); break; } } }
    ctx.set_extra("signature_pairs_sharing_leading_r_bytes_found", json!({"2": count[2], "3": count[3], "4": count[4], "searched": n_search}));
    ctx.sweep("signatures-sharing-a-prefix-of-r", &format!("pairs of digests whose signatures under one key share the leading 4 / 3 / 2 bytes of r (up to 24 pairs each, found by a birthday search over {n_search} signatures), signed D1, D2, D1 and D2, D1, D2 on one fresh thread: every signature is the RFC 6979 signature of its own digest"), (pairs.len() * 2) as u64, |i| {
        let (bytes, a, b) = pairs[i as usize / 2]; let (a, b) = if i % 2 == 0 { (a, b) } else { (b, a) }; let seq = [digest_of(a), digest_of(b), digest_of(a)];
        let got = std::thread::spawn(move || guard(|| { let key = PrivateKey::new(skey.to_be()).expect("valid key"); seq.iter().map(|d| { let s = key.sign(Digest(*d)); (U256::from_be(&s.r().to_be_bytes()), U256::from_be(&s.s().to_be_bytes()), s.y_parity().as_u8() == 1) }).collect::<Vec<_>>() })).join().unwrap_or_else(|_| Err("thread died".into()));
        let replay = json!({"sweep": "signatures-sharing-a-prefix-of-r", "index": i, "entry": "PrivateKey::sign x 3 on a fresh thread", "secret": skey.to_hex64(), "digests": seq.iter().map(|d| explore::hex(d)).collect::<Vec<_>>(), "shared_leading_bytes_of_r": bytes});
        ctx.sample("signatures-sharing-a-prefix-of-r", || replay.clone());
        match got {
            Err(p) => { ctx.eval(format!("shared-r-prefix={bytes}:panic")); ctx.panic_violation(format!("{P}:sign:shared-r-prefix:panic@{}", panic_site(&p)), format!("panics: {p}"), replay) }
            Ok(sigs) => { ctx.eval(format!("shared-r-prefix={bytes}:signed"));
                for (step, (d, got)) in seq.iter().zip(sigs.iter()).enumerate() { let (rr, rs, ro, _) = curve.sign_rfc6979(&skey, d);
                    if *got != (rr, rs, ro) { ctx.violation(format!("{P}:sign:shared-r-prefix={bytes}:step-{}-depends-on-history", step + 1), format!("signature {} of the sequence is {} instead of the RFC 6979 signature {} of its digest (the r values of the two digests share their leading {bytes} bytes)", step + 1, refmodel::eth::sig_text(&got.0, &got.1, got.2), refmodel::eth::sig_text(&rr, &rs, ro)), replay.clone()); return; } } }
        }
    });
    ctx.set_extra("digests_ge_n_where_signature_differs_from_rfc6979_of_reduced_digest(recorded,not required)", json!(ge_n_differs.load(Ordering::Relaxed)));
    ctx.guard_check("both parities observed", par0.load(Ordering::Relaxed) > 0 && par1.load(Ordering::Relaxed) > 0, format!("parity 0: {}, parity 1: {}", par0.load(Ordering::Relaxed), par1.load(Ordering::Relaxed)));
    ctx.guard_check("low-s flip exercised", flips.load(Ordering::Relaxed) > 0, format!("{} cases had a raw s above n/2", flips.load(Ordering::Relaxed)));
    crate::hist::long_runs(ctx, P, "signing-long-runs", "PrivateKey::sign, a long run on one fresh thread", if ctx.quick() { 40 } else { 300 }, crate::hist::c05_nth());
}

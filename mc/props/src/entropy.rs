//! In-process ownership of the OS entropy source: the harness executable defines `getentropy`, which takes
//! precedence over libc's for the statically linked hdwallet library. Answers are scripted per thread.
use std::cell::RefCell;

#[derive(Clone, Debug)]
pub enum Answer { Bytes(Vec<u8>), Fail }
#[derive(Default)]
pub struct Script { pub answers: Vec<Answer>, pub pos: usize, pub requests: Vec<usize>, pub handed: Vec<u8>, pub active: bool }
thread_local! { pub static SCRIPT: RefCell<Script> = RefCell::new(Script::default()); }

extern "C" { fn __errno_location() -> *mut i32; }
/// # Safety: called by the subject through its FFI declaration with a valid buffer
#[no_mangle]
pub unsafe extern "C" fn getentropy(buf: *mut u8, len: usize) -> i32 {
    SCRIPT.with(|s| {
        let mut s = s.borrow_mut();
        if !s.active { // outside a scripted case: deterministic filler, never the real OS source
            for i in 0..len { *buf.add(i) = (i as u8).wrapping_mul(37).wrapping_add(11); } return 0;
        }
        s.requests.push(len);
        let a = s.answers.get(s.pos).cloned().unwrap_or(Answer::Fail); s.pos += 1;
        match a {
            Answer::Fail => { *__errno_location() = 5; -1 } // EIO
            Answer::Bytes(b) => { for i in 0..len { let v = b[i % b.len().max(1)]; *buf.add(i) = v; s.handed.push(v); } 0 }
        }
    })
}
pub fn with_script<T>(answers: Vec<Answer>, f: impl FnOnce() -> T) -> (T, Vec<usize>, Vec<u8>) {
    SCRIPT.with(|s| *s.borrow_mut() = Script { answers, pos: 0, requests: vec![], handed: vec![], active: true });
    let r = f();
    let (req, handed) = SCRIPT.with(|s| { let mut s = s.borrow_mut(); s.active = false; (std::mem::take(&mut s.requests), std::mem::take(&mut s.handed)) });
    (r, req, handed)
}

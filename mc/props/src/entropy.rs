//! In-process ownership of the OS entropy source: the harness executable defines `getentropy`, which takes
//! precedence over libc's for the statically linked hdwallet library. Answers are scripted per thread.
use std::cell::RefCell;

/// The scripted source: one continuous byte stream that cycles through `pattern` and continues across requests
/// (however many requests an implementation makes, the entropy it gathers is a prefix of the stream);
/// request number `fail_at` fails, and so does every later one unless `once`.
#[derive(Default)]
pub struct Script { pub pattern: Vec<u8>, pub pos: usize, pub fail_at: Option<usize>, pub once: bool, /// number of consecutive failing requests from `fail_at` on (overrides `once`), and the errno they report (0 = EIO)
    pub fail_n: Option<usize>, pub errno: i32, pub requests: Vec<(usize, bool)>, pub handed: Vec<u8>, pub active: bool }
thread_local! { pub static SCRIPT: RefCell<Script> = RefCell::new(Script::default()); }
/// every byte a scripted source handed out in this process, in request order (an implementation that buffers entropy per
/// thread or per process may serve a generation from bytes it fetched during an earlier case)
pub static ALL_HANDED: std::sync::Mutex<Vec<u8>> = std::sync::Mutex::new(Vec::new());

extern "C" { fn __errno_location() -> *mut i32; }
/// # Safety: called by the subject through its FFI declaration with a valid buffer
#[no_mangle]
pub unsafe extern "C" fn getentropy(buf: *mut u8, len: usize) -> i32 {
    SCRIPT.with(|s| {
        let mut s = s.borrow_mut();
        if !s.active { // outside a scripted case: never the real OS source, and - like the real one - never the same answer twice
            // (every request of the process gets its own bytes; two threads that each draw a pad, a mask or a seed get different ones)
            static UNSCRIPTED: std::sync::atomic::AtomicU64 = std::sync::atomic::AtomicU64::new(1);
            let k = UNSCRIPTED.fetch_add(1, std::sync::atomic::Ordering::Relaxed);
            for i in 0..len { *buf.add(i) = (explore::mix(k, i as u64 / 8) >> (8 * (i % 8))) as u8; } return 0;
        }
        let k = s.requests.len();
        let fail = s.fail_at.map_or(false, |f| match s.fail_n { Some(n) => k >= f && k - f < n, None => if s.once { k == f } else { k >= f } });
        s.requests.push((len, !fail));
        if fail { *__errno_location() = if s.errno == 0 { 5 /* EIO */ } else { s.errno }; return -1; }
        let from = s.handed.len();
        for i in 0..len { let v = if s.pattern.is_empty() { 0 } else { s.pattern[s.pos % s.pattern.len()] }; s.pos += 1; *buf.add(i) = v; s.handed.push(v); }
        if let Ok(mut all) = ALL_HANDED.lock() { if all.len() < (64 << 20) { all.extend_from_slice(&s.handed[from..]); } }
        0
    })
}
extern "C" { fn syscall(num: i64, ...) -> i64; }
/// The same source reached through getrandom(2)'s libc wrapper. Requests made with GRND_NONBLOCK / GRND_INSECURE
/// (hash-map seeding of the Rust runtime) never carry key material and go to the kernel.
/// # Safety: called with a valid buffer
#[no_mangle]
pub unsafe extern "C" fn getrandom(buf: *mut u8, len: usize, flags: u32) -> isize {
    if flags & 0x5 != 0 || !SCRIPT.with(|s| s.borrow().active) { return syscall(318, buf, len, flags) as isize; } // SYS_getrandom on x86_64
    if getentropy(buf, len) == 0 { len as isize } else { -1 }
}
/// runs `f` with the scripted source; returns its result, the requests made (length, answered?) and the bytes handed out
/// like `with_script`, on a thread of its own: thread-local state of the implementation starts fresh for every case
pub fn with_script_on_fresh_thread<T: Send>(pattern: Vec<u8>, fail_at: Option<usize>, once: bool, f: impl FnOnce() -> T + Send) -> (T, Vec<(usize, bool)>, Vec<u8>) {
    std::thread::scope(|sc| std::thread::Builder::new().stack_size(16 << 20).spawn_scoped(sc, move || with_script(pattern, fail_at, once, f)).expect("spawn").join().expect("the case thread died"))
}
pub fn with_script<T>(pattern: Vec<u8>, fail_at: Option<usize>, once: bool, f: impl FnOnce() -> T) -> (T, Vec<(usize, bool)>, Vec<u8>) { with_script_errno(pattern, fail_at, once, None, 0, f) }
/// the failing window is `fail_n` requests long (None: one request if `once`, else all later ones) and reports `errno` (0: EIO)
pub fn with_failures_on_fresh_thread<T: Send>(pattern: Vec<u8>, fail_at: Option<usize>, once: bool, fail_n: Option<usize>, errno: i32, f: impl FnOnce() -> T + Send) -> (T, Vec<(usize, bool)>, Vec<u8>) {
    std::thread::scope(|sc| std::thread::Builder::new().stack_size(16 << 20).spawn_scoped(sc, move || with_script_errno(pattern, fail_at, once, fail_n, errno, f)).expect("spawn").join().expect("the case thread died"))
}
pub fn with_script_errno<T>(pattern: Vec<u8>, fail_at: Option<usize>, once: bool, fail_n: Option<usize>, errno: i32, f: impl FnOnce() -> T) -> (T, Vec<(usize, bool)>, Vec<u8>) {
    SCRIPT.with(|s| *s.borrow_mut() = Script { pattern, pos: 0, fail_at, once, fail_n, errno, requests: vec![], handed: vec![], active: true });
    let r = f();
    let (req, handed) = SCRIPT.with(|s| { let mut s = s.borrow_mut(); s.active = false; (std::mem::take(&mut s.requests), std::mem::take(&mut s.handed)) });
    (r, req, handed)
}

//! C15 — printed signatures parse back (library part; the sign | hash pipeline is checked on the CLI layer).
use crate::c05;
use explore::{guard, panic_site, Ctx};
use ethdigest::Digest;
use hdwallet::account::{PrivateKey, Signature};
use refmodel::eth::sig_text;
use refmodel::grammar::classify_signature;
use refmodel::json::Class;
use refmodel::secp::{self, Curve, U256};
use serde_json::json;

const P: &str = "C15";
type Obs = Option<([u8; 32], [u8; 32], u8, String)>;
fn parse(t: &str) -> Result<Obs, String> { guard(|| t.parse::<Signature>().ok().map(|s| (s.r().to_be_bytes(), s.s().to_be_bytes(), s.y_parity().as_u8(), s.to_string()))) }

pub fn check_text(ctx: &Ctx, sweep: &str, i: u64, shape: &str, t: &str) {
    let class = classify_signature(t);
    let replay = json!({"sweep": sweep, "index": i, "entry": "str::parse::<Signature>", "text": t, "reference": class.name()});
    ctx.sample(sweep, || replay.clone());
    match parse(t) {
        Err(p) => { ctx.eval(format!("{shape}:panic")); ctx.panic_violation(format!("{P}:parse:{shape}:panic@{}", panic_site(&p)), format!("parsing signature text panics: {p}"), replay) }
        Ok(None) => { ctx.eval(format!("{shape}:rejected")); if let Class::Accept(_) = class { ctx.violation(format!("{P}:parse:{shape}:rejected"), "text that denotes a signature is rejected", replay) } }
        Ok(Some((r, s, par, shown))) => { ctx.eval(format!("{shape}:accepted"));
            match class {
                Class::Reject => ctx.violation(format!("{P}:parse:{shape}:accepted"), format!("text that does not denote a signature is accepted (as {shown})"), replay),
                Class::Accept((wr, ws, wodd)) | Class::Unc((wr, ws, wodd)) => {
                    if (U256::from_be(&r), U256::from_be(&s), par == 1) != (wr, ws, wodd) { ctx.violation(format!("{P}:parse:{shape}:other-signature"), format!("parsed as {shown}"), replay) }
                    else if shown != sig_text(&wr, &ws, wodd) { ctx.violation(format!("{P}:display:{shape}:differs"), format!("prints as {shown}"), replay) } }
            } }
    }
}
pub fn run(ctx: &Ctx) {
    let curve = Curve::new();
    let (ks, ds) = if ctx.quick() { (c05::keys(ctx.seed, 2), c05::digests(ctx.seed, 24)) } else { (c05::keys(ctx.seed, 34), c05::digests(ctx.seed, 384)) };
    ctx.sweep("print-parse-roundtrip", "every signature of the C05 key x digest product: Display equals 0x r(64) s(64) v(2); parsing it with and without 0x gives an equal signature", (ks.len() * ds.len()) as u64, |i| {
        let (kc, d) = &ks[i as usize / ds.len()]; let (dc, z) = &ds[i as usize % ds.len()];
        let replay = json!({"sweep": "print-parse-roundtrip", "index": i, "entry": "Signature Display / FromStr", "secret": d.to_hex64(), "digest": explore::hex(z)});
        let got = guard(|| { let sig = PrivateKey::new(d.to_be()).expect("valid key").sign(Digest(*z)); let text = sig.to_string();
            let with = text.parse::<Signature>().ok().map(|s| s == sig); let without = text.trim_start_matches("0x").parse::<Signature>().ok().map(|s| s == sig);
            (text, U256::from_be(&sig.r().to_be_bytes()), U256::from_be(&sig.s().to_be_bytes()), sig.y_parity().as_u8() == 1, with, without) });
        let shape = format!("key={kc},digest={dc}");
        ctx.sample("print-parse-roundtrip", || replay.clone());
        match got {
            Err(p) => { ctx.eval("roundtrip:panic"); ctx.panic_violation(format!("{P}:roundtrip:{shape}:panic@{}", panic_site(&p)), format!("panics: {p}"), replay) }
            Ok((text, r, s, odd, with, without)) => { ctx.eval(format!("roundtrip:parity={}", odd as u8));
                let below = U256::from_be(z) < secp::n();
                let (rr, rs, rodd, _) = curve.sign_rfc6979(d, z);
                if text != sig_text(&r, &s, odd) { ctx.violation(format!("{P}:display:produced-signature:differs"), format!("prints '{text}', the format is '{}'", sig_text(&r, &s, odd)), replay) }
                else if below && text != sig_text(&rr, &rs, rodd) { ctx.violation(format!("{P}:display:produced-signature:not-reference"), "printed signature is not the reference RFC 6979 signature text", replay) }
                else if with != Some(true) { ctx.violation(format!("{P}:parse:printed-with-0x:{}", if with.is_none() { "rejected" } else { "differs" }), format!("the printed signature '{text}' does not parse back to an equal signature"), replay) }
                else if without != Some(true) { ctx.violation(format!("{P}:parse:printed-without-0x:{}", if without.is_none() { "rejected" } else { "differs" }), "the printed signature without its 0x prefix does not parse back to an equal signature", replay) } }
        }
    });
    // malformed text
    let good = sig_text(&U256::from_be(&[0x11; 32]), &U256::from_be(&[0x22; 32]), true); let body = &good[2..];
    ctx.sweep("length-sweep", "hex filler of every length 0..=140, with and without 0x", 141 * 2, |i| {
        let len = (i / 2) as usize; let pre = if i % 2 == 0 { "" } else { "0x" };
        let t: String = format!("{pre}{}", body.chars().cycle().take(len.saturating_sub(2)).chain("1c".chars().take(len.min(2))).collect::<String>());
        check_text(ctx, "length-sweep", i, &format!("len={},{}", if len == 130 { "130" } else if len < 130 { "short" } else { "long" }, if pre.is_empty() { "bare" } else { "0x" }), &t);
    });
    let devs = ['g', 'G', ' ', 'x', '\u{e9}', '-', '+', 'A', '\u{131}', '\u{661}', '\u{1f531}', '\u{b1}']; // the last four become '1', 'a', '1', '1' when a code point is cut to 8 / 7 bits
    ctx.sweep("one-deviating-character", "a valid 130-digit text (bare and 0x-prefixed) with one of 12 deviating characters (incl. four whose code point cut to 8 / 7 bits is a hex digit) at every index", (132 * 2 * devs.len()) as u64, |i| {
        let d = devs[i as usize % devs.len()]; let pos = (i as usize / devs.len()) % 132; let pre = i as usize / devs.len() / 132 == 1;
        let src = if pre { good.clone() } else { body.to_string() }; if pos >= src.len() { return; }
        let t: String = src.chars().enumerate().map(|(k, c)| if k == pos { d } else { c }).collect();
        check_text(ctx, "one-deviating-character", i, &format!("deviating-{}", if d == 'A' { "uppercase-digit" } else if d.is_ascii() { "ascii-non-hex" } else { "non-ascii" }), &t);
    });
    // the same deviation measured in BYTES: a character of k bytes put in place of k digits keeps the byte length at 130 (132)
    // while the number of characters drops - a length test that counts bytes passes, and whatever then cuts the text at a
    // fixed offset (64, 128, 130) may land inside the character
    let wide = ["\u{e9}", "\u{20ac}", "\u{1f600}", "\u{e9}\u{e9}", "\u{ff11}"];
    ctx.sweep("byte-length-preserving-wide-character", "a valid 130-digit text (bare and 0x-prefixed) in which a 2-, 3-, 4-byte character, two 2-byte characters or a full-width digit replace as many digits as they have bytes, at every byte offset: refused, never a panic", (132 * 2 * wide.len()) as u64, |i| {
        let w = wide[i as usize % wide.len()]; let pos = (i as usize / wide.len()) % 132; let pre = i as usize / wide.len() / 132 == 1;
        let src = if pre { good.clone() } else { body.to_string() }; if pos + w.len() > src.len() { return; }
        let t = format!("{}{w}{}", &src[..pos], &src[pos + w.len()..]); debug_assert_eq!(t.len(), src.len());
        check_text(ctx, "byte-length-preserving-wide-character", i, &format!("wide-{}-bytes{}", w.len(), if [64usize, 128, 130].iter().any(|b| { let b = b + if pre { 2 } else { 0 }; pos < b && b < pos + w.len() }) { ",across-a-field-boundary" } else { "" }), &t);
    });
    ctx.sweep("v-byte", "every v byte 0..=255 on otherwise valid scalars", 256, |i| {
        let t = format!("0x{}{:02x}", &body[..128], i); check_text(ctx, "v-byte", i, &format!("v={}", if i == 27 || i == 28 { "27-28" } else { "other" }), &t);
    });
    let n = secp::n(); let sc = [("0", U256::ZERO), ("1", U256::ONE), ("half-n", secp::half_n()), ("half-n+1", secp::half_n().adc(&U256::ONE).0), ("n-1", n.sbb(&U256::ONE).0), ("n", n), ("n+1", n.adc(&U256::ONE).0), ("max", U256::from_be(&[0xff; 32]))];
    ctx.sweep("boundary-scalars", "(r, s) over {0, 1, (n-1)/2, (n+1)/2, n-1, n, n+1, 2^256-1}^2 x v in {27, 28} x prefix", (sc.len() * sc.len() * 4) as u64, |i| {
        let (rn, r) = sc[i as usize % sc.len()]; let (sn, s) = sc[i as usize / sc.len() % sc.len()]; let v = i as usize / sc.len() / sc.len();
        let t = format!("{}{}{}{:02x}", if v >= 2 { "0x" } else { "" }, r.to_hex64(), s.to_hex64(), 27 + v % 2);
        let cls = |name: &str| match name { "0" => "zero", "n" | "n+1" | "max" => "ge-n", _ => "in-range" };
        check_text(ctx, "boundary-scalars", i, &format!("r={},s={}", cls(rn), if sn == "half-n+1" || sn == "n-1" { "high" } else { cls(sn) }), &t);
    });
    crate::hist::histories(ctx, P, "signature-histories", "Signature::from_str / Display, a sequence on one fresh thread", crate::hist::c15_ops());
}

//! C11 — chain replay protection (library part: v as an exact integer; the signing guard is checked on the CLI layer).
use crate::txcheck::eth_u256;
use explore::{guard, panic_site, Ctx};
use hdwallet::account::Signature;
use refmodel::nat::Nat;
use refmodel::secp::U256;
use serde_json::json;

const P: &str = "C11";
pub fn chain_ids() -> Vec<(&'static str, Nat)> {
    let cmax = Nat::pow2(255).sub(&Nat::from_u64(19)); // (2^256 - 1 - 36) / 2
    vec![("0", Nat::zero()), ("1", Nat::from_u64(1)), ("2", Nat::from_u64(2)), ("0x7f", Nat::from_u64(0x7f)), ("137", Nat::from_u64(137)), ("2^32", Nat::pow2(32)), ("2^64-1", Nat::pow2(64).sub(&Nat::from_u64(1))), ("2^64", Nat::pow2(64)),
        ("2^128", Nat::pow2(128)), ("2^254", Nat::pow2(254)), ("cmax-1", cmax.sub(&Nat::from_u64(1))), ("cmax", cmax),
        ("(2^8-36)/2", Nat::from_u64(110)), ("(2^8-36)/2+1", Nat::from_u64(111)), ("(2^16-36)/2", Nat::from_u64(32750)), ("(2^16-36)/2+1", Nat::from_u64(32751)), ("(2^32-36)/2", Nat::from_u64(2147483630)), ("(2^32-36)/2+1", Nat::from_u64(2147483631)),
        ("(2^64-36)/2", Nat::pow2(63).sub(&Nat::from_u64(18))), ("(2^64-36)/2+1", Nat::pow2(63).sub(&Nat::from_u64(17))), ("2^63", Nat::pow2(63)), ("(2^128-36)/2+1", Nat::pow2(127).sub(&Nat::from_u64(17)))]
}
pub fn run(ctx: &Ctx) {
    let cs = chain_ids();
    ctx.sweep("v-exact", "Signature::v for chain id in {none, 0, 1, 2, 0x7f, 137, 2^32, 2^64-1, 2^64, 2^128, 2^254, cmax-1, cmax=(2^256-37)/2} x both parities, against arbitrary-precision arithmetic", ((cs.len() + 1) * 2) as u64, |i| {
        let odd = i % 2 == 1; let ci = (i / 2) as usize;
        let (name, c) = if ci == 0 { ("none", None) } else { (cs[ci - 1].0, Some(cs[ci - 1].1.clone())) };
        let want = match &c { None => Nat::from_u64(27 + odd as u64), Some(c) => Nat::from_u64(35 + odd as u64).add(&c.add(c)) };
        let replay = json!({"sweep": "v-exact", "index": i, "entry": "Signature::v", "chain_id": c.as_ref().map(|c| c.to_dec()), "y_parity": odd as u8, "reference_v": want.to_dec()});
        ctx.sample("v-exact", || replay.clone());
        let got = guard(|| { let sig = Signature::from_parts(ethnum::U256::new(1), ethnum::U256::new(2), odd as u8); sig.v(c.as_ref().map(|c| eth_u256(&U256::from_nat(c).unwrap()))).to_be_bytes() });
        match got {
            Err(p) => { ctx.eval(format!("chain={name}:panic")); ctx.panic_violation(format!("{P}:v:chain={name}:panic@{}", panic_site(&p)), format!("v panics: {p}"), replay) }
            Ok(v) => { ctx.eval(format!("chain={name},parity={}", odd as u8)); if Nat::from_be_bytes(&v) != want { ctx.violation(format!("{P}:v:chain={name}:wrong"), format!("v = {} but 35 + 2c + yParity = {}", Nat::from_be_bytes(&v).to_dec(), want.to_dec()), replay) } }
        }
    });
    // a chain id that is supplied is the one that is bound, whatever else the document carries (a left-over v, type, ...)
    crate::txcheck::foreign_members(ctx, P, "foreign-members-c11");
}

//! C06 — signed transactions are the exact typed encodings and recover to the signer.
use crate::txcheck::*;
use explore::{deviations, Ctx};
use refmodel::json::J;
use refmodel::nat::Nat;
use refmodel::secp::{Curve, U256};
use refmodel::tx::{Kind, Tx};
use refmodel::txjson::{self, Spell};
use serde_json::json;
use std::sync::atomic::{AtomicU64, Ordering};

const P: &str = "C06";
pub fn num_alts() -> Vec<Nat> { vec![Nat::zero(), Nat::from_u64(0x7f), Nat::from_u64(0x80), Nat::from_u64(0xff), Nat::from_u64(0x100), Nat::pow2(64), Nat::pow2(255), Nat::pow2(256).sub(&Nat::from_u64(1)),
    // not representable as doubles: 2^53+1, 13.37 ether + 1 wei, 2^64-1
    Nat::from_u64(9007199254740993), Nat::from_u64(13370000000000000001), Nat::from_u64(u64::MAX),
    Nat::from_dec("20000000000000000001").unwrap(), Nat::pow2(64).add(&Nat::from_u64(1)), Nat::from_dec("100000000000000000000001").unwrap()] }
pub fn chain_alts() -> Vec<Nat> { let w = |k: usize, d: i64| { let base = Nat::pow2(k).sub(&Nat::from_u64(36)).divrem_small(2).0; if d >= 0 { base.add(&Nat::from_u64(d as u64)) } else { base.sub(&Nat::from_u64((-d) as u64)) } }; let _ = &w; vec![Nat::zero(), Nat::from_u64(1), Nat::from_u64(0x7f), Nat::from_u64(0x80), Nat::pow2(32), Nat::pow2(64).sub(&Nat::from_u64(1)), Nat::pow2(255).sub(&Nat::from_u64(19)), Nat::pow2(128),
    // (2^k - 36) / 2 and its neighbours: v = 35 + 2c + parity crosses the k-bit boundary (k = 8, 16, 32, 64)
    w(8, 0), w(8, 1), w(16, 0), w(16, 1), w(32, -1), w(32, 0), w(32, 1), w(64, -1), w(64, 0), w(64, 1), w(128, 0), w(128, 1)] }
pub fn data_alts() -> Vec<Vec<u8>> { vec![vec![0], vec![0x7f], vec![0x80], vec![0x55; 55], vec![0x56; 56], (0..1024).map(|i| i as u8).collect()] }
pub fn access_alts() -> Vec<Vec<([u8; 20], Vec<[u8; 32]>)>> {
    let a = [0xc1u8; 20]; let b = [0xc2u8; 20]; let s1 = [0u8; 32]; let mut s2 = [0u8; 32]; s2[31] = 7; let s3 = [0xffu8; 32];
    vec![vec![(a, vec![])], vec![(a, vec![s1])], vec![(a, vec![s1, s2]), (b, vec![])], vec![(a, vec![s1]), (a, vec![s1])], vec![(a, vec![s1, s2]), (b, vec![s3, s1]), ([0u8; 20], vec![s2, s3])]]
}
pub fn keys() -> Vec<U256> { vec![U256::from_hex("4f3edf983ac636a65a842ce7c78d9aa706d3b113bce9c46f30d7d21715b23b1d"), U256::from_be(&[0x46; 32])] }

/// dimension table for a kind: names and number of values (index 0 = template default)
pub fn dims(kind: Kind, with_chain: bool) -> Vec<(&'static str, usize)> {
    let mut d = vec![("nonce", 15), ("gas", 15), ("value", 15), ("to", 4), ("data", 7), ("key", 2), ("tweak", 8), ("spelling", 7)];
    if kind == Kind::Eip1559 { d.push(("maxPriorityFeePerGas", 15)); d.push(("maxFeePerGas", 15)); } else { d.push(("gasPrice", 15)); }
    if with_chain || kind != Kind::Legacy { d.push(("chainId", 9 + 12)); }
    if kind != Kind::Legacy { d.push(("accessList", 6)); }
    d
}
pub fn build(kind: Kind, with_chain: bool, dm: &[(&'static str, usize)], choice: &[usize]) -> (Tx, usize, Spell, String) {
    let mut tx = txjson::template(kind, with_chain); let (mut key, mut spell, mut tweak) = (0, Spell::Auto, 0u64); let mut devs = Vec::new();
    for ((name, _), c) in dm.iter().zip(choice) {
        if *c == 0 { continue; } devs.push(*name);
        let n = || num_alts()[*c - 1].clone();
        match *name {
            "nonce" => tx.nonce = n(), "gas" => tx.gas = n(), "value" => tx.value = n(), "gasPrice" => tx.gas_price = n(), "maxPriorityFeePerGas" => tx.max_priority = n(), "maxFeePerGas" => tx.max_fee = n(),
            "chainId" => tx.chain_id = Some(chain_alts()[*c - 1].clone()),
            "to" => tx.to = match *c { 1 => None, 2 => Some([0u8; 20]), _ => Some([0xff; 20]) },
            "data" => tx.data = data_alts()[*c - 1].clone(),
            "accessList" => tx.access_list = access_alts()[*c - 1].clone(),
            "key" => key = *c, "tweak" => tweak = *c as u64,
            "spelling" => spell = [Spell::Auto, Spell::Dec, Spell::Hex, Spell::HexUpper, Spell::JsonIntIfU64, Spell::FloatIfExact, Spell::JsonInt][*c],
            _ => unreachable!(),
        }
    }
    // the tweak perturbs the gas limit by a small amount so both signature parities are reached without changing the shape
    if tweak > 0 { tx.gas = tx.gas.add(&Nat::from_u64(tweak * 1000)); if tx.gas >= Nat::pow2(256) { tx.gas = Nat::from_u64(tweak * 1000); } }
    (tx, key, spell, if devs.is_empty() { "template".into() } else { devs.join("+") })
}
/// transactions in which two fields coincide
pub fn relations(kind: Kind, with_chain: bool) -> Vec<(String, Tx)> {
    let base = txjson::template(kind, with_chain); let mut out: Vec<(String, Tx)> = Vec::new();
    let nums: Vec<&str> = if kind == Kind::Eip1559 { vec!["nonce", "gas", "value", "maxPriorityFeePerGas", "maxFeePerGas"] } else { vec!["nonce", "gas", "value", "gasPrice"] };
    let get = |t: &Tx, f: &str| -> Nat { match f { "nonce" => t.nonce.clone(), "gas" => t.gas.clone(), "value" => t.value.clone(), "gasPrice" => t.gas_price.clone(), "maxPriorityFeePerGas" => t.max_priority.clone(), _ => t.max_fee.clone() } };
    let set = |t: &mut Tx, f: &str, v: Nat| { match f { "nonce" => t.nonce = v, "gas" => t.gas = v, "value" => t.value = v, "gasPrice" => t.gas_price = v, "maxPriorityFeePerGas" => t.max_priority = v, _ => t.max_fee = v } };
    for f in &nums { for g in &nums { if f != g { let mut t = base.clone(); let v = get(&base, g); set(&mut t, f, v); out.push((format!("numeric-equal:{f}={g}"), t)); } }
        if let Some(c) = &base.chain_id { let mut t = base.clone(); set(&mut t, f, c.clone()); out.push((format!("numeric-equals-chain-id:{f}"), t)); } }
    let to = base.to.unwrap(); let signer = refmodel::eth::address_of_secret(&Curve::new(), &keys()[0]);
    let mut t = base.clone(); t.to = Some(signer); out.push(("recipient-is-signer:".into(), t));
    let mut t = base.clone(); t.data = to.to_vec(); out.push(("calldata-equals-recipient:".into(), t));
    if kind != Kind::Legacy {
        let word = |a: &[u8; 20]| { let mut w = [0u8; 32]; w[12..].copy_from_slice(a); w }; let k1 = [0x11u8; 32]; let k2 = word(&to); let other = [0xc1u8; 20];
        for (who, addr) in [("recipient", to), ("signer", signer), ("zero-address", [0u8; 20])] {
            for (nk, ks) in [(0, vec![]), (1, vec![k1]), (2, vec![k1, k2])] {
                let mut t = base.clone(); t.access_list = vec![(addr, ks.clone())]; out.push((format!("access-list-entry-for-{who}:alone,{nk}-keys"), t));
                let mut t = base.clone(); t.access_list = vec![(addr, ks.clone()), (other, vec![k1])]; out.push((format!("access-list-entry-for-{who}:first,{nk}-keys"), t));
                let mut t = base.clone(); t.access_list = vec![(other, vec![]), (addr, ks.clone())]; out.push((format!("access-list-entry-for-{who}:last,{nk}-keys"), t));
                let mut t = base.clone(); t.access_list = vec![(addr, ks.clone()), (addr, ks.clone())]; out.push((format!("access-list-entry-for-{who}:repeated,{nk}-keys"), t));
            }
        }
        let mut t = base.clone(); t.access_list = vec![(other, vec![k1, k1])]; out.push(("access-list-repeated-key:".into(), t));
        let mut t = base.clone(); let mut vw = [0u8; 32]; vw[31] = 4; t.access_list = vec![(other, vec![vw])]; out.push(("access-list-key-equals-value:".into(), t));
        let mut t = base.clone(); t.data = k1.to_vec(); t.access_list = vec![(other, vec![k1])]; out.push(("calldata-equals-storage-key:".into(), t));
        let mut t = base.clone(); t.to = None; t.access_list = vec![([0u8; 20], vec![])]; out.push(("creation-with-zero-address-entry:".into(), t));
    }
    out
}
pub fn kinds() -> [(Kind, bool, &'static str); 4] { [(Kind::Legacy, false, "legacy-nochain"), (Kind::Legacy, true, "legacy-eip155"), (Kind::Eip2930, true, "eip2930"), (Kind::Eip1559, true, "eip1559")] }

pub fn run(ctx: &Ctx) {
    let curve = Curve::new(); let d = if ctx.quick() { 2 } else { 3 };
    let parity: Vec<[AtomicU64; 2]> = (0..4).map(|_| [AtomicU64::new(0), AtomicU64::new(0)]).collect();
    for (ki, (kind, with_chain, kname)) in kinds().into_iter().enumerate() {
        let dm = dims(kind, with_chain); let choices = deviations(&dm.iter().map(|x| x.1).collect::<Vec<_>>(), d);
        let sweep = format!("fields-{kname}");
        ctx.sweep(&sweep, &format!("{kname}: all assignments with <= {d} deviations from a template with pairwise distinct fields over {} dimensions (numeric boundaries 0,0x7f,0x80,0xff,0x100,2^64,2^255,2^256-1; recipient absent/zero/ff; calldata 1B..1KiB; access-list shapes; 2 keys; 4 spellings)", dm.len()), choices.len() as u64, |i| {
            let (tx, key, spell, devs) = build(kind, with_chain, &dm, &choices[i as usize]);
            let text = txjson::tx_json(&tx, spell).reordered(i % 3).to_text(); // key order rotates with the case index
            // bare JSON integers of 2^64 and more are not a spelling the tool is obliged to read: refused, or read exactly
            let big = Nat::pow2(64); let unconstrained = spell == Spell::JsonInt && [&tx.nonce, &tx.gas, &tx.value, &tx.gas_price, &tx.max_priority, &tx.max_fee].iter().any(|v| **v >= big) || spell == Spell::JsonInt && tx.chain_id.as_ref().map_or(false, |c| *c >= big);
            if unconstrained {
                match observe_tx(&text, &Signer::Key(&keys()[key])) {
                    Err(pn) => { ctx.eval(format!("{kname},bare-big-integers:panic")); ctx.panic_violation(format!("{P}:tx:{kname},bare-big-integers:panic@{}", explore::panic_site(&pn)), format!("panics: {pn}"), tx_replay(&sweep, i, &text, Some(&tx), Some(&keys()[key]))) }
                    Ok(Err(_)) => ctx.eval(format!("{kname},bare-big-integers:refused")),
                    Ok(Ok(o)) => { ctx.eval(format!("{kname},bare-big-integers:accepted")); if let Some((kind, what)) = compare_tx(&curve, &tx, &o, Some(&keys()[key])) { ctx.violation(format!("{P}:tx:{kname},bare-big-integers:{kind}"), format!("a bare JSON integer of 2^64 or more was accepted but not taken at its exact value: {what}"), tx_replay(&sweep, i, &text, Some(&tx), Some(&keys()[key]))) } }
                }
                return;
            }
            if let Some(o) = expect_accept(ctx, P, &sweep, i, &format!("{kname},dev={devs}"), &text, &tx, &keys()[key], &curve) { parity[ki][o.odd as usize].fetch_add(1, Ordering::Relaxed); }
        });
    }
    // kind dispatch: presence matrix of the five keys that decide or accompany the kind
    let flags = ["maxPriorityFeePerGas", "maxFeePerGas", "accessList", "gasPrice", "chainId"];
    ctx.sweep("kind-dispatch", "all 32 presence combinations of maxPriorityFeePerGas / maxFeePerGas / accessList / gasPrice / chainId, to null or absent", 64, |i| {
        let mask = (i % 32) as usize; let has = |k: usize| mask >> k & 1 == 1; let to_null = i >= 32;
        let kind = if has(0) || has(1) { Kind::Eip1559 } else if has(2) { Kind::Eip2930 } else { Kind::Legacy };
        let mut tx = txjson::template(kind, has(4)); if !has(4) { tx.chain_id = None; } tx.to = None;
        let mut f: Vec<(String, J)> = vec![("nonce".into(), J::n("1")), ("gas".into(), J::n("3")), ("value".into(), J::n("4")), ("data".into(), J::s("0x"))];
        if to_null { f.push(("to".into(), J::Null)); }
        let vals = [J::n("6"), J::n("7"), J::Arr(vec![]), J::n("2"), J::n("5")];
        for k in 0..5 { if has(k) { f.push((flags[k].into(), vals[k].clone())); } }
        let text = J::Obj(f).to_text();
        // complete = every field the kind needs is there and no field of another kind is present
        let required = match kind { Kind::Eip1559 => has(0) && has(1) && has(4), Kind::Eip2930 => has(3) && has(4), Kind::Legacy => has(3) };
        let complete = match kind { Kind::Eip1559 => has(0) && has(1) && has(4) && !has(3), Kind::Eip2930 => has(3) && has(4), Kind::Legacy => has(3) };
        let shape = format!("dispatch:{}{}", kind_label(kind), if complete { "" } else { ",incomplete-or-foreign-keys" });
        let replay = tx_replay("kind-dispatch", i, &text, None, None);
        ctx.sample("kind-dispatch", || json!({"json": text, "expected_kind": kind_label(kind), "complete": complete}));
        match observe_tx(&text, &Signer::Key(&keys()[0])) {
            Err(p) => { ctx.eval(format!("{shape}:panic")); ctx.panic_violation(format!("{P}:tx:{shape}:panic@{}", explore::panic_site(&p)), format!("panics: {p}"), replay) }
            Ok(Err(e)) => { ctx.eval(format!("{shape}:rejected")); if complete { ctx.violation(format!("{P}:tx:{shape}:rejected"), format!("complete transaction rejected: {e}"), replay) } }
            Ok(Ok(o)) => { ctx.eval(format!("{shape}:accepted"));
                if o.kind != kind { ctx.violation(format!("{P}:tx:{shape}:wrong-kind"), format!("keys {:?} must make this {}", flags.iter().enumerate().filter(|(k, _)| has(*k)).map(|(_, f)| *f).collect::<Vec<_>>(), kind_label(kind)), replay) }
                else if required { if let Some((k, what)) = compare_tx(&curve, &tx, &o, Some(&keys()[0])) { ctx.violation(format!("{P}:tx:{shape}:{k}"), what, replay) } } }
        }
    });
    for (ki, (_, _, kname)) in kinds().iter().enumerate() { let (a, b) = (parity[ki][0].load(Ordering::Relaxed), parity[ki][1].load(Ordering::Relaxed)); ctx.guard_check(&format!("both parities for {kname}"), a > 0 && b > 0, format!("parity 0: {a}, parity 1: {b}")); }
    crate::hist::histories(ctx, P, "transaction-histories", "Transaction from JSON, signing_message, sign, encode: a sequence on one fresh thread", crate::hist::tx_ops());
    // relations BETWEEN fields: the template keeps all fields pairwise distinct, so what an implementation does when two
    // fields coincide (an access-list entry for the recipient, equal fees, a value equal to the chain id ...) needs its own sweep
    let rel: Vec<(Kind, bool, &'static str, Tx, String)> = kinds().into_iter().flat_map(|(kind, with_chain, kname)| relations(kind, with_chain).into_iter().map(move |(l, t)| (kind, with_chain, kname, t, l))).collect();
    ctx.sweep("field-relations", "per kind: every ordered pair of numeric fields made equal, every numeric field equal to the chain id; access-list entries for the recipient / the signer / the zero address with 0, 1, 2 storage keys, alone, before and after another entry, and repeated; storage keys equal to the recipient word and to the value; calldata equal to the recipient bytes and to a storage key; recipient equal to the signer", rel.len() as u64, |i| {
        let (_, _, kname, tx, label) = &rel[i as usize];
        let text = txjson::tx_json(tx, Spell::Auto).reordered(i % 3).to_text();
        expect_accept(ctx, P, "field-relations", i, &format!("{kname},relation={}", label.split(':').next().unwrap()), &text, tx, &keys()[0], &curve);
    });
    foreign_members(ctx, P, "foreign-members");
    crate::hist::long_runs(ctx, P, "transaction-long-runs", "Transaction from JSON, sign, encode: a long run on one fresh thread", if ctx.quick() { 40 } else { 300 }, crate::hist::c06_nth());
    crate::hist::under_entropy_answers(ctx, P, "transactions-under-entropy-answers", "Transaction from JSON, sign, encode with the entropy source scripted", crate::hist::tx_ops());
    { let l = crate::hist::size_ladder(ctx.thorough()); let l: Vec<usize> = l.into_iter().filter(|n| *n <= if ctx.thorough() { (1 << 22) + 1 } else { (1 << 20) + 100 }).collect(); crate::hist::size_runs(ctx, P, "transaction-size-runs", "Transaction from JSON, sign, encode: calldata sizes across orders of magnitude on one fresh thread", &l, crate::hist::c06_sized(ctx.seed)); }
}
fn kind_label(k: Kind) -> &'static str { match k { Kind::Legacy => "legacy", Kind::Eip2930 => "eip2930", Kind::Eip1559 => "eip1559" } }

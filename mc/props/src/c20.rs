//! C20 — only well-formed EIP-712 domain types are accepted (explicit-state search over member sequences).
use crate::mcutil::{bfs, HistSpace};
use crate::tdcheck::*;
use explore::Ctx;
use refmodel::eip712::{Doc, DOMAIN_FIELDS};
use refmodel::json::J;

const P: &str = "C20";
const FOREIGN: [&str; 3] = ["description", "Name", "chainid"];
const SUBST: [&str; 13] = ["string", "bytes", "bytes32", "bytes31", "uint256", "uint248", "uint8", "int256", "address", "bool", "uint256[]", "string[1]", "Person"];
/// symbol = (name index 0..8, type: 0 = standard / string for foreign, k>0 = SUBST[k-1])
pub type Sym = (u8, u8);
fn name_of(s: &Sym) -> &'static str { if (s.0 as usize) < 5 { DOMAIN_FIELDS[s.0 as usize].0 } else { FOREIGN[s.0 as usize - 5] } }
fn type_of(s: &Sym) -> &'static str { if s.1 > 0 { SUBST[s.1 as usize - 1] } else if (s.0 as usize) < 5 { DOMAIN_FIELDS[s.0 as usize].1 } else { "string" } }
pub fn value_for(ty: &str) -> J {
    match ty { "string" => J::s("x"), "bytes" => J::s("0x1234"), "bytes32" => J::Str(format!("0x{}", "ab".repeat(32))), "bytes31" => J::Str(format!("0x{}", "ab".repeat(31))), "uint256" | "uint248" | "uint8" | "int256" => J::n("1"),
        "address" => J::s("0xcccccccccccccccccccccccccccccccccccccccc"), "bool" => J::Bool(true), "uint256[]" => J::Arr(vec![J::n("1")]), "string[1]" => J::Arr(vec![J::s("x")]), "Person" => J::obj(vec![("name", J::s("p"))]), _ => J::Null }
}
pub fn doc_for(seq: &[Sym]) -> Doc {
    let members: Vec<(String, String)> = seq.iter().map(|s| (name_of(s).to_string(), type_of(s).to_string())).collect();
    // the domain object matches the declared members, so the only possible ground for refusal is the type itself
    let mut dom: Vec<(String, J)> = Vec::new();
    for (n, t) in &members { if !dom.iter().any(|(k, _)| k == n) { dom.push((n.clone(), value_for(t))); } }
    Doc { types: vec![("EIP712Domain".into(), members), ("Person".into(), sv(&[("name", "string")])), ("Msg".into(), sv(&[("x", "uint256")]))], primary: "Msg".into(), domain: J::Obj(dom), message: J::obj(vec![("x", J::n("7"))]) }
}
pub struct Space { depth: usize, max_subst: usize, label: String }
fn shape(seq: &[Sym]) -> String {
    let subst = seq.iter().filter(|s| s.1 > 0 && type_of(s) != if (s.0 as usize) < 5 { DOMAIN_FIELDS[s.0 as usize].1 } else { "string" }).count();
    let foreign = seq.iter().any(|s| s.0 >= 5); let mut names: Vec<u8> = seq.iter().map(|s| s.0).collect(); let sorted = names.windows(2).all(|w| w[0] < w[1]); names.sort(); let dup = names.windows(2).any(|w| w[0] == w[1]);
    format!("len={},{}{}{}{}", seq.len(), if sorted { "ordered" } else { "unordered" }, if dup { ",repeated" } else { "" }, if foreign { ",foreign" } else { "" }, if subst > 0 { ",retyped" } else { "" })
}
impl HistSpace for Space {
    type Sym = Sym;
    fn name(&self) -> String { self.label.clone() }
    fn bound(&self) -> String { format!("every sequence of <= {} domain members over 5 standard + 3 foreign names, with <= {} members carrying one of 13 substituted types", self.depth, self.max_subst) }
    fn roots(&self) -> Vec<Vec<Sym>> { vec![vec![]] }
    fn symbols(&self) -> Vec<Sym> { let mut v: Vec<Sym> = (0..8).map(|n| (n, 0)).collect(); if self.max_subst > 0 { for n in 0..5 { for k in 1..=SUBST.len() as u8 { if SUBST[k as usize - 1] != DOMAIN_FIELDS[n as usize].1 { v.push((n, k)); } } } } v }
    fn max_len(&self) -> usize { self.depth }
    fn enabled(&self, hist: &[Sym], sym: &Sym) -> bool { sym.1 == 0 || hist.iter().filter(|s| s.1 > 0).count() < self.max_subst }
    fn check(&self, ctx: &Ctx, hist: &[Sym], index: u64) { check_doc(ctx, P, &self.label, index, &shape(hist), &doc_for(hist)) }
}
pub fn run(ctx: &'static Ctx) {
    bfs(ctx, Space { depth: 5, max_subst: 0, label: "bfs-standard-types".into() });
    bfs(ctx, Space { depth: if ctx.quick() { 4 } else { 5 }, max_subst: 1, label: "bfs-one-substitution".into() });
    if ctx.thorough() { bfs(ctx, Space { depth: 6, max_subst: 0, label: "bfs-standard-types-depth6".into() }); bfs(ctx, Space { depth: 4, max_subst: 2, label: "bfs-two-substitutions".into() }); }
    // documents without any domain type, and with the domain type but a mismatching domain object
    ctx.sweep("no-domain-type", "document without an EIP712Domain entry (with and without a domain object); empty types", 3, |i| {
        let mut d = doc_for(&[(0, 0)]);
        match i { 0 => d.types.retain(|(n, _)| n != "EIP712Domain"), 1 => { d.types.retain(|(n, _)| n != "EIP712Domain"); d.domain = J::Obj(vec![]); } _ => { d.types.clear(); d.domain = J::Obj(vec![]); } }
        check_doc(ctx, P, "no-domain-type", i, "no-domain-type", &d);
    });
    // ill-formed domain types (and no domain type) combined with an empty or absent domain VALUE: refusal must not hinge on
    // the domain value being there (the CLI layer replays these with and without --message-hash)
    let mut ill: Vec<Vec<Sym>> = vec![vec![]]; { let syms: Vec<Sym> = (0..8u8).map(|n| (n, 0)).chain([(0u8, 2u8), (2, 7), (3, 1)]).collect();
        let mut frontier: Vec<Vec<Sym>> = vec![vec![]]; for _ in 0..3 { let mut next = Vec::new(); for h in &frontier { for s in &syms { let mut n = h.clone(); n.push(*s); next.push(n); } } ill.extend(next.iter().cloned()); frontier = next; } }
    let ill: Vec<Vec<Sym>> = ill.into_iter().filter(|seq| { let d = doc_for(seq); !refmodel::eip712::domain_type_well_formed(d.members("EIP712Domain").unwrap()) }).collect();
    ctx.sweep("ill-formed-type-without-domain-value", "every ill-formed domain type of up to 3 members over 11 symbols x domain value {empty object, key absent, null} (and no domain type at all): refused", (ill.len() * 3) as u64, |i| {
        let seq = &ill[i as usize / 3]; let mode = i % 3; let mut d = doc_for(seq); d.domain = if mode == 2 { J::Null } else { J::Obj(vec![]) };
        let mut text = d.to_json().reordered(i % 2).to_text();
        if mode == 1 { let cut = ["\"domain\":{},", ",\"domain\":{}"]; for c in cut { if text.contains(c) { text = text.replacen(c, "", 1); break; } } }
        check_json(ctx, P, "ill-formed-type-without-domain-value", i, &format!("ill-formed,domain-value={}", ["empty", "absent", "null"][mode as usize]), &text, (refmodel::json::Class::Reject, "malformed EIP712Domain type".into()));
    });
    // member names that contain the syntax of encodeType itself (comma, space, parentheses): a member whose NAME spells
    // "name,string version" makes the type's encoding read like a well-formed selection, but it is one unknown member; also
    // names with stray blanks, empty names, a type written into the name. With a matching key in the domain value.
    let fields = refmodel::eip712::DOMAIN_FIELDS;
    let mut crafted: Vec<(String, String, Vec<(String, String)>)> = Vec::new(); // (label, first member's crafted name, rest of members)
    for i in 0..5 { for j in i + 1..5 { crafted.push(("merges-two".into(), format!("{},{} {}", fields[i].0, fields[j].1, fields[j].0), vec![]));
        for k in j + 1..5 { crafted.push(("merges-three".into(), format!("{},{} {},{} {}", fields[i].0, fields[j].1, fields[j].0, fields[k].1, fields[k].0), vec![])); crafted.push(("merges-two-then-standard".into(), format!("{},{} {}", fields[i].0, fields[j].1, fields[j].0), vec![(fields[k].0.to_string(), fields[k].1.to_string())])); } } }
    for n in ["name)", "(name", "name ", " name", "", "name,", ",name", "string name", "name\u{0}", "name\t", "EIP712Domain(string name", "name)EIP712Domain(string version"] { crafted.push(("stray-syntax".into(), n.to_string(), vec![])); }
    ctx.sweep("member-names-with-encoding-syntax", "domain types whose first member's NAME contains the syntax of encodeType (a comma followed by the type and name of later standard fields, parentheses, blanks, an empty name), alone and followed by a standard field, with the same key in the domain value: one unknown member, refused", crafted.len() as u64, |i| {
        let (label, name, rest) = &crafted[i as usize]; let first_ty = fields.iter().find(|(n, _)| name.starts_with(n)).map(|f| f.1).unwrap_or("string");
        let mut members = vec![(name.clone(), first_ty.to_string())]; members.extend(rest.iter().cloned());
        let mut d = doc_for(&[(0, 0)]);
        for t in d.types.iter_mut() { if t.0 == "EIP712Domain" { t.1 = members.clone(); } }
        d.domain = J::Obj(members.iter().map(|(n, t)| (n.clone(), value_for(t))).collect());
        check_doc(ctx, P, "member-names-with-encoding-syntax", i, &format!("domain-member-name:{label}"), &d);
    });
    // the primary type's graph REFERENCES EIP712Domain (as a member, as an array, through another struct, as the primary type
    // itself): the domain type is a type like any other there - and must still be one of the 31 (a checker that visits every
    // type once must not skip the domain rules because it has "seen" the name already)
    let bad_types: Vec<(&str, Vec<(&str, &str)>)> = vec![("reordered", vec![("chainId", "uint256"), ("name", "string")]), ("unknown-field", vec![("name", "string"), ("description", "string")]), ("wrong-type", vec![("name", "string"), ("chainId", "uint64")]), ("repeated", vec![("name", "string"), ("name", "string")]), ("empty", vec![]), ("well-formed", vec![("name", "string"), ("chainId", "uint256")])];
    let graphs = ["member", "array-member", "through-another-struct", "fixed-array-member", "primary-type-is-the-domain-type"];
    ctx.sweep("domain-type-referenced-by-the-message", "6 domain types (5 ill-formed, 1 well-formed) x 5 ways the primary type's graph reaches EIP712Domain (member, dynamic array, fixed array, through another struct, primary type = EIP712Domain): ill-formed ones refused, the well-formed one hashed per EIP-712", (bad_types.len() * graphs.len()) as u64, |i| {
        let (tname, members) = &bad_types[i as usize / graphs.len()]; let g = graphs[i as usize % graphs.len()];
        let dm = sv(members); let mut seen = std::collections::HashSet::new();
        let dv = J::Obj(dm.iter().filter(|(n, _)| seen.insert(n.clone())).map(|(n, t)| (n.clone(), value_for(t))).collect());
        let (mut types, primary, message): (Vec<(String, Vec<(String, String)>)>, &str, J) = match g {
            "member" => (vec![("Msg".into(), sv(&[("d", "EIP712Domain"), ("x", "uint256")]))], "Msg", J::obj(vec![("d", dv.clone()), ("x", J::n("7"))])),
            "array-member" => (vec![("Msg".into(), sv(&[("ds", "EIP712Domain[]")]))], "Msg", J::obj(vec![("ds", J::Arr(vec![dv.clone(), dv.clone()]))])),
            "fixed-array-member" => (vec![("Msg".into(), sv(&[("ds", "EIP712Domain[1]")]))], "Msg", J::obj(vec![("ds", J::Arr(vec![dv.clone()]))])),
            "through-another-struct" => (vec![("Msg".into(), sv(&[("w", "Wrap")])), ("Wrap".into(), sv(&[("d", "EIP712Domain")]))], "Msg", J::obj(vec![("w", J::obj(vec![("d", dv.clone())]))])),
            _ => (vec![], "EIP712Domain", dv.clone()),
        };
        types.insert(0, ("EIP712Domain".into(), dm));
        let d = Doc { types, primary: primary.into(), domain: dv, message };
        check_doc(ctx, P, "domain-type-referenced-by-the-message", i, &format!("domain-type={tname},reached-by={g}"), &d);
    });
    // the same documents with their string literals written with JSON escapes (\u0075int256 is the string uint256): all 31
    // well-formed selections and the ill-formed ones next to them, three escaping modes - the verdict and the digests of the
    // plain spelling
    let mut esc: Vec<(Vec<(String, String)>, u8)> = Vec::new();
    for mask in 1u32..32 { let m: Vec<(String, String)> = (0..5).filter(|k| mask >> k & 1 == 1).map(|k| (refmodel::eip712::DOMAIN_FIELDS[k].0.to_string(), refmodel::eip712::DOMAIN_FIELDS[k].1.to_string())).collect();
        for mode in 0..3u8 { esc.push((m.clone(), mode)); if m.len() >= 2 { let mut r = m.clone(); r.reverse(); esc.push((r, mode)); } let mut w = m.clone(); w[0].1 = "uint8".into(); esc.push((w, mode)); } }
    ctx.sweep("json-escaped-spellings", "all 31 well-formed domain types, their reversals and a wrongly typed variant, the whole document written with \\uXXXX escapes in its string literals (first character of every literal; every letter and digit; only the values of type / name members): the verdict and digests of the plain spelling", esc.len() as u64, |i| {
        let (members, mode) = &esc[i as usize];
        let dom: Vec<(String, J)> = members.iter().map(|(n, _t)| (n.clone(), value_for(refmodel::eip712::DOMAIN_FIELDS.iter().find(|(fname, _)| fname == n).unwrap().1))).collect();
        let d = Doc { types: vec![("EIP712Domain".into(), members.clone()), ("Msg".into(), sv(&[("x", "uint256"), ("s", "string")]))], primary: "Msg".into(), domain: J::Obj(dom), message: J::obj(vec![("x", J::n("7")), ("s", J::s("text"))]) };
        let text = explore::json_escaped(&d.to_json().reordered(i % 3).to_text(), *mode);
        check_json(ctx, P, "json-escaped-spellings", i, &format!("escaped-mode-{mode}:{}", if refmodel::eip712::domain_type_well_formed(members) { "well-formed" } else { "ill-formed" }), &text, refmodel::eip712::evaluate(&d));
    });
    let wf = ctx.classes_matching(|c| c.ends_with(":accepted")); let rj = ctx.classes_matching(|c| c.ends_with(":rejected"));
    ctx.guard_check("well-formed and malformed domains both seen", wf > 0 && rj > 0, format!("{wf} accepting classes, {rj} rejecting classes"));
    crate::hist::histories(ctx, P, "document-histories-c20", "TypedData from JSON and its three digests, a sequence on one fresh thread", crate::hist::td_ops());
}

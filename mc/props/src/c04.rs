//! C04 — public key and address are the secp256k1 / Keccak-256 images of the secret.
use explore::{filler_bytes, guard, panic_site, Ctx};
use hdwallet::account::PrivateKey;
use refmodel::eth;
use refmodel::nat::Nat;
use refmodel::secp::{self, Curve, U256};
use serde_json::json;

const P: &str = "C04";
pub fn scalars(seed: u64, fillers: usize) -> Vec<(String, U256)> {
    let n = secp::n(); let mut v: Vec<(String, U256)> = Vec::new();
    let sub = |a: &U256, k: u64| a.sbb(&U256::from_u64(k)).0;
    for k in 1..=3u64 { v.push((format!("small"), U256::from_u64(k))); }
    for k in 1..=3u64 { v.push(("n-minus-small".into(), sub(&n, k))); }
    v.push(("half-n".into(), secp::half_n())); v.push(("half-n+1".into(), secp::half_n().adc(&U256::ONE).0));
    for k in 1..256usize { let mut l = [0u64; 4]; l[k / 64] = 1 << (k % 64); v.push(("pow2".into(), U256(l))); v.push(("pow2-1".into(), sub(&U256(l), 1))); }
    v.push(("pattern".into(), U256::from_be(&[1u8; 32])));
    // 32 bytes that happen to be text (ASCII hex digits, decimal digits, base64 alphabet): still just a big-endian integer
    for t in ["0123456789abcdef0123456789abcdef", "000000000000000000000000000000ff", "ABCDEF0123456789ABCDEF0123456789", "12345678901234567890123456789012", "0x00000000000000000000000000000a", "QUJDREVGR0hJSktMTU5PUFFSU1RVVg==", "                                "] { v.push(("ascii-text".into(), U256::from_be(t.as_bytes().try_into().unwrap()))); }
    v.push(("ganache".into(), U256::from_hex("4f3edf983ac636a65a842ce7c78d9aa706d3b113bce9c46f30d7d21715b23b1d")));
    for i in 0..fillers { let b: [u8; 32] = filler_bytes(seed, 0xC04 + i as u64, 32).try_into().unwrap(); let x = U256::from_be(&b); if !x.is_zero() && x < n { v.push(("filler".into(), x)); } }
    v.retain(|(_, x)| !x.is_zero() && *x < n);
    v
}
pub fn run(ctx: &Ctx) {
    let curve = Curve::new();
    let sc = scalars(ctx.seed, if ctx.quick() { 32 } else { 20_000 });
    ctx.sweep("valid-scalars", "boundary scalars (1..3, n-3..n-1, (n+-1)/2, 2^k and 2^k-1 for k=1..255, patterns) and seed-rotated fillers", sc.len() as u64, |i| {
        let (class, d) = &sc[i as usize]; let secret = d.to_be();
        let pt = curve.mul_g(d).unwrap(); let addr = eth::address_of_point(&pt);
        let replay = json!({"sweep": "valid-scalars", "index": i, "entry": "PrivateKey::new", "secret": d.to_hex64(), "reference_address": eth::eip55(&addr)});
        ctx.sample("valid-scalars", || replay.clone());
        match guard(|| PrivateKey::new(secret).map(|k| (k.public().encode_uncompressed(), *k.address(), k.address().to_string(), k.secret()))) {
            Err(p) => { ctx.eval(format!("{class}:panic")); ctx.panic_violation(format!("{P}:new:{class}:panic@{}", panic_site(&p)), format!("panics: {p}"), replay) }
            Ok(Err(e)) => { ctx.eval(format!("{class}:rejected")); ctx.violation(format!("{P}:new:{class}:rejected"), format!("a secret in [1, n-1] is rejected: {e}"), replay) }
            Ok(Ok((pk, a, shown, sec))) => { ctx.eval(format!("{class}:key"));
                if pk != curve.uncompressed(&pt) { ctx.violation(format!("{P}:public:{class}:differs"), format!("public key {} is not 0x04||X||Y of secret*G", explore::hex(&pk)), replay) }
                else if a != addr { ctx.violation(format!("{P}:address:{class}:differs"), format!("address {} is not the last 20 bytes of Keccak-256(X||Y)", explore::hex(&a)), replay) }
                else if shown != eth::eip55(&addr) { ctx.violation(format!("{P}:eip55:{class}:differs"), format!("displayed '{shown}', EIP-55 form is '{}'", eth::eip55(&addr)), replay) }
                else if sec != secret { ctx.violation(format!("{P}:secret:{class}:differs"), "secret() does not return the secret", replay) } }
        }
    });
    // out-of-range 32-byte values and other lengths
    let n = secp::n(); let mut odd: Vec<(String, Vec<u8>, Option<Nat>)> = Vec::new(); // (class, bytes, Some(integer) if UNCONSTRAINED else MUST-REJECT)
    odd.push(("zero".into(), vec![0; 32], None)); odd.push(("n".into(), n.to_be().to_vec(), None)); odd.push(("n+1".into(), n.adc(&U256::ONE).0.to_be().to_vec(), None));
    odd.push(("n+2^128".into(), n.adc(&U256([0, 0, 1, 0])).0.to_be().to_vec(), None)); odd.push(("max".into(), vec![0xff; 32], None));
    let base = U256::from_hex("4f3edf983ac636a65a842ce7c78d9aa706d3b113bce9c46f30d7d21715b23b1d").to_be();
    for len in 0..=64usize { if len == 32 { continue; }
        let mut variants: Vec<Vec<u8>> = vec![vec![0x11; len], vec![0; len]];
        if len < 32 { variants.push(base[32 - len..].to_vec()); } else { let mut p = vec![0u8; len - 32]; p.extend_from_slice(&base); variants.push(p); let mut q = base.to_vec(); q.extend(vec![0u8; len - 32]); variants.push(q); }
        for b in variants { let v = Nat::from_be_bytes(&b); odd.push((format!("len={}", if len < 32 { "short" } else { "long" }), b, Some(v))); }
    }
    // textual encodings of a key presented as bytes: every one has a length other than 32, so it is rejected or the key
    // of the same big-endian integer (which is >= n for all of them) - never the key the text spells
    let kh = "4f3edf983ac636a65a842ce7c78d9aa706d3b113bce9c46f30d7d21715b23b1d";
    for (name, t) in [("hex-lower", kh.to_string()), ("hex-upper", kh.to_uppercase()), ("0x-hex", format!("0x{kh}")), ("0X-hex", format!("0X{}", kh.to_uppercase())), ("hex-newline", format!("{kh}\n")), ("hex-of-1", format!("{:064x}", 1)), ("0x-hex-of-1", format!("0x{:064x}", 1)), ("hex-of-n-1", n.sbb(&U256::ONE).0.to_hex64()),
        ("decimal", U256::from_hex(kh).to_nat().to_dec()), ("decimal-1", "1".to_string()), ("base64", "Tz7fmDrGNqZahCznx42apwbTsRO86cRvMNfSFxWyOx0=".to_string()), ("hex-16-bytes-of-key", kh[..32].to_string()), ("hex-odd", kh[..63].to_string()), ("hex-65", format!("{kh}0")), ("hex-spaces", format!(" {kh} "))] {
        let b = t.into_bytes(); if b.len() == 32 { continue; } let v = Nat::from_be_bytes(&b); odd.push((format!("text-encoding:{name}"), b, Some(v))); }
    ctx.sweep("out-of-range-and-lengths", "32-byte values 0, n, n+1, n+2^128, 2^256-1 (must be rejected); every length 0..=64 except 32 with 3-4 value patterns, and 14 textual encodings of a key (hex, 0x-hex, decimal, base64, ...) presented as bytes (rejected, or the key of the same big-endian integer)", odd.len() as u64, |i| {
        let (class, bytes, unc) = &odd[i as usize];
        let replay = json!({"sweep": "out-of-range-and-lengths", "index": i, "entry": "PrivateKey::new", "secret": explore::hex(bytes)});
        ctx.sample("out-of-range-and-lengths", || replay.clone());
        match guard(|| PrivateKey::new(bytes).map(|k| k.secret())) {
            Err(p) => { ctx.eval(format!("{class}:panic")); ctx.panic_violation(format!("{P}:new:{class}:panic@{}", panic_site(&p)), format!("panics: {p}"), replay) }
            Ok(Err(_)) => ctx.eval(format!("{class}:rejected")),
            Ok(Ok(sec)) => { ctx.eval(format!("{class}:accepted"));
                match unc { None => ctx.violation(format!("{P}:new:{class}:accepted"), "a 32-byte secret that is zero or not below the group order is mapped to a key", replay),
                    Some(v) => { let ok = U256::from_nat(v).map_or(false, |x| !x.is_zero() && x < n && x.to_be() == sec); if !ok { ctx.violation(format!("{P}:new:{class}:different-key"), format!("a {}-byte string is taken as key {} which is not the same big-endian integer", bytes.len(), explore::hex(&sec)), replay) } } } }
        }
    });
    crate::hist::histories(ctx, P, "key-histories", "PrivateKey::new / public / address, a sequence on one fresh thread", crate::hist::c04_ops());
    crate::hist::long_runs(ctx, P, "key-long-runs", "PrivateKey::new / address, a long run on one fresh thread", if ctx.quick() { 40 } else { 300 }, crate::hist::c04_nth());
    crate::hist::under_entropy_answers(ctx, P, "keys-under-entropy-answers", "PrivateKey::new / public / address with the entropy source scripted", crate::hist::c04_ops());
    crate::hist::cross_thread(ctx, P, "keys-across-threads", "PrivateKey / Mnemonic built on one thread and used on another", crate::hist::key_cases(ctx.seed));
}

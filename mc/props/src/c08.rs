//! C08 — EIP-712 digests equal the standard's hashStruct / encodeType definition.
//! Type graphs are explored by explicit-state search (per-struct member lists), values by exhaustive sweeps.
use crate::mcutil::{bfs, HistSpace};
use crate::tdcheck::*;
use explore::Ctx;
use refmodel::eip712::Doc;
use refmodel::json::J;
use refmodel::nat::Nat;

const P: &str = "C08";
/// append to struct `.0` a member referencing struct `.1`; `.2`: 0 = `T[]`, 1 = `T` (only while direct references stay acyclic)
pub type Sym = (u8, u8, u8);
pub struct Space { names: Vec<&'static str>, per_struct: usize, kinds: u8, label: String }
fn lists(names: &[&str], hist: &[Sym]) -> Vec<Vec<(u8, u8)>> { let mut l = vec![Vec::new(); names.len()]; for (s, t, k) in hist { l[*s as usize].push((*t, *k)); } l }
fn direct_cycle(n: usize, l: &[Vec<(u8, u8)>]) -> bool {
    fn reach(l: &[Vec<(u8, u8)>], from: usize, to: usize, seen: &mut Vec<bool>) -> bool { if from == to { return true; } if seen[from] { return false; } seen[from] = true; l[from].iter().any(|(t, k)| *k == 1 && reach(l, *t as usize, to, seen)) }
    (0..n).any(|s| l[s].iter().any(|(t, k)| *k == 1 && reach(l, *t as usize, s, &mut vec![false; n])))
}
fn instance(names: &[&str], l: &[Vec<(u8, u8)>], s: usize, depth: usize, counter: &mut u64) -> J {
    *counter += 1; let mut o = vec![("v".to_string(), J::Num(counter.to_string()))];
    for (mi, (t, k)) in l[s].iter().enumerate() {
        let v = if *k == 1 { instance(names, l, *t as usize, depth + 1, counter) } else if depth < 2 { J::Arr(vec![instance(names, l, *t as usize, depth + 1, counter)]) } else { J::Arr(vec![]) };
        o.push((format!("m{mi}"), v));
    }
    J::Obj(o)
}
pub fn doc_for(names: &[&str], hist: &[Sym]) -> Doc {
    let l = lists(names, hist);
    let mut types = vec![("EIP712Domain".to_string(), sv(&[("name", "string")]))];
    for (si, n) in names.iter().enumerate() {
        let mut m = sv(&[("v", "uint256")]);
        for (mi, (t, k)) in l[si].iter().enumerate() { m.push((format!("m{mi}"), format!("{}{}", names[*t as usize], if *k == 0 { "[]" } else { "" }))); }
        types.push((n.to_string(), m));
    }
    let primary = names.iter().position(|n| *n == "M").unwrap();
    Doc { types, primary: "M".into(), domain: J::obj(vec![("name", J::s("g"))]), message: instance(names, &l, primary, 0, &mut 0) }
}
impl HistSpace for Space {
    type Sym = Sym;
    fn name(&self) -> String { self.label.clone() }
    fn bound(&self) -> String { format!("type graphs over structs {:?} (primary M), every struct with <= {} reference members, each `T[]`{} to any struct; state = per-struct ordered member lists", self.names, self.per_struct, if self.kinds > 1 { " or (while acyclic) `T`" } else { "" }) }
    fn roots(&self) -> Vec<Vec<Sym>> { vec![vec![]] }
    fn symbols(&self) -> Vec<Sym> { let n = self.names.len() as u8; (0..n).flat_map(|s| (0..n).flat_map(move |t| (0..self.kinds).map(move |k| (s, t, k)))).collect() }
    fn max_len(&self) -> usize { self.names.len() * self.per_struct }
    fn enabled(&self, hist: &[Sym], sym: &Sym) -> bool {
        if hist.iter().filter(|h| h.0 == sym.0).count() >= self.per_struct { return false; }
        if sym.2 == 1 { let mut h = hist.to_vec(); h.push(*sym); if direct_cycle(self.names.len(), &lists(&self.names, &h)) { return false; } }
        true
    }
    // the order in which members were appended ACROSS structs is not observable in the document: group by struct, keep order within
    fn canon(&self, mut hist: Vec<Sym>) -> Vec<Sym> { hist.sort_by_key(|h| h.0); hist }
    fn check(&self, ctx: &Ctx, hist: &[Sym], index: u64) {
        let l = lists(&self.names, hist); let pi = self.names.iter().position(|n| *n == "M").unwrap();
        let self_rec = l[pi].iter().any(|(t, _)| *t as usize == pi); let rep = { let mut t: Vec<u8> = l[pi].iter().map(|x| x.0).collect(); t.sort(); t.windows(2).any(|w| w[0] == w[1]) };
        let back = (0..self.names.len()).any(|s| s != pi && l[s].iter().any(|(t, _)| *t as usize == pi));
        let shape = format!("graph:refs-from-primary={}{}{}{}", l[pi].len(), if self_rec { ",self-recursive" } else { "" }, if rep { ",repeated-dependency" } else { "" }, if back { ",refers-back-to-primary" } else { "" });
        check_doc(ctx, P, &self.label, index, &shape, &doc_for(&self.names, hist));
    }
}

fn one_member(ty: &str, v: J, extra: Vec<(String, Vec<(String, String)>)>) -> Doc { let mut t = vec![("Msg".to_string(), sv(&[("x", ty)]))]; t.extend(extra); simple_doc(t, "Msg", J::obj(vec![("x", v)])) }
fn hexs(b: &[u8]) -> J { J::Str(format!("0x{}", explore::hex(b))) }
pub fn value_cases() -> Vec<(String, Doc)> {
    let mut v: Vec<(String, Doc)> = Vec::new();
    let dec = |n: &Nat, neg: bool| J::Str(format!("{}{}", if neg { "-" } else { "" }, n.to_dec())); let hx = |n: &Nat, neg: bool| J::Str(format!("{}0x{}", if neg { "-" } else { "" }, n.to_hex()));
    let jn = |n: &Nat, neg: bool| J::Num(format!("{}{}", if neg { "-" } else { "" }, n.to_dec()));
    for bits in (8..=256).step_by(8) {
        let umax = Nat::pow2(bits).sub(&Nat::from_u64(1));
        for (vn, n) in [("0", Nat::zero()), ("1", Nat::from_u64(1)), ("max", umax.clone()), ("high-bit", Nat::pow2(bits - 1)), ("0xab..", Nat::from_be_bytes(&vec![0xab; bits / 8]))] {
            for (sn, j) in [("json-int", jn(&n, false)), ("dec-string", dec(&n, false)), ("hex-string", hx(&n, false))] { if sn == "json-int" && n >= Nat::pow2(64) { continue; } v.push((format!("uint:{vn}:{sn}"), one_member(&format!("uint{bits}"), j, vec![]))); }
        }
        let imax = Nat::pow2(bits - 1).sub(&Nat::from_u64(1));
        for (vn, n, neg) in [("0", Nat::zero(), false), ("1", Nat::from_u64(1), false), ("-1", Nat::from_u64(1), true), ("max", imax, false), ("min", Nat::pow2(bits - 1), true), ("-0x55..", Nat::from_be_bytes(&vec![0x55; bits / 8]), true)] {
            for (sn, j) in [("json-int", jn(&n, neg)), ("dec-string", dec(&n, neg)), ("hex-string", hx(&n, neg))] { if sn == "json-int" && n >= Nat::pow2(63) { continue; } v.push((format!("int:{vn}:{sn}"), one_member(&format!("int{bits}"), j, vec![]))); }
        }
    }
    for n in 1..=32usize { for (pn, b) in [("zeros", vec![0u8; n]), ("ff", vec![0xff; n]), ("counting", (1..=n as u8).collect::<Vec<u8>>())] { v.push((format!("bytesN:{pn}"), one_member(&format!("bytes{n}"), hexs(&b), vec![]))); } }
    v.push(("bytesN:upper-hex".into(), one_member("bytes4", J::s("0xDEADBEEF"), vec![])));
    for b in [true, false] { v.push(("bool".into(), one_member("bool", J::Bool(b), vec![]))); }
    for a in ["0x0000000000000000000000000000000000000000", "0xffffffffffffffffffffffffffffffffffffffff", "0xCD2a3d9F938E13CD947Ec05AbC7FE734Df8DD826", "0xcd2a3d9f938e13cd947ec05abc7fe734df8dd826"] { v.push(("address".into(), one_member("address", J::s(a), vec![]))); }
    for s in ["", "hello", "h\u{e9}llo \u{1f600}", "line\nbreak\t\"quoted\" \\ back", "\u{0}", "0x1234", "a longer string that exceeds thirty-two bytes in its UTF-8 encoding for sure"] { v.push(("string".into(), one_member("string", J::s(s), vec![]))); }
    for n in [0usize, 1, 31, 32, 33, 100, 136, 137] { v.push(("bytes".into(), one_member("bytes", hexs(&(0..n).map(|i| i as u8 ^ 0x5a).collect::<Vec<u8>>()), vec![]))); }
    // arrays of atoms and of structs
    let s_ty = ("S".to_string(), sv(&[("a", "uint8"), ("b", "string")])); let s_val = |k: u64| J::obj(vec![("a", J::Num(k.to_string())), ("b", J::Str(format!("s{k}")))]);
    let elems: Vec<(&str, Box<dyn Fn(u64) -> J>)> = vec![("uint8", Box::new(|k| J::Num(k.to_string()))), ("int16", Box::new(|k| J::Num(format!("-{k}")))), ("bytes3", Box::new(|k| J::Str(format!("0x0000{:02x}", k)))), ("bool", Box::new(|k| J::Bool(k % 2 == 0))),
        ("address", Box::new(|k| J::Str(format!("0x{:040x}", k)))), ("string", Box::new(|k| J::Str(format!("e{k}")))), ("bytes", Box::new(|k| J::Str(format!("0x{}", "ab".repeat(k as usize))))), ("S", Box::new(s_val))];
    for (et, mk) in &elems {
        let ex = if *et == "S" { vec![s_ty.clone()] } else { vec![] };
        let arr = |n: u64, off: u64| J::Arr((0..n).map(|k| mk(k + off)).collect());
        for n in [0u64, 1, 3] { v.push((format!("array:{et}[]:{n}"), one_member(&format!("{et}[]"), arr(n, 1), ex.clone()))); }
        v.push((format!("array:{et}[2]"), one_member(&format!("{et}[2]"), arr(2, 1), ex.clone()))); v.push((format!("array:{et}[0]"), one_member(&format!("{et}[0]"), arr(0, 0), ex.clone())));
        v.push((format!("array:{et}[][]"), one_member(&format!("{et}[][]"), J::Arr(vec![arr(2, 1), arr(0, 0), arr(1, 5)]), ex.clone())));
        v.push((format!("array:{et}[2][3]"), one_member(&format!("{et}[2][3]"), J::Arr(vec![arr(2, 1), arr(2, 3), arr(2, 5)]), ex.clone())));
        v.push((format!("array:{et}[][2]"), one_member(&format!("{et}[][2]"), J::Arr(vec![arr(3, 1), arr(0, 0)]), ex.clone())));
        v.push((format!("array:{et}[3][]"), one_member(&format!("{et}[3][]"), J::Arr(vec![arr(3, 2)]), ex.clone())));
    }
    for n in [255u64, 256, 257, 1000] { v.push((format!("array:uint8[]:large"), one_member("uint8[]", J::Arr((0..n).map(|k| J::Num((k % 256).to_string())).collect()), vec![]))); v.push(("array:string[]:large".into(), one_member("string[]", J::Arr((0..n).map(|k| J::Str(format!("s{k}"))).collect()), vec![]))); }
    for n in [135usize, 136, 137, 271, 272, 273] { v.push(("string:keccak-rate-boundary".into(), one_member("string", J::Str("x".repeat(n)), vec![]))); }
    for (depth, width) in [(6usize, 2usize), (12, 2), (24, 2), (40, 2), (12, 3)] {
        let mut types = Vec::new();
        for k in 0..depth { let ms: Vec<(String, String)> = (0..width).map(|j| (format!("m{j}"), if k + 1 < depth { format!("L{}[]", k + 1) } else { "uint8[]".to_string() })).collect(); types.push((format!("L{k}"), ms)); }
        v.push(("dependency-ladder".into(), simple_doc(types, "L0", J::Obj((0..width).map(|j| (format!("m{j}"), J::Arr(vec![]))).collect()))));
    }
    // nested structs, member order, empty struct, members of the same struct type in several places
    let nested = simple_doc(vec![("Outer".into(), sv(&[("z", "Inner"), ("a", "Inner[]"), ("n", "uint8"), ("e", "Empty")])), ("Inner".into(), sv(&[("q", "bytes2"), ("deep", "Deep")])), ("Deep".into(), sv(&[("s", "string")])), ("Empty".into(), vec![])], "Outer",
        J::obj(vec![("n", J::n("9")), ("e", J::Obj(vec![])), ("a", J::Arr(vec![J::obj(vec![("deep", J::obj(vec![("s", J::s("x"))])), ("q", J::s("0x0102"))])])), ("z", J::obj(vec![("q", J::s("0xffff")), ("deep", J::obj(vec![("s", J::s(""))]))]))]));
    v.push(("nested:key-order-differs-from-declaration".into(), nested));
    v
}
pub fn run(ctx: &'static Ctx) {
    if ctx.quick() { bfs(ctx, Space { names: vec!["A", "M", "Z"], per_struct: 2, kinds: 2, label: "bfs-graph-3x2".into() }); }
    else {
        bfs(ctx, Space { names: vec!["A", "M", "Z"], per_struct: 2, kinds: 2, label: "bfs-graph-3x2".into() });
        bfs(ctx, Space { names: vec!["A", "M", "Z"], per_struct: 3, kinds: 1, label: "bfs-graph-3x3-arrays".into() });
        bfs(ctx, Space { names: vec!["A", "K", "M", "Z"], per_struct: 2, kinds: 1, label: "bfs-graph-4x2-arrays".into() });
        bfs(ctx, Space { names: vec!["A", "B", "K", "M", "Z"], per_struct: 1, kinds: 2, label: "bfs-graph-5x1".into() });
        bfs(ctx, Space { names: vec!["A", "M"], per_struct: 4, kinds: 2, label: "bfs-graph-2x4".into() });
    }
    let vc = value_cases();
    ctx.sweep("values", "every atomic type (uint/int 8..256, bytes1..32, bool, address, string, bytes) x boundary values x spellings; arrays T[], T[k], T[][], T[2][3], T[][2], T[3][] of 7 atoms and a struct; nested structs", vc.len() as u64, |i| {
        let (shape, doc) = &vc[i as usize]; check_doc(ctx, P, "values", i, shape, doc);
    });
    ctx.guard_check("recursive and repeated dependencies explored", ctx.classes_matching(|c| c.contains("self-recursive")) > 0 && ctx.classes_matching(|c| c.contains("repeated-dependency")) > 0 && ctx.classes_matching(|c| c.contains("refers-back-to-primary")) > 0, "self-recursion, a repeated dependency and mutual recursion through the primary type all occurred");
    // the NAMES of the referenced types: encodeType lists dependencies sorted by name, and the characters an identifier may
    // hold sort on both sides of the delimiters of the encoding ('$' < '(' < ',' < digits < upper case < '_' < lower case):
    // a name that is a proper prefix of another, names differing in case, names starting with '_' or '$'. Sorting rendered
    // definitions, sorting case-insensitively or comparing with a locale gives another order for some pair
    let names = ["Asset", "Asset$Meta", "Asset_Meta", "AssetMeta", "Asset2", "Asset$", "Asset_", "Asse", "asset", "ASSET", "A", "a", "Z", "_", "$", "_Asset", "$Asset", "B", "B0", "B_", "B$", "Ba", "BA", "Asset$2", "Person", "Mail"];
    let primaries = ["Primary", "Asset$M", "B1"]; let nn = names.len();
    ctx.sweep("type-names-in-sorted-order", "a primary type (3 names) referencing two struct types whose names are every ordered pair of 26 identifiers chosen around the sort order of the encoding's delimiters (proper prefixes continued by $ / _ / digit / letter, case variants, leading _ and $): encodeType, typeHash and the digests of the standard; names with $ unconstrained", (nn * nn * primaries.len()) as u64, |i| {
        let a = names[i as usize % nn]; let b = names[(i as usize / nn) % nn]; let pr = primaries[i as usize / (nn * nn)];
        if a == b { ctx.eval("names:same-skipped"); return; }
        let d = simple_doc(vec![(pr.to_string(), sv(&[("x", a), ("y", &format!("{b}[]")), ("n", "uint256")])), (b.to_string(), sv(&[("w", "uint8")])), (a.to_string(), sv(&[("v", "uint256"), ("inner", b)]))], pr,
            J::obj(vec![("x", J::obj(vec![("v", J::n("1")), ("inner", J::obj(vec![("w", J::n("2"))]))])), ("y", J::Arr(vec![J::obj(vec![("w", J::n("3"))])])), ("n", J::n("4"))]));
        let (class, why) = refmodel::eip712::evaluate(&d); let dollar = [a, b, pr].iter().any(|n| n.contains('$'));
        let class = match class { refmodel::json::Class::Accept(x) if dollar => refmodel::json::Class::Unc(x), c => c };
        let rel = if b.starts_with(a) || a.starts_with(b) { "one-name-prefix-of-the-other" } else if a.eq_ignore_ascii_case(b) { "case-variants" } else { "unrelated" };
        crate::tdcheck::check_json(ctx, P, "type-names-in-sorted-order", i, &format!("names:{rel}{}", if dollar { ",dollar" } else { "" }), &d.to_json().reordered(i % 3).to_text(), (class, why));
    });
    // struct types WITHOUT members (Solidity has none, EIP-712's grammar allows them, so acceptance is unconstrained): two or
    // three distinct ones in one document - anything that identifies a type by where its (empty) member list lives, or by its
    // member list at all, takes them for one type
    let empties = ["Ping", "Pong", "Pang"]; let shapes = ["member", "array-of-one", "array-of-two", "inside-a-struct"];
    ctx.sweep("member-less-struct-types", "a primary type with two or three members whose types are every ordered selection of three distinct member-less struct types (and the same one twice), each as a direct member, an array of one / two, or inside another struct: the standard's digests if accepted", (3 * 3 * 3 * shapes.len() * shapes.len()) as u64, |i| {
        let mut x = i as usize; let mut take = |k: usize| { let r = x % k; x /= k; r };
        let (a, b, c) = (empties[take(3)], empties[take(3)], empties[take(3)]); let (sa, sb) = (shapes[take(shapes.len())], shapes[take(shapes.len())]);
        let member = |t: &str, sh: &str| -> (String, J) { match sh { "member" => (t.to_string(), J::obj(vec![])), "array-of-one" => (format!("{t}[]"), J::Arr(vec![J::obj(vec![])])), "array-of-two" => (format!("{t}[2]"), J::Arr(vec![J::obj(vec![]), J::obj(vec![])])), _ => (format!("Box{t}"), J::obj(vec![("inner", J::obj(vec![])), ("n", J::n("1"))])) } };
        let (ta, va) = member(a, sa); let (tb, vb) = member(b, sb); let (tc, vc) = member(c, "member");
        let mut types: Vec<(String, Vec<(String, String)>)> = vec![("Top".into(), sv(&[("first", &ta), ("second", &tb), ("third", &tc), ("n", "uint256")]))];
        for e in empties { types.push((e.to_string(), vec![])); types.push((format!("Box{e}"), sv(&[("inner", e), ("n", "uint256")]))); }
        let d = simple_doc(types, "Top", J::obj(vec![("first", va), ("second", vb), ("third", vc), ("n", J::n("9"))]));
        let (class, why) = refmodel::eip712::evaluate(&d); let class = match class { refmodel::json::Class::Accept(x) => refmodel::json::Class::Unc(x), cl => cl };
        crate::tdcheck::check_json(ctx, P, "member-less-struct-types", i, &format!("empty-structs:distinct={},{sa},{sb}", { let mut v = vec![a, b, c]; v.sort(); v.dedup(); v.len() }), &d.to_json().reordered(i % 3).to_text(), (class, why));
    });
    crate::hist::histories(ctx, P, "document-histories", "TypedData from JSON and its three digests, a sequence on one fresh thread", crate::hist::td_ops());
    crate::tdcheck::value_pairs(ctx, P, "value-pairs");
    crate::hist::long_runs(ctx, P, "document-long-runs", "TypedData from JSON and its digests, a long run on one fresh thread", if ctx.quick() { 40 } else { 300 }, crate::hist::c08_nth());
    crate::hist::under_entropy_answers(ctx, P, "documents-under-entropy-answers", "TypedData digests with the entropy source scripted", crate::hist::td_ops());
    { let l = crate::hist::size_ladder(ctx.thorough()); let l: Vec<usize> = l.into_iter().filter(|n| *n <= if ctx.thorough() { (1 << 22) + 1 } else { (1 << 20) + 100 }).collect(); crate::hist::size_runs(ctx, P, "document-size-runs", "TypedData from JSON and its digests: string / bytes values of sizes across orders of magnitude on one fresh thread", &l, crate::hist::c08_sized(ctx.seed)); }
}

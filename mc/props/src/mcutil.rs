//! Explicit-state search glue: a history space (sequences over a finite alphabet, optionally canonicalised)
//! explored breadth-first by stateright; every state is evaluated on the real implementation.
use explore::Ctx;
use stateright::{Checker, Model, Property};
use std::fmt::Debug;
use std::hash::Hash;
use std::sync::atomic::{AtomicU64, Ordering};

pub trait HistSpace: Send + Sync + 'static {
    type Sym: Clone + Debug + Hash + Eq + Send + Sync + 'static;
    fn name(&self) -> String;
    fn bound(&self) -> String;
    fn roots(&self) -> Vec<Vec<Self::Sym>>;
    fn symbols(&self) -> Vec<Self::Sym>;
    fn max_len(&self) -> usize;
    /// may `sym` be appended to `hist`?
    fn enabled(&self, _hist: &[Self::Sym], _sym: &Self::Sym) -> bool { true }
    /// canonical representative; only merge histories with identical observable futures
    fn canon(&self, hist: Vec<Self::Sym>) -> Vec<Self::Sym> { hist }
    /// the invariant, evaluated on the real code
    fn check(&self, ctx: &Ctx, hist: &[Self::Sym], index: u64);
}
pub struct HistModel<S: HistSpace> { pub space: S, pub ctx: &'static Ctx, pub evals: AtomicU64, syms: Vec<S::Sym>, roots: Vec<Vec<S::Sym>> }

impl<S: HistSpace> HistModel<S> {
    /// mixed-radix number of a history: replayable name of a state
    pub fn index_of(&self, hist: &[S::Sym]) -> u64 {
        let base = self.syms.len() as u64 + 1;
        let (ri, root) = self.roots.iter().enumerate().filter(|(_, r)| hist.starts_with(r)).max_by_key(|(_, r)| r.len()).expect("history has a root");
        let mut k = 0u64;
        for s in hist[root.len()..].iter().rev() { k = k * base + self.syms.iter().position(|x| x == s).unwrap() as u64 + 1; }
        k * self.roots.len() as u64 + ri as u64
    }
    pub fn hist_of(&self, index: u64) -> Vec<S::Sym> {
        let base = self.syms.len() as u64 + 1; let nr = self.roots.len() as u64;
        let mut h = self.roots[(index % nr) as usize].clone(); let mut k = index / nr;
        while k > 0 { h.push(self.syms[(k % base - 1) as usize].clone()); k /= base; }
        h
    }
}
impl<S: HistSpace> Model for HistModel<S> {
    type State = Vec<S::Sym>;
    type Action = S::Sym;
    fn init_states(&self) -> Vec<Self::State> { self.roots.clone() }
    fn actions(&self, state: &Self::State, actions: &mut Vec<Self::Action>) {
        if state.len() >= self.space.max_len() { return; }
        for s in &self.syms { if self.space.enabled(state, s) { actions.push(s.clone()); } }
    }
    fn next_state(&self, last: &Self::State, action: Self::Action) -> Option<Self::State> { let mut n = last.clone(); n.push(action); Some(self.space.canon(n)) }
    fn properties(&self) -> Vec<Property<Self>> {
        vec![Property::always("implementation agrees with the reference model on this state", |m: &HistModel<S>, s: &Vec<S::Sym>| {
            m.evals.fetch_add(1, Ordering::Relaxed);
            let idx = m.index_of(s);
            if let Err(p) = explore::guard(|| m.space.check(m.ctx, s, idx)) { m.ctx.engine_error(format!("harness panic in {} state {:?}: {}", m.space.name(), s, p)); }
            true // violations are recorded in ctx; the search always runs to completion
        })]
    }
}
/// Runs the breadth-first search to completion (or replays the single state named by --only).
pub fn bfs<S: HistSpace>(ctx: &'static Ctx, space: S) {
    let name = space.name(); let bound = space.bound();
    let model = HistModel { syms: space.symbols(), roots: space.roots(), space, ctx, evals: AtomicU64::new(0) };
    if let Some((only, idx)) = &ctx.only {
        if *only == name { let h = model.hist_of(*idx); model.space.check(ctx, &h, *idx); }
        return;
    }
    let threads = ctx.threads;
    let checker = model.checker().threads(threads).spawn_bfs().join();
    let (unique, generated, depth) = (checker.unique_state_count() as u64, checker.state_count() as u64, checker.max_depth());
    let evals = checker.model().evals.load(Ordering::Relaxed);
    ctx.states.fetch_add(unique, Ordering::Relaxed);
    ctx.transitions.fetch_add(generated.saturating_sub(checker.model().roots.len() as u64), Ordering::Relaxed);
    ctx.traces.fetch_add(evals, Ordering::Relaxed);
    ctx.register_sweep(&name, &format!("{bound}; stateright BFS: {unique} unique states, {generated} generated, max depth {depth}"), evals, true);
}

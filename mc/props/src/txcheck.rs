//! Shared observation / comparison of transactions (used by C06, C07, C11, C13, C15).
use explore::{guard, Ctx};
use hdwallet::account::{PrivateKey, Signature};
use hdwallet::transaction::Transaction;
use refmodel::eth;
use refmodel::json::J;
use refmodel::txjson::{self, Spell};
use refmodel::hash::keccak256;
use refmodel::rlp::{self, Item};
use refmodel::secp::{Curve, U256};
use refmodel::tx::{Kind, Tx};
use serde_json::Value;

pub struct TxObs { pub kind: Kind, pub signing_hash: [u8; 32], pub encoded: Vec<u8>, pub r: U256, pub s: U256, pub odd: bool }
pub enum Signer<'a> { Key(&'a U256), Fixed(U256, U256, bool) }

pub fn eth_u256(x: &U256) -> ethnum::U256 { ethnum::U256::from_be_bytes(x.to_be()) }
pub fn observe_tx(text: &str, signer: &Signer) -> Result<Result<TxObs, String>, String> {
    guard(|| {
        let tx = serde_json::from_str::<Transaction>(text).map_err(|e| e.to_string())?;
        let kind = match &tx { Transaction::Legacy(_) => Kind::Legacy, Transaction::Eip2930(_) => Kind::Eip2930, Transaction::Eip1559(_) => Kind::Eip1559 };
        let h = tx.signing_message();
        let sig = match signer { Signer::Key(k) => PrivateKey::new(k.to_be()).expect("valid key").sign(h), Signer::Fixed(r, s, odd) => Signature::from_parts(eth_u256(r), eth_u256(s), *odd as u8) };
        let encoded = tx.encode(sig);
        Ok(TxObs { kind, signing_hash: h.0, encoded, r: U256::from_be(&sig.r().to_be_bytes()), s: U256::from_be(&sig.s().to_be_bytes()), odd: sig.y_parity().as_u8() == 1 })
    })
}
fn kind_name(k: Kind) -> &'static str { match k { Kind::Legacy => "legacy", Kind::Eip2930 => "eip2930", Kind::Eip1559 => "eip1559" } }

/// strict independent decoding of a signed transaction into (type byte, items)
pub fn decode_signed(b: &[u8]) -> Result<(Kind, Vec<Item>), String> {
    let (kind, body) = match b.first() { Some(1) => (Kind::Eip2930, &b[1..]), Some(2) => (Kind::Eip1559, &b[1..]), Some(x) if *x >= 0xc0 => (Kind::Legacy, b), _ => return Err("unknown envelope".into()) };
    match rlp::decode(body) { Ok(Item::List(items)) => Ok((kind, items)), Ok(_) => Err("payload is not a list".into()), Err(e) => Err(format!("not canonical RLP: {e:?}")) }
}
/// Compares an accepted transaction with the reference; returns the first disagreement as (failure kind, text).
pub fn compare_tx(curve: &Curve, want: &Tx, o: &TxObs, signer_key: Option<&U256>) -> Option<(String, String)> {
    if o.kind != want.kind { return Some(("wrong-kind".into(), format!("treated as {} but the JSON keys make it {}", kind_name(o.kind), kind_name(want.kind)))); }
    let pre = want.unsigned_payload();
    if o.signing_hash != keccak256(&pre) { return Some(("signing-hash".into(), format!("digest {} is not Keccak-256 of the unsigned payload {}", explore::hex(&o.signing_hash), explore::hex(&pre[..pre.len().min(200)])))); }
    let signed = want.signed_payload(o.odd, &o.r.to_nat(), &o.s.to_nat());
    if o.encoded != signed { return Some(("encoding".into(), format!("emitted {} but the typed encoding is {}", explore::hex(&o.encoded[..o.encoded.len().min(300)]), explore::hex(&signed[..signed.len().min(300)])))); }
    // independent strict decoding returns every field unchanged
    match decode_signed(&o.encoded) {
        Err(e) => return Some(("not-canonical".into(), e)),
        Ok((k, items)) => {
            let mut exp = want.base_fields(); exp.push(rlp::uint(&want.v(o.odd))); exp.push(rlp::uint(&o.r.to_nat())); exp.push(rlp::uint(&o.s.to_nat()));
            if k != want.kind || items != exp { return Some(("decoded-fields".into(), "an independent decoder does not get the original fields back".into())); }
        }
    }
    if let Some(k) = signer_key {
        let (rr, rs, rodd, _) = curve.sign_rfc6979(k, &keccak256(&pre));
        if (rr, rs, rodd) != (o.r, o.s, o.odd) { return Some(("signature".into(), "signature is not the RFC 6979 signature of the signing digest".into())); }
        let signer = eth::address_of_secret(curve, k);
        match curve.recover(&keccak256(&pre), &o.r, &o.s, o.odd) { Some(pt) if eth::address_of_point(&pt) == signer => {}, _ => return Some(("sender".into(), "the sender recovered from the signed transaction is not the signer".into())) }
    }
    None
}
/// CLI-layer sample of a transaction case: the document, the reference verdict, the reference digest and the reference
/// signed transaction for the ganache account #0 (so that the CLI layer needs no JSON-to-transaction parser of its own)
pub fn emit_tx(ctx: &Ctx, sweep: &str, index: u64, stride: u64, shape: &str, text: &str, want: Option<&Tx>, class: &str, curve: &Curve) {
    if stride == 0 || text.len() > 200_000 { return; }
    ctx.emit_cli(sweep, index, stride, || {
        let key = U256::from_hex("4f3edf983ac636a65a842ce7c78d9aa706d3b113bce9c46f30d7d21715b23b1d");
        let (hash, signed) = match want { Some(t) => { let h = t.signing_hash(); let (r, s, odd, _) = curve.sign_rfc6979(&key, &h); (Some(explore::hex(&h)), Some(explore::hex(&t.signed_payload(odd, &r.to_nat(), &s.to_nat())))) } None => (None, None) };
        serde_json::json!({"kind": "transaction", "shape": shape, "json": text, "class": class, "unsigned_hash": hash, "signed_by_ganache0": signed, "needs_allow": want.map_or(false, |t| t.kind == Kind::Legacy && t.chain_id.is_none())})
    });
}
pub fn tx_replay(sweep: &str, index: u64, text: &str, want: Option<&Tx>, key: Option<&U256>) -> Value {
    serde_json::json!({"sweep": sweep, "index": index, "entry": "serde_json::from_str::<Transaction> + signing_message + encode", "transaction_json": if text.len() > 4000 { format!("{}… ({} bytes)", &text[..4000], text.len()) } else { text.to_string() },
        "reference_unsigned_payload": want.map(|w| { let p = w.unsigned_payload(); explore::hex(&p[..p.len().min(400)]) }), "secret": key.map(|k| k.to_hex64())})
}
/// the usual verdict plumbing for a transaction the reference accepts
pub fn expect_accept(ctx: &Ctx, p: &str, sweep: &str, index: u64, shape: &str, text: &str, want: &Tx, key: &U256, curve: &Curve) -> Option<TxObs> {
    let replay = || tx_replay(sweep, index, text, Some(want), Some(key));
    emit_tx(ctx, sweep, index, if p == "C06" { 3 } else { 0 }, shape, text, Some(want), "must-accept", curve);
    match observe_tx(text, &Signer::Key(key)) {
        Err(pn) => { ctx.eval(format!("{shape}:panic")); ctx.panic_violation(format!("{p}:tx:{shape}:panic@{}", explore::panic_site(&pn)), format!("panics: {pn}"), replay()); None }
        Ok(Err(e)) => { ctx.eval(format!("{shape}:rejected")); ctx.violation(format!("{p}:tx:{shape}:rejected"), format!("a well-formed transaction is rejected: {e}"), replay()); None }
        Ok(Ok(o)) => { ctx.eval(format!("{shape}:parity={}", o.odd as u8));
            if let Some((kind, what)) = compare_tx(curve, want, &o, Some(key)) { ctx.violation(format!("{p}:tx:{shape}:{kind}"), what, replay()); }
            Some(o) }
    }
}

/// one member no property names, added to the template of every kind (see the comment inside)
pub fn foreign_members(ctx: &Ctx, p: &str, sweep: &str) {
    // members the properties do not name, as they appear in transaction objects copied from a node or another tool (v, r, s,
    // type, hash, from, yParity, input, gasLimit ...): the document may be refused, but if it is accepted what is signed is
    // defined by the named fields alone - a left-over `v` or `type` never overrides chainId or the kind
    let curve = Curve::new();
    let extras: Vec<(&str, J)> = vec![("v", J::s("0x25")), ("v", J::s("0x26")), ("v", J::s("0x1b")), ("v", J::n("37")), ("v", J::s("0x0")), ("v", J::Null), ("r", J::s("0x1")), ("s", J::s("0x1")), ("yParity", J::s("0x1")),
        ("type", J::s("0x0")), ("type", J::s("0x1")), ("type", J::s("0x2")), ("type", J::n("2")), ("hash", J::Str(format!("0x{}", "ab".repeat(32)))), ("from", J::Str(format!("0x{}", "cd".repeat(20)))), ("input", J::s("0xdeadbeef")), ("gasLimit", J::s("0x1")),
        ("chain_id", J::n("1")), ("ChainId", J::n("1")), ("chainID", J::n("1")), ("networkId", J::n("1")), ("blockHash", J::Null), ("blockNumber", J::Null), ("transactionIndex", J::Null), ("maxFeePerBlobGas", J::s("0x1")), ("blobVersionedHashes", J::Arr(vec![])), ("authorizationList", J::Arr(vec![])), ("", J::n("1")), ("nonce ", J::n("9"))];
    let ne = extras.len() as u64;
    ctx.sweep(sweep, "per kind: the template plus one member no property names (29 members / values found in node responses and other tools: v, r, s, yParity, type, hash, from, input, gasLimit, other spellings of chainId, block fields, blob / authorization fields), placed first or last: refused, or signed exactly as the named fields say", 4 * ne * 2, |i| {
        let (kind, with_chain, kname) = crate::c06::kinds()[(i / (ne * 2)) as usize]; let (name, val) = &extras[((i / 2) % ne) as usize]; let first = i % 2 == 0;
        // blob / authorization members would make the kind one this tool does not know; with them present nothing is required
        let tx = txjson::template(kind, with_chain); let mut f = txjson::tx_fields(&tx, Spell::Auto);
        if first { f.insert(0, (name.to_string(), val.clone())); } else { f.push((name.to_string(), val.clone())); }
        let text = J::Obj(f).to_text(); let shape = format!("{kname},foreign-member={}", if name.is_empty() { "(empty)" } else { name.trim() });
        let replay = tx_replay(sweep, i, &text, Some(&tx), Some(&crate::c06::keys()[0]));
        ctx.sample(sweep, || replay.clone());
        emit_tx(ctx, sweep, i, 1, &shape, &text, Some(&tx), "unconstrained", &curve);
        match observe_tx(&text, &Signer::Key(&crate::c06::keys()[0])) {
            Err(pn) => { ctx.eval(format!("{shape}:panic")); ctx.panic_violation(format!("{p}:tx:{shape}:panic@{}", explore::panic_site(&pn)), format!("panics: {pn}"), replay) }
            Ok(Err(_)) => ctx.eval(format!("{shape}:refused")),
            Ok(Ok(o)) => { ctx.eval(format!("{shape}:accepted")); if let Some((k, what)) = compare_tx(&curve, &tx, &o, Some(&crate::c06::keys()[0])) { ctx.violation(format!("{p}:tx:{shape}:{k}"), format!("the member {name:?} changed what is signed: {what}"), replay) } }
        }
    });
}

//! Layer L: in-process exploration of the hdwallet library (linked by path from /repo) against the reference model.
use explore::Ctx;
mod c01;
mod c02;
mod c04;
mod c05;
mod c06;
mod c07;
mod c08;
mod c09;
mod c13;
mod txcheck;
mod c10;
mod c11;
mod c12;
mod entropy;
mod c15;
mod c17;
mod c20;
mod tdcheck;
mod c03;
mod c14;
mod mcutil;
mod hist;

fn main() {
    explore::install_panic_hook();
    refmodel::trace::init_from_env();
    let args: Vec<String> = std::env::args().skip(1).collect();
    let id = args.first().cloned().unwrap_or_default();
    if id == "selftest" {
        match refmodel::selftest::run() { Ok(n) => { println!("reference self-test: {n} known answers ok"); return; } Err(e) => { eprintln!("ENGINE-ERROR reference self-test failed: {e}"); std::process::exit(2); } }
    }
    if let Err(e) = refmodel::selftest::run() { eprintln!("ENGINE-ERROR reference self-test failed: {e}"); std::process::exit(2); }
    let mut c = Ctx::from_args(&id, "L", &args[1..]); c.panic_only = id == "C17";
    c.at_exit = refmodel::trace::flush;
    let ctx: &'static Ctx = Box::leak(Box::new(c));
    match id.as_str() {
        "C01" => c01::run(ctx),
        "C02" => c02::run(ctx),
        "C03" => c03::run(ctx),
        "C04" => c04::run(ctx),
        "C05" => c05::run(ctx),
        "C06" => c06::run(ctx),
        "C07" => c07::run(ctx),
        "C08" => c08::run(ctx),
        "C09" => c09::run(ctx),
        "C10" => c10::run(ctx),
        "C11" => c11::run(ctx),
        "C12" => c12::run(ctx),
        "C13" => c13::run(ctx),
        "C15" => c15::run(ctx),
        "C17" => c17::run(ctx),
        "C20" => c20::run(ctx),
        "C14" => c14::run(ctx),
        _ => { eprintln!("unknown property {id}"); std::process::exit(2); }
    }
    ctx.finish_and_exit();
}

//! C07 — every emitted RLP item is canonical and decodes to the original values (driven through transaction encoding).
use crate::txcheck::*;
use explore::{filler_bytes, Ctx};
use refmodel::hash::keccak256;
use refmodel::nat::Nat;
use refmodel::secp::{self, U256};
use refmodel::tx::{Kind, Tx};
use refmodel::txjson::{self, Spell};
use std::sync::Mutex;

const P: &str = "C07";
fn kinds() -> [(Kind, &'static str); 3] { [(Kind::Legacy, "legacy"), (Kind::Eip2930, "eip2930"), (Kind::Eip1559, "eip1559")] }
/// signature scalars of several byte widths, so that r and s cross the integer-width boundaries too
fn sigs() -> Vec<(U256, U256, bool)> {
    let n1 = secp::n().sbb(&U256::ONE).0;
    vec![(U256::from_u64(1), U256::from_u64(1), false), (U256::from_u64(0x7f), U256::from_u64(0x80), true), (U256([0, 0, 0, 1 << 56]), U256([0, 0, 1, 0]), false), (n1, secp::half_n(), true), (U256([0, 0, 0, 0x0080_0000_0000_0000]), U256::from_u64(0xff), false)]
}
pub fn run(ctx: &Ctx) {
    let seen: Mutex<std::collections::HashMap<[u8; 32], [u8; 32]>> = Mutex::new(Default::default()); let dup = std::sync::atomic::AtomicU64::new(0);
    let one = |sweep: &str, i: u64, shape: String, tx: &Tx, sg: &(U256, U256, bool)| {
        // numbers below 2^64 are written as bare JSON integers in every other case (exactly representable as doubles or not)
        let text = txjson::tx_json(tx, if i % 2 == 1 { Spell::JsonIntIfU64 } else { Spell::Auto }).reordered(i % 3).to_text();
        let replay = || tx_replay(sweep, i, &text, Some(tx), None);
        emit_tx(ctx, sweep, i, 4, &shape, &text, Some(tx), "must-accept", &refmodel::secp::Curve::new());
        ctx.sample(sweep, || serde_json::json!({"shape": shape, "json_prefix": &text[..text.len().min(300)]}));
        match observe_tx(&text, &Signer::Fixed(sg.0, sg.1, sg.2)) {
            Err(pn) => { ctx.eval(format!("{shape}:panic")); ctx.panic_violation(format!("{P}:encode:{shape}:panic@{}", explore::panic_site(&pn)), format!("panics: {pn}"), replay()) }
            Ok(Err(e)) => { ctx.eval(format!("{shape}:rejected")); ctx.violation(format!("{P}:encode:{shape}:rejected"), format!("well-formed transaction rejected: {e}"), replay()) }
            Ok(Ok(o)) => { ctx.eval(format!("{shape}:encoded"));
                if let Some((k, what)) = compare_tx(&refmodel::secp::Curve::new(), tx, &o, None) { ctx.violation(format!("{P}:encode:{shape}:{k}"), what, replay()) }
                // distinct transactions never share an encoding: encoding -> the (transaction, signature) it came from
                let who = keccak256(format!("{:?}|{:?}|{:?}|{:?}", tx.kind, tx.chain_id, tx.base_fields(), sg).as_bytes()); // what the transaction IS (kind, chain id, the fields of its kind), independent of JSON key order, spelling and unused fields
                let prev = seen.lock().unwrap().insert(keccak256(&o.encoded), who);
                if prev.map_or(false, |p| p != who) { dup.fetch_add(1, std::sync::atomic::Ordering::Relaxed); ctx.violation(format!("{P}:encode:{shape}:shared-encoding"), "two distinct transactions share an encoding", replay()) } }
        }
    };
    // calldata of every length
    let maxlen = if ctx.quick() { 1100u64 } else { 6000 };
    ctx.sweep("calldata-lengths", "calldata of every length 0..=1100 (thorough: 0..=6000) x 3 kinds (string and enclosing-list headers cross 55/56 and 255/256)", (maxlen + 1) * 3, |i| {
        let (k, name) = kinds()[(i % 3) as usize]; let len = (i / 3) as usize; let mut tx = txjson::template(k, true);
        tx.data = filler_bytes(ctx.seed, 0xC07 + len as u64, len); if len > 0 && tx.data[0] == 0 { tx.data[0] = 1; }
        one("calldata-lengths", i, format!("{name},calldata-len-class={}", match len { 0 => "0", 1 => "1", 2..=55 => "short", 56..=255 => "long1", _ => "long2" }), &tx, &sigs()[(i % 5) as usize]);
    });
    ctx.sweep("calldata-single-byte", "single-byte calldata of every value 0x00..=0xff x 3 kinds", 256 * 3, |i| {
        let (k, name) = kinds()[(i % 3) as usize]; let b = (i / 3) as u8; let mut tx = txjson::template(k, true); tx.data = vec![b];
        one("calldata-single-byte", i, format!("{name},single-byte-{}", if b < 0x80 { "below-0x80" } else { "from-0x80" }), &tx, &sigs()[0]);
    });
    // every numeric field at every byte width with leading byte 01/7f/80/ff
    let fields = ["nonce", "gasPrice", "gas", "value", "chainId", "maxPriorityFeePerGas", "maxFeePerGas"]; let leads: Vec<u8> = if ctx.quick() { vec![0x01, 0x7f, 0x80, 0xff] } else { (1..=255u8).collect() };
    let mut wcases: Vec<(usize, usize, usize, u8, bool)> = Vec::new();
    for (ki, (k, _)) in kinds().iter().enumerate() { for (fi, f) in fields.iter().enumerate() {
        if (*k != Kind::Eip1559 && fi >= 5) || (*k == Kind::Eip1559 && fi == 1) { continue; }
        for w in 1..=32usize { for l in leads.iter().copied() { for tail_ff in [false, true] { if *f == "chainId" && *k == Kind::Legacy && w == 32 && l >= 0x7f { continue; } wcases.push((ki, fi, w, l, tail_ff)); } } } } }
    ctx.sweep("integer-widths", "every numeric field of every kind at every byte width 1..=32 with leading byte 01/7f/80/ff (thorough: every leading byte 01..ff) and an all-zero or all-ff tail (legacy chain ids kept within the range where v fits 256 bits)", wcases.len() as u64, |i| {
        let (ki, fi, w, l, tail_ff) = wcases[i as usize]; let (k, name) = kinds()[ki]; let mut tx = txjson::template(k, true);
        let mut b = vec![if tail_ff { 0xffu8 } else { 0 }; w]; b[0] = l; let v = Nat::from_be_bytes(&b);
        match fields[fi] { "nonce" => tx.nonce = v, "gasPrice" => tx.gas_price = v, "gas" => tx.gas = v, "value" => tx.value = v, "chainId" => tx.chain_id = Some(v), "maxPriorityFeePerGas" => tx.max_priority = v, _ => tx.max_fee = v }
        one("integer-widths", i, format!("{name},{}-width-class={}", fields[fi], match w { 1 => "1", 2..=8 => "2-8", 9..=31 => "9-31", _ => "32" }), &tx, &sigs()[(i % 5) as usize]);
    });
    ctx.sweep("zero-and-small-integers", "every numeric field = 0 and every value 0..=0x81 for the nonce, 3 kinds", 3 * (7 + 0x82), |i| {
        let (k, name) = kinds()[(i % 3) as usize]; let j = (i / 3) as usize; let mut tx = txjson::template(k, true);
        if j < 7 { let z = Nat::zero(); match j { 0 => tx.nonce = z, 1 => tx.gas_price = z, 2 => tx.gas = z, 3 => tx.value = z, 4 => tx.chain_id = Some(z), 5 => tx.max_priority = z, _ => tx.max_fee = z } } else { tx.nonce = Nat::from_u64(j as u64 - 7); }
        one("zero-and-small-integers", i, format!("{name},{}", if j < 7 { "zero-field" } else if j - 7 < 0x80 { "nonce-below-0x80" } else { "nonce-from-0x80" }), &tx, &sigs()[1]);
    });
    // list payload sizes through access lists
    let mut al: Vec<(usize, usize, usize)> = Vec::new(); for ki in 1..3 { for e in 0..=4usize { for s in 0..=9usize { al.push((ki, e, s)); } } }
    ctx.sweep("access-list-sizes", "access lists with 0..=4 entries x 0..=9 storage keys per entry (inner and outer list payloads cross 55/56 and 255/256), 2 typed kinds", al.len() as u64, |i| {
        let (ki, e, s) = al[i as usize]; let (k, name) = kinds()[ki]; let mut tx = txjson::template(k, true);
        tx.access_list = (0..e).map(|a| ([0xd0 + a as u8; 20], (0..s).map(|x| { let mut k = [0u8; 32]; k[31] = x as u8; k[0] = a as u8; k }).collect())).collect();
        one("access-list-sizes", i, format!("{name},entries={e},slots-class={}", match s { 0 => "0", 1 => "1", _ => "many" }), &tx, &sigs()[2]);
    });
    // two items of EQUAL LENGTH in one transaction: calldata exactly as long as the payload of the whole access list, of one
    // entry, of an entry's key list (and one byte off) - a string and a list that need the same length header but for the
    // base byte (anything keyed by the length alone confuses them)
    let mut eq: Vec<(usize, usize, usize, i64, usize)> = Vec::new(); // (kind, entries, keys, delta, which list)
    for ki in 1..3 { for e in 1..=6usize { for s in 0..=5usize { for which in 0..3 { for d in [-1i64, 0, 1] { eq.push((ki, e, s, d, which)); } } } } }
    ctx.sweep("calldata-as-long-as-a-list-of-the-access-list", "typed transactions with 1..=6 access-list entries x 0..=5 storage keys each: calldata of exactly the payload length of {the access list, one entry, one key list} and one byte less / more, 2 typed kinds", eq.len() as u64, |i| {
        let (ki, e, s, d, which) = eq[i as usize]; let (k, name) = kinds()[ki]; let mut tx = txjson::template(k, true);
        tx.access_list = (0..e).map(|a| ([0xd0 + a as u8; 20], (0..s).map(|x| { let mut k = [0u8; 32]; k[31] = x as u8 + 1; k[0] = a as u8 + 1; k }).collect())).collect();
        let hdr = |n: usize| if n < 56 { 1 } else { 1 + (usize::BITS as usize - n.leading_zeros() as usize + 7) / 8 };
        let keys_payload = 33 * s; let entry_payload = 21 + hdr(keys_payload) + keys_payload; let list_payload = e * (hdr(entry_payload) + entry_payload);
        let len = ([list_payload, entry_payload, keys_payload][which] as i64 + d).max(0) as usize;
        tx.data = filler_bytes(ctx.seed, 0xE9 + i, len);
        one("calldata-as-long-as-a-list-of-the-access-list", i, format!("{name},same-length-as={},delta={d},long-form={}", ["access-list", "entry", "key-list"][which], len >= 56), &tx, &sigs()[(i % 5) as usize]);
    });
    // the CORNERS of the width space: every subset of the numeric fields at (nearly) full width at once, the others small. A
    // sweep that widens one field at a time never has four 32-byte quantities in one transaction; anything sized for "a
    // typical head" (a fixed buffer, a one-byte length) is met only in the corners
    let wide = |bytes: usize, tag: u8| { let mut b = vec![0xffu8; bytes]; b[bytes - 1] = tag; Nat::from_be_bytes(&b) };
    ctx.sweep("quantity-width-corners", "3 kinds x every subset of the 6 numeric fields (chain id, nonce, price / priority fee, max fee, gas limit, value) set to 32-byte and to 29-byte values at once, the rest small, 2 signature widths", (3 * 64 * 2) as u64, |i| {
        let (k, name) = kinds()[i as usize % 3]; let mask = (i as usize / 3) % 64; let bytes = if i as usize / 192 == 0 { 32 } else { 29 };
        let mut tx = txjson::template(k, true);
        if mask & 1 != 0 { tx.chain_id = Some(if k == Kind::Legacy { wide(bytes.min(31), 1) } else { wide(bytes, 1) }); } if mask & 2 != 0 { tx.nonce = wide(bytes, 2); } if mask & 4 != 0 { tx.gas_price = wide(bytes, 3); tx.max_priority = wide(bytes, 3); }
        if mask & 8 != 0 { tx.max_fee = wide(bytes, 4); } if mask & 16 != 0 { tx.gas = wide(bytes, 5); } if mask & 32 != 0 { tx.value = wide(bytes, 6); }
        one("quantity-width-corners", i, format!("{name},wide-fields={},width={bytes}", mask.count_ones()), &tx, &sigs()[(i % 5) as usize]);
    });
    // EQUAL elements inside one list: the same address in two entries (adjacent and apart, same and different keys), the same
    // key twice in one entry, the same key under two addresses, an entry equal to the recipient - every element is encoded,
    // in order, as often as it occurs (distinct transactions never share an encoding)
    let a = [0xd1u8; 20]; let b = [0xd2u8; 20]; let k1 = [1u8; 32]; let k2 = [2u8; 32];
    let repeats: Vec<(&str, Vec<([u8; 20], Vec<[u8; 32]>)>)> = vec![("same-entry-twice", vec![(a, vec![k1]), (a, vec![k1])]), ("same-address-other-keys", vec![(a, vec![k1]), (a, vec![k2])]), ("same-address-apart", vec![(a, vec![k1]), (b, vec![k2]), (a, vec![k2])]),
        ("same-address-empty-keys-twice", vec![(a, vec![]), (a, vec![])]), ("same-key-twice-in-an-entry", vec![(a, vec![k1, k1])]), ("same-key-three-times", vec![(a, vec![k1, k2, k1, k1])]), ("same-key-under-two-addresses", vec![(a, vec![k1]), (b, vec![k1])]),
        ("three-equal-entries", vec![(a, vec![k1, k2]), (a, vec![k1, k2]), (a, vec![k1, k2])]), ("entry-with-and-without-keys", vec![(a, vec![]), (a, vec![k1])]),
        // entries for the transaction's own recipient (the template's `to`) and for the zero address
        ("entry-for-the-recipient-no-keys", vec![(txjson::template(Kind::Eip2930, true).to.unwrap(), vec![])]), ("entry-for-the-recipient-first", vec![(txjson::template(Kind::Eip2930, true).to.unwrap(), vec![]), (a, vec![k1])]),
        ("entry-for-the-recipient-last-with-key", vec![(a, vec![]), (txjson::template(Kind::Eip2930, true).to.unwrap(), vec![k1])]), ("entry-for-the-zero-address", vec![([0u8; 20], vec![]), (a, vec![k1])])];
    ctx.sweep("access-list-repeated-elements", "access lists with equal elements (the same address in two or three entries, adjacent and apart; the same storage key twice or three times in an entry; the same key under two addresses), 2 typed kinds: encoded in order as often as they occur", (repeats.len() * 2) as u64, |i| {
        let (label, al) = &repeats[i as usize / 2]; let (k, name) = kinds()[1 + (i % 2) as usize]; let mut tx = txjson::template(k, true); tx.access_list = al.clone();
        one("access-list-repeated-elements", i, format!("{name},repeated={label}"), &tx, &sigs()[2]);
    });
    if ctx.thorough() {
        let big = [65535usize, 65536, 65537, 65536 + 55, (1 << 24) - 1, 1 << 24, (1 << 24) + 1];
        ctx.sweep("calldata-2^16-2^24", "calldata lengths 65535..65537, 65591, 2^24-1..2^24+1 x 3 kinds (3- and 4-byte length prefixes)", (big.len() * 3) as u64, |i| {
            let (k, name) = kinds()[(i % 3) as usize]; let len = big[(i / 3) as usize]; let mut tx = txjson::template(k, true); tx.data = (0..len).map(|x| (x * 7 + 1) as u8).collect();
            one("calldata-2^16-2^24", i, format!("{name},calldata-len={len}"), &tx, &sigs()[3]);
        });
        ctx.sweep("access-list-2^16", "one access-list entry with 1990 storage keys (list payload crosses 2^16), 2 typed kinds", 2, |i| {
            let (k, name) = kinds()[1 + i as usize]; let mut tx = txjson::template(k, true);
            tx.access_list = vec![([0xee; 20], (0..1990u32).map(|x| { let mut k = [0u8; 32]; k[28..].copy_from_slice(&x.to_be_bytes()); k }).collect())];
            one("access-list-2^16", i, format!("{name},slots=1990"), &tx, &sigs()[4]);
        });
    }
    { let l: Vec<usize> = crate::hist::size_ladder(ctx.thorough()).into_iter().filter(|n| *n <= if ctx.thorough() { (1 << 22) + 1 } else { (1 << 20) + 100 }).collect(); crate::hist::size_runs(ctx, P, "encoding-size-runs", "Transaction from JSON, sign, encode: calldata sizes across orders of magnitude on one fresh thread", &l, crate::hist::c06_sized(ctx.seed ^ 7)); }
    ctx.set_extra("distinct_encodings_seen", serde_json::json!(seen.lock().unwrap().len()));
}

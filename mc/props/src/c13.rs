//! C13 — transaction JSON numbers mean exactly the integer written or are rejected.
use crate::txcheck::*;
use explore::Ctx;
use refmodel::eth::{eip55, hex, unhex};
use refmodel::json::{classify_ranged, Class, J};
use refmodel::nat::Nat;
use refmodel::rlp::{self, Item};
use refmodel::secp::U256;
use refmodel::tx::Kind;
use refmodel::txjson::{self, Spell};
use serde_json::json;
use std::collections::HashMap;
use std::sync::Mutex;

const P: &str = "C13";
pub fn literals() -> Vec<J> {
    let mut v: Vec<J> = Vec::new();
    let p = |k: usize| Nat::pow2(k); let m1 = |k: usize| Nat::pow2(k).sub(&Nat::from_u64(1)); let p1 = |k: usize| Nat::pow2(k).add(&Nat::from_u64(1));
    for n in ["0", "1", "255", "9007199254740991", "9007199254740992", "9007199254740993", "18446744073709551615", "18446744073709551616", "340282366920938463463374607431768211456"] { v.push(J::n(n)); }
    // integers that no double represents exactly, in every magnitude class and both notations: taken exactly or refused
    for n in ["9007199254740993.0", "9007199254740993e0", "18446744073709551617", "20000000000000000001", "13370000000000000001", "123456789012345678901234567890", "1e23", "1.234567890123456789e18", "1234567890123456789.0", "18446744073709551615.0", "1.8446744073709551615e19", "340282366920938463463374607431768211457", "99999999999999999999999", "1e22", "115792089237316195423570985008687907853269984665640564039457584007913129639935", "1.157920892373162e77"] { v.push(J::n(n)); }
    // non-integers that ARE doubles, one or two units in the last place away from an integer, and halves near 2^52
    for n in ["1.0000000000000002", "0.9999999999999999", "7.000000000000001", "6.999999999999999", "21000.000000000004", "20999.999999999996", "21000.000000000007", "2251799813685248.5", "4503599627370495.5", "2251799813685247.5", "1125899906842624.25", "2100000.0000000005e-2", "-7.000000000000001", "255.00000000000003", "18014398509481.984"] { v.push(J::n(n)); }
    for n in ["1.0", "1e3", "1E3", "0.1e1", "1e15", "1e16", "1e30", "100e-2", "1.000", "12.5e1", "1e+2", "0.0", "0e0", "-0", "-0.0", "1e77", "1e78", "2e77"] { v.push(J::n(n)); }
    for n in ["-1", "-9223372036854775808", "-9223372036854775809", "-1.0", "-1e3", "-255", "0.5", "1.5", "1e-1", "-0.5", "4503599627370497.3", "1000000000000000.01", "1e-400", "0.1e-5", "123456789012345678901234567890.5", "1e400", "-1e400"] { v.push(J::n(n)); }
    for n in [Nat::zero(), Nat::from_u64(1), p(64), p(255), m1(256), p(256), p1(256), p(300)] { v.push(J::Str(n.to_dec())); v.push(J::Str(format!("0x{}", n.to_hex()))); v.push(J::Str(format!("0x{}", n.to_hex().to_uppercase()))); }
    v.push(J::Num(m1(256).to_dec())); v.push(J::Num(p(256).to_dec()));
    for s in ["", "0x", "-1", "-0x1", "-0", "1.5", "abc", "0xg", "0x-1", "--1", "0x 1", "1,000", "١", "\u{ff11}\u{ff12}", "\u{b2}", "0x\u{ff41}", "\u{2460}", "+1", "01", "0x01", "0x00", "0X1", "0b11", "0o17", " 1", "1 ", "1.0", "1e3", "1_000", "+0x1", "0x0000000000000000000000000000000000000000000000000000000000000000ff"] { v.push(J::s(s)); }
    v.push(J::Null); v.push(J::Bool(true)); v.push(J::Bool(false)); v.push(J::Arr(vec![])); v.push(J::Arr(vec![J::n("1")])); v.push(J::Obj(vec![]));
    v
}
/// Literals enumerated from the JSON number grammar: [-] int [. frac] [e [sign] digits] over small alphabets of each part,
/// and numeric strings: prefix x digits x suffix. Classified by the exact reference; several hundred shapes.
pub fn grammar_literals() -> Vec<J> {
    let mut v: Vec<J> = Vec::new();
    // incl. 15- and 16-digit integers below 2^53: with fraction zeros their digit strings exceed 2^53, where a JSON parser
    // that is not correctly rounding delivers a neighbouring double
    let ints = ["0", "1", "7", "10", "21000", "123456789012345", "999999999999999", "4503599627370497", "9007199254740989", "9007199254740991", "9007199254740992", "9007199254740993", "18446744073709551615", "18446744073709551616"];
    let fracs = ["", ".0", ".00", ".000", ".0000", ".00000000", ".00000000000000000000", ".5", ".50", ".000000000000001", ".0000000000000000000000000000001", ".999999999999999999999"];
    let exps = ["", "e0", "E0", "e1", "e+1", "e-1", "e2", "E-2", "e17", "e22", "e23", "e77", "e78", "e-0", "e+00", "e-400", "e400"];
    for neg in ["", "-"] { for i in ints { for f in fracs { for e in exps { if neg == "-" && !(i == "0" || i == "1" || i == "21000") { continue; } v.push(J::Num(format!("{neg}{i}{f}{e}"))); } } } }
    let pre = ["", "0x", "0X", "+", "-", "+0x", "-0x", "0b", "0o", " ", "00", "0x0"]; let digs = ["0", "1", "10", "ff", "FF", "fF", "123456789", "18446744073709551616", "ffffffffffffffffffffffffffffffffffffffffffffffffffffffffffffffff", "10000000000000000000000000000000000000000000000000000000000000000"]; let suf = ["", " ", ".0", "e1", "_", "n", "\n", "h"];
    for p in pre { for d in digs { for s in suf { v.push(J::Str(format!("{p}{d}{s}"))); } } }
    // a sign, a blank, a separator or a second prefix at EVERY position of a valid spelling (between the radix prefix and
    // the digits, inside the digits, after them): a parser that strips the prefix and hands the rest to a routine with a
    // grammar of its own (optional sign, separators) accepts what is not a number
    for base in ["0x5208", "21000", "0xff", "0x0", "0", "0b11", "0o17", "0X10"] { for ins in ["+", "-", " ", "_", "0x", ".", "\t", "'", ",", "0"] { for pos in 0..=base.len() {
        let t = format!("{}{ins}{}", &base[..pos], &base[pos..]); let j = J::Str(t); if !v.contains(&j) { v.push(j); } } } }
    // characters that BECOME a digit when their code point is cut to one byte (or to seven bits, or to sixteen): U+0131 -> '1',
    // U+0665 -> 'e', U+1F535 -> '5' ... - in place of every character of a valid spelling (a table indexed with `c as u8`)
    for base in ["1", "21000", "0x5208", "0xff", "0b11", "0o17", "+1"] { for (pos, c) in base.char_indices() { for off in [0x80u32, 0x100, 0x600, 0x3000, 0xff00, 0x1_0000, 0x1_f500] {
        if let Some(a) = char::from_u32(c as u32 + off) { let t = format!("{}{a}{}", &base[..pos], &base[pos + 1..]); let j = J::Str(t); if !v.contains(&j) { v.push(j); } } } } }
    v
}
pub fn slots() -> Vec<(Kind, bool, &'static str, usize)> { // (kind, with chain id, field, position in the signed RLP list)
    let mut v = vec![(Kind::Legacy, true, "nonce", 0), (Kind::Legacy, true, "gasPrice", 1), (Kind::Legacy, true, "gas", 2), (Kind::Legacy, true, "value", 4), (Kind::Legacy, true, "chainId", 6), (Kind::Legacy, false, "nonce", 0), (Kind::Legacy, false, "value", 4)];
    for (i, f) in ["chainId", "nonce", "gasPrice", "gas"].iter().enumerate() { v.push((Kind::Eip2930, true, f, i)); } v.push((Kind::Eip2930, true, "value", 5));
    for (i, f) in ["chainId", "nonce", "maxPriorityFeePerGas", "maxFeePerGas", "gas"].iter().enumerate() { v.push((Kind::Eip1559, true, f, i)); } v.push((Kind::Eip1559, true, "value", 6));
    v
}
fn lit_shape(j: &J) -> String {
    // a fraction is a fraction: its sign is not part of the class (a tiny negative fraction is delivered as -0.0)
    match j { J::Num(l) => format!("json-{}{}{}", if l.starts_with('-') && !matches!(refmodel::json::parse_number(l), Some(refmodel::json::NumVal::Frac { .. })) { "negative-" } else { "" }, if l.contains(['.', 'e', 'E']) { "float" } else { "int" }, match refmodel::json::parse_number(l) { Some(refmodel::json::NumVal::Frac { .. }) => format!("-fraction{}", if serde_json::from_str::<f64>(l).map_or(false, |f| f.fract() == 0.0) { "-integral-as-f64" } else { "" }) /* the double the project's JSON parser (serde_json, default features) delivers for the literal */, Some(refmodel::json::NumVal::Int { mag, .. }) => format!("-bits<={}", [53usize, 64, 256, 1000].iter().find(|b| mag < Nat::pow2(**b)).unwrap()), _ => "-huge".into() }),
        J::Str(s) => format!("string-{}", if s.starts_with('-') { "negative" } else if s.starts_with("0x") { "0x" } else if s.bytes().all(|b| b.is_ascii_digit()) && !s.is_empty() { "decimal" } else { "other" }), o => format!("json-{}", o.kind_name()) }
}
pub fn run(ctx: &Ctx) {
    let mut lits = literals(); for g in grammar_literals() { if !lits.contains(&g) { lits.push(g); } } let sl = slots(); let sig = Signer::Fixed(U256::from_u64(1), U256::from_u64(1), false);
    // equal integers must give byte-identical encodings across spellings: (slot, value) -> encoding
    let by_value: Mutex<HashMap<(usize, Nat), Vec<u8>>> = Mutex::new(HashMap::new());
    ctx.sweep("numeric-literals", "every numeric field slot of every kind x the literal alphabet (hand-picked JSON ints/floats/negatives/fractions, decimal/0x strings up to 2^300, malformed strings, wrong JSON kinds, plus ~2 000 literals enumerated from the number grammar [-]int[.frac][e[sign]digits] and from prefix x digits x suffix for strings), one deviating field per document", (sl.len() * lits.len()) as u64, |i| {
        let (kind, wc, field, pos) = sl[i as usize / lits.len()]; let lit = &lits[i as usize % lits.len()];
        let tx = txjson::template(kind, wc); let mut f = txjson::tx_fields(&tx, Spell::Auto); txjson::set(&mut f, field, Some(lit.clone()));
        let text = J::Obj(f).reordered(i % 3).to_text();
        // legacy chainId: null means "no chain id"; chain ids whose v overflows 256 bits are C17's business
        let class: Class<Option<Nat>> = if field == "chainId" && kind == Kind::Legacy && *lit == J::Null { Class::Unc(None) /* null may mean "no chain id" or be refused: only the recipient's null is defined */ } else { classify_ranged(lit, 256, false).map(|v| Some(v.mag)) };
        let class = match class { Class::Accept(Some(v)) | Class::Unc(Some(v)) if field == "chainId" && kind == Kind::Legacy && v > Nat::pow2(255).sub(&Nat::from_u64(19)) => { ctx.eval("legacy-chain-id-beyond-v-range:skipped"); return; } c => c };
        let slot = format!("{}:{field}", match kind { Kind::Legacy => "legacy", Kind::Eip2930 => "eip2930", Kind::Eip1559 => "eip1559" });
        // the violation signature names the literal class; the field slot is part of the observation class and of the message
        let shape = lit_shape(lit);
        let replay = json!({"sweep": "numeric-literals", "index": i, "entry": "serde_json::from_str::<Transaction>", "transaction_json": text, "field": field, "literal": lit.to_text(), "reference": format!("{:?}", class)});
        ctx.sample("numeric-literals", || replay.clone());
        { let mut t = tx.clone(); let v = match &class { Class::Accept(v) | Class::Unc(v) => Some(v.clone()), Class::Reject => None };
          if let Some(v) = &v { match (field, v) { ("chainId", c) => t.chain_id = c.clone(), ("nonce", Some(x)) => t.nonce = x.clone(), ("gasPrice", Some(x)) => t.gas_price = x.clone(), ("gas", Some(x)) => t.gas = x.clone(), ("value", Some(x)) => t.value = x.clone(), ("maxPriorityFeePerGas", Some(x)) => t.max_priority = x.clone(), ("maxFeePerGas", Some(x)) => t.max_fee = x.clone(), _ => {} } }
          emit_tx(ctx, "numeric-literals", i, 13, &shape, &text, if v.is_some() { Some(&t) } else { None }, class.name(), &refmodel::secp::Curve::new()); }
        match observe_tx(&text, &sig) {
            Err(p) => { ctx.eval(format!("{slot}:{shape}:panic")); ctx.panic_violation(format!("{P}:tx:{shape}:panic@{}", explore::panic_site(&p)), format!("{slot}: panics: {p}"), replay) }
            Ok(Err(e)) => { ctx.eval(format!("{slot}:{shape}:rejected")); if let Class::Accept(_) = class { ctx.violation(format!("{P}:tx:{shape}:rejected"), format!("a spelling the tool must read is rejected: {e}"), replay) } }
            Ok(Ok(o)) => {
                let items = match decode_signed(&o.encoded) { Ok((_, it)) => it, Err(e) => { ctx.violation(format!("{P}:tx:{shape}:not-canonical"), e, replay); return; } };
                let got: Option<Nat> = if field == "chainId" && kind == Kind::Legacy { // read the chain id back from v = 35 + 2c + 0 (fixed parity 0) or 27
                    rlp::as_uint(&items[6]).and_then(|v| if v == Nat::from_u64(27) { Some(None) } else { Some(Some(v.sub(&Nat::from_u64(35)).divrem_small(2).0)) }).unwrap_or(None)
                } else { rlp::as_uint(&items[pos]) };
                let shown = got.as_ref().map(|g| g.to_dec());
                ctx.eval(format!("{slot}:{shape}:accepted"));
                match &class {
                    Class::Reject => ctx.violation(format!("{P}:tx:{shape}:accepted"), format!("{slot}: literal {} is not an integer in [0, 2^256) but is accepted as {:?}", lit.to_text(), shown), replay),
                    Class::Accept(v) | Class::Unc(v) => {
                        if got != *v { ctx.violation(format!("{P}:tx:{shape}:other-value"), format!("literal {} was read as {:?}, it denotes {:?}", lit.to_text(), shown, v.as_ref().map(|x| x.to_dec())), replay) }
                        else if let Some(val) = v { let mut m = by_value.lock().unwrap(); let e = m.entry((i as usize / lits.len(), val.clone())).or_insert_with(|| o.encoded.clone()); if *e != o.encoded { ctx.violation(format!("{P}:tx:{shape}:spelling-dependent-encoding"), "two spellings of the same integer give different encodings", replay) } }
                    }
                }
            }
        }
    });
    if ctx.thorough() {
        // two deviating numeric fields at once (legacy with chain id): every pair of fields x a reduced literal alphabet squared
        let few: Vec<J> = lits.iter().filter(|l| matches!(l, J::Num(_)) || matches!(l, J::Str(s) if s.len() < 12)).cloned().collect();
        let fields = [("nonce", 0usize), ("gasPrice", 1), ("gas", 2), ("value", 4)]; let mut pairs = Vec::new(); for a in 0..fields.len() { for b in a + 1..fields.len() { pairs.push((a, b)); } }
        let n = (pairs.len() * few.len() * few.len()) as u64;
        ctx.sweep("numeric-literal-pairs", "legacy transactions with two deviating numeric fields: 6 field pairs x the (short) literal alphabet squared; accepted iff both literals are acceptable, and then both values are read back exactly", n, |i| {
            let (pa, pb) = pairs[i as usize / (few.len() * few.len())]; let la = &few[(i as usize / few.len()) % few.len()]; let lb = &few[i as usize % few.len()];
            let tx = txjson::template(Kind::Legacy, true); let mut f = txjson::tx_fields(&tx, Spell::Auto); txjson::set(&mut f, fields[pa].0, Some(la.clone())); txjson::set(&mut f, fields[pb].0, Some(lb.clone()));
            let text = J::Obj(f).to_text(); let (ca, cb) = (classify_ranged(la, 256, false), classify_ranged(lb, 256, false));
            let replay = json!({"sweep": "numeric-literal-pairs", "index": i, "entry": "serde_json::from_str::<Transaction>", "transaction_json": text});
            let shape = format!("pair:{}+{}", lit_shape(la), lit_shape(lb));
            match observe_tx(&text, &sig) {
                Err(p) => { ctx.eval(format!("{shape}:panic")); ctx.panic_violation(format!("{P}:tx:{shape}:panic@{}", explore::panic_site(&p)), format!("panics: {p}"), replay) }
                Ok(Err(e)) => { ctx.eval("pair:rejected"); if matches!(ca, Class::Accept(_)) && matches!(cb, Class::Accept(_)) { ctx.violation(format!("{P}:tx:{shape}:rejected"), format!("both spellings must be read but the document is rejected: {e}"), replay) } }
                Ok(Ok(o)) => { ctx.eval("pair:accepted");
                    // the signature names the class of the offending literal alone, exactly as the single-field sweep does
                    if ca == Class::Reject || cb == Class::Reject { ctx.violation(format!("{P}:tx:{}:accepted", lit_shape(if ca == Class::Reject { la } else { lb })), format!("{} = {} and {} = {}: at least one is not an integer in range but the document is accepted", fields[pa].0, la.to_text(), fields[pb].0, lb.to_text()), replay); return; }
                    let items = match decode_signed(&o.encoded) { Ok((_, it)) => it, Err(e) => { ctx.violation(format!("{P}:tx:{shape}:not-canonical"), e, replay); return; } };
                    for (pos, c) in [(fields[pa].1, &ca), (fields[pb].1, &cb)] { if let Class::Accept(v) | Class::Unc(v) = c { if rlp::as_uint(&items[pos]) != Some(v.mag.clone()) { ctx.violation(format!("{P}:tx:{shape}:other-value"), "a field was read as another value when two fields deviate", replay.clone()); } } } }
            }
        });
    }
    // byte fields, recipients, storage keys
    let a20 = [0xabu8, 0xcd, 0xef, 0x01, 0x23, 0x45, 0x67, 0x89, 0xab, 0xcd, 0xef, 0x01, 0x23, 0x45, 0x67, 0x89, 0xab, 0xcd, 0xef, 0x01];
    let mixed_wrong: String = { let c = eip55(&a20); c.chars().map(|ch| if ch.is_ascii_lowercase() { ch.to_ascii_uppercase() } else if ch.is_ascii_uppercase() { ch.to_ascii_lowercase() } else { ch }).collect::<String>().replacen("0X", "0x", 1) };
    let k32 = format!("0x{}", "0123456789abcdef".repeat(4));
    #[derive(Clone)] enum B { Data(J, Class<Vec<u8>>), To(J, Class<Option<[u8; 20]>>), Key(J, Class<[u8; 32]>) }
    let mut bc: Vec<(String, B)> = Vec::new();
    for (s, c) in [("0x", Class::Accept(vec![])), ("0x00", Class::Accept(vec![0])), ("0xab", Class::Accept(vec![0xab])), ("0xAB", Class::Accept(vec![0xab])), ("0xaB", Class::Accept(vec![0xab])), ("", Class::Reject), ("00", Class::Reject), ("ab", Class::Reject), ("0x0", Class::Reject), ("0xabc", Class::Reject), ("0xzz", Class::Reject), ("0x 00", Class::Reject), ("0X00", Class::Unc(vec![0])), ("0x0x00", Class::Reject)] { bc.push((format!("data:{s:?}"), B::Data(J::s(s), c))); }
    for j in [J::n("5"), J::Null, J::Bool(false), J::Arr(vec![])] { bc.push((format!("data:json-{}", j.kind_name()), B::Data(j.clone(), if j == J::Null { Class::Unc(vec![]) } else { Class::Reject }))); }
    bc.push(("to:lowercase".into(), B::To(J::Str(format!("0x{}", hex(&a20))), Class::Accept(Some(a20))))); bc.push(("to:eip55".into(), B::To(J::Str(eip55(&a20)), Class::Accept(Some(a20)))));
    bc.push(("to:uppercase".into(), B::To(J::Str(format!("0x{}", hex(&a20).to_uppercase())), Class::Unc(Some(a20))))); bc.push(("to:wrong-checksum-case".into(), B::To(J::Str(mixed_wrong), Class::Unc(Some(a20)))));
    bc.push(("to:no-prefix".into(), B::To(J::Str(hex(&a20)), Class::Unc(Some(a20))))); bc.push(("to:null".into(), B::To(J::Null, Class::Accept(None))));
    for (n, s) in [("19-bytes", format!("0x{}", hex(&a20[1..]))), ("21-bytes", format!("0x00{}", hex(&a20))), ("21-bytes-tail", format!("0x{}00", hex(&a20))), ("empty", String::new()), ("0x-only", "0x".into()), ("odd-digits", format!("0x{}", &hex(&a20)[1..])), ("non-hex", format!("0x{}zz", &hex(&a20)[2..])), ("32-bytes", k32.clone())] { bc.push((format!("to:{n}"), B::To(J::Str(s), Class::Reject))); }
    for j in [J::n("0"), J::Bool(true), J::Arr(vec![])] { bc.push((format!("to:json-{}", j.kind_name()), B::To(j, Class::Reject))); }
    let key_bytes: [u8; 32] = unhex(&k32[2..]).unwrap().try_into().unwrap();
    bc.push(("key:32-bytes".into(), B::Key(J::Str(k32.clone()), Class::Accept(key_bytes)))); bc.push(("key:uppercase".into(), B::Key(J::Str(format!("0x{}", k32[2..].to_uppercase())), Class::Accept(key_bytes))));
    for (n, s) in [("31-bytes", k32[..64].to_string()), ("33-bytes", format!("{k32}00")), ("no-prefix", k32[2..].to_string()), ("empty", String::new()), ("odd", k32[..65].to_string()), ("short-number", "0x1".to_string())] { bc.push((format!("key:{n}"), B::Key(J::Str(s), Class::Reject))); }
    bc.push(("key:json-number".into(), B::Key(J::n("1"), Class::Reject)));
    // a length that is right in BYTES and wrong in characters: a 2-, 3-, 4-byte character in place of as many digits, at every
    // byte offset of a recipient, a storage key and 32 bytes of calldata (a length test on bytes passes; whatever then cuts
    // the text into pairs or at a fixed offset may land inside the character)
    for w in ["\u{e9}", "\u{20ac}", "\u{1f600}"] {
        let a = format!("0x{}", hex(&a20)); for pos in 0..=a.len() - w.len() { bc.push((format!("to:wide-{}-bytes", w.len()), B::To(J::Str(format!("{}{w}{}", &a[..pos], &a[pos + w.len()..])), Class::Reject))); }
        for pos in 0..=k32.len() - w.len() { bc.push((format!("key:wide-{}-bytes", w.len()), B::Key(J::Str(format!("{}{w}{}", &k32[..pos], &k32[pos + w.len()..])), Class::Reject))); bc.push((format!("data:wide-{}-bytes", w.len()), B::Data(J::Str(format!("{}{w}{}", &k32[..pos], &k32[pos + w.len()..])), Class::Reject))); }
    }
    let kinds3 = [(Kind::Legacy, "legacy"), (Kind::Eip2930, "eip2930"), (Kind::Eip1559, "eip1559")];
    ctx.sweep("byte-fields", "calldata / recipient / storage-key spellings (prefix, digit case, odd length, wrong length, wrong JSON kind) x 3 kinds", (bc.len() * 3) as u64, |i| {
        let (kind, kname) = kinds3[(i % 3) as usize]; let (name, b) = &bc[(i / 3) as usize];
        if let B::Key(..) = b { if kind == Kind::Legacy { return; } }
        let mut tx = txjson::template(kind, true); let mut f = txjson::tx_fields(&tx, Spell::Auto);
        let (reject, unc) = match b {
            B::Data(j, c) => { txjson::set(&mut f, "data", Some(j.clone())); match c { Class::Accept(v) => { tx.data = v.clone(); (false, false) } Class::Unc(v) => { tx.data = v.clone(); (false, true) } Class::Reject => (true, false) } }
            B::To(j, c) => { txjson::set(&mut f, "to", Some(j.clone())); match c { Class::Accept(v) => { tx.to = *v; (false, false) } Class::Unc(v) => { tx.to = *v; (false, true) } Class::Reject => (true, false) } }
            B::Key(j, c) => { let al = J::Arr(vec![J::Arr(vec![txjson::addr(&a20), J::Arr(vec![j.clone()])])]); txjson::set(&mut f, "accessList", Some(al)); match c { Class::Accept(v) | Class::Unc(v) => { tx.access_list = vec![(a20, vec![*v])]; (false, false) } Class::Reject => (true, false) } }
        };
        let text = J::Obj(f).to_text(); let shape = format!("{kname}:{name}");
        let replay = tx_replay("byte-fields", i, &text, if reject { None } else { Some(&tx) }, None);
        ctx.sample("byte-fields", || replay.clone());
        match observe_tx(&text, &sig) {
            Err(p) => { ctx.eval(format!("{shape}:panic")); ctx.panic_violation(format!("{P}:tx:{shape}:panic@{}", explore::panic_site(&p)), format!("panics: {p}"), replay) }
            Ok(Err(e)) => { ctx.eval(format!("{shape}:rejected")); if !reject && !unc { ctx.violation(format!("{P}:tx:{shape}:rejected"), format!("well-formed byte field rejected: {e}"), replay) } }
            Ok(Ok(o)) => { ctx.eval(format!("{shape}:accepted"));
                if reject { ctx.violation(format!("{P}:tx:{shape}:accepted"), "a malformed byte field / address / storage key is accepted", replay) }
                else if let Some((k, what)) = compare_tx(&refmodel::secp::Curve::new(), &tx, &o, None) { ctx.violation(format!("{P}:tx:{shape}:{k}"), what, replay) } }
        }
        let _ = Item::Bytes(vec![]);
    });
    ctx.guard_check("accepting and rejecting literals seen", ctx.classes_matching(|c| c.ends_with(":accepted")) > 20 && ctx.classes_matching(|c| c.ends_with(":rejected")) > 20, "both outcomes occurred for many classes");
    // a field that belongs to ANOTHER kind than the rest of the document, holding a literal that is not a number: the keys that
    // are present decide the kind (a fee-market field makes it EIP-1559, an access list EIP-2930), so the document is of that
    // kind with an invalid value and must be refused - it must not be read as the lesser kind with the bad field ignored
    // (fractions below double resolution are the known finding of the literal sweep and are left to it)
    let invalid: Vec<J> = lits.iter().filter(|l| matches!(classify_ranged(l, 256, false), Class::Reject) && **l != J::Null && !lit_shape(l).contains("fraction-integral-as-f64")).cloned().collect();
    let hosts: Vec<(&str, Kind, Vec<&str>)> = vec![("legacy+maxFeePerGas", Kind::Legacy, vec!["maxFeePerGas"]), ("legacy+maxPriorityFeePerGas", Kind::Legacy, vec!["maxPriorityFeePerGas"]), ("legacy+both-fee-fields", Kind::Legacy, vec!["maxFeePerGas", "maxPriorityFeePerGas"]),
        ("eip2930+maxFeePerGas", Kind::Eip2930, vec!["maxFeePerGas"]), ("eip2930+both-fee-fields", Kind::Eip2930, vec!["maxFeePerGas", "maxPriorityFeePerGas"]), ("legacy-nochain+maxFeePerGas", Kind::Legacy, vec!["maxFeePerGas"])];
    ctx.sweep("invalid-literal-in-a-field-of-another-kind", "complete legacy / EIP-2930 documents (with gasPrice) plus one or both fee-market fields holding each literal that is not an integer in range (negative, fractional, >= 2^256, empty, malformed, wrong JSON kind): refused, never read as the lesser kind", (hosts.len() * invalid.len()) as u64, |i| {
        let (hname, kind, extra) = &hosts[i as usize / invalid.len()]; let lit = &invalid[i as usize % invalid.len()];
        let tx = txjson::template(*kind, !hname.contains("nochain")); let mut f = txjson::tx_fields(&tx, Spell::Auto);
        for k in extra { f.push((k.to_string(), lit.clone())); }
        let text = J::Obj(f).reordered(i % 3).to_text(); let shape = format!("{hname}:{}", lit_shape(lit));
        let replay = json!({"sweep": "invalid-literal-in-a-field-of-another-kind", "index": i, "entry": "serde_json::from_str::<Transaction>", "transaction_json": text, "literal": lit.to_text()});
        ctx.sample("invalid-literal-in-a-field-of-another-kind", || replay.clone());
        emit_tx(ctx, "invalid-literal-in-a-field-of-another-kind", i, 7, &shape, &text, None, "must-reject", &refmodel::secp::Curve::new());
        match observe_tx(&text, &sig) {
            Err(p) => { ctx.eval(format!("{shape}:panic")); ctx.panic_violation(format!("{P}:tx:{shape}:panic@{}", explore::panic_site(&p)), format!("panics: {p}"), replay) }
            Ok(Err(_)) => ctx.eval(format!("{shape}:rejected")),
            Ok(Ok(o)) => { ctx.eval(format!("{shape}:accepted")); ctx.violation(format!("{P}:tx:{hname}:{}:accepted", lit_shape(lit)), format!("the document has a fee-market field, which makes it EIP-1559, holding {} - it was accepted (as kind {:?}) with the field ignored", lit.to_text(), o.kind), replay) }
        }
    });
    // size x defect: calldata of around 2^k digits (k = 10..=17) whose ONLY defect is at the very end - an odd number of digits,
    // a non-hex last digit, a blank after the last digit - and the same sizes without defect (block-wise decoders)
    let sizes: Vec<usize> = (10..=17u32).flat_map(|k| [(1usize << k) - 2, 1 << k, (1 << k) + 2]).collect();
    let defects = ["none", "odd-one-more-digit", "odd-one-less-digit", "last-digit-not-hex", "blank-after-last-digit", "blank-before-last-digit"];
    ctx.sweep("large-byte-field-defect-at-the-end", "calldata of 2^k - 2, 2^k, 2^k + 2 hex digits for k = 10..=17 x {no defect, one digit more, one digit less, a non-hex last digit, a blank after / before the last digit}: taken exactly, or (defect) refused", (sizes.len() * defects.len()) as u64, |i| {
        let n = sizes[i as usize / defects.len()]; let d = defects[i as usize % defects.len()];
        let mut digits: String = (0..n).map(|x| char::from_digit(((x * 7 + 3) % 16) as u32, 16).unwrap()).collect();
        match d { "odd-one-more-digit" => digits.push('a'), "odd-one-less-digit" => { digits.pop(); } "last-digit-not-hex" => { digits.pop(); digits.push('g'); } "blank-after-last-digit" => digits.push(' '), "blank-before-last-digit" => { let c = digits.pop().unwrap(); digits.push(' '); digits.push(c); } _ => {} }
        let mut tx = txjson::template(Kind::Eip1559, true); let mut f = txjson::tx_fields(&tx, Spell::Auto); txjson::set(&mut f, "data", Some(J::Str(format!("0x{digits}"))));
        let text = J::Obj(f).to_text(); let shape = format!("calldata-digits~2^{},{d}", (n as f64).log2().round() as u32);
        let replay = json!({"sweep": "large-byte-field-defect-at-the-end", "index": i, "entry": "serde_json::from_str::<Transaction>", "digits": n, "defect": d});
        ctx.sample("large-byte-field-defect-at-the-end", || replay.clone());
        if d == "none" { tx.data = unhex(&digits).unwrap(); }
        emit_tx(ctx, "large-byte-field-defect-at-the-end", i, 5, &shape, &text, if d == "none" { Some(&tx) } else { None }, if d == "none" { "must-accept" } else { "must-reject" }, &refmodel::secp::Curve::new());
        match observe_tx(&text, &sig) {
            Err(p) => { ctx.eval(format!("{shape}:panic")); ctx.panic_violation(format!("{P}:tx:{shape}:panic@{}", explore::panic_site(&p)), format!("panics: {p}"), replay) }
            Ok(Err(e)) => { ctx.eval(format!("{shape}:rejected")); if d == "none" { ctx.violation(format!("{P}:tx:calldata-large,{d}:rejected"), format!("well-formed calldata of {n} digits is rejected: {e}"), replay) } }
            Ok(Ok(o)) => { ctx.eval(format!("{shape}:accepted"));
                if d != "none" { ctx.violation(format!("{P}:tx:calldata-large,{d}:accepted"), format!("calldata of about {n} digits with the defect '{d}' at its end is accepted"), replay) }
                else if let Some((k, what)) = compare_tx(&refmodel::secp::Curve::new(), &tx, &o, None) { ctx.violation(format!("{P}:tx:calldata-large,none:{k}"), what, replay) } }
        }
    });
}

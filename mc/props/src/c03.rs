//! C03 — derived keys equal BIP-32 CKDpriv along the whole path (explicit-state search over path prefixes).
use crate::mcutil::{bfs, HistSpace};
use explore::{filler_bytes, guard, panic_site, Ctx};
use hdwallet::hdk;
use refmodel::bip32::{self, XKey};
use refmodel::grammar::{path_text, HARD};
use refmodel::secp::Curve;
use serde_json::json;
use std::collections::HashMap;
use std::sync::Mutex;

const P: &str = "C03";
#[derive(Clone, Debug, Hash, PartialEq, Eq)]
pub enum Sym { Seed(u8), Idx(u32) }

pub fn seeds(seed: u64) -> Vec<Vec<u8>> { [16usize, 32, 64, 1, 128].iter().enumerate().map(|(i, l)| filler_bytes(seed, 0xC03 + i as u64, *l)).collect() }
pub const VALUES: [u32; 11] = [0, 1, 2, 44, 60, 0x01020304, 0x7fff_ffff, 0xff, 0x100, 0xffff, 0x0100_0000];

pub struct Space { seeds: Vec<Vec<u8>>, values: Vec<u32>, depth: usize, label: String, memo: Mutex<HashMap<(u8, Vec<u32>), Option<XKey>>>, curve: Curve }
impl Space {
    fn reference(&self, s: u8, path: &[u32]) -> Option<XKey> {
        if let Some(v) = self.memo.lock().unwrap().get(&(s, path.to_vec())) { return v.clone(); }
        let v = match path.split_last() {
            None => bip32::master(&self.seeds[s as usize]),
            // one CKD step from the memoised parent: the model steps incrementally, the implementation re-derives from the root
            Some((last, parent)) => self.reference(s, parent).and_then(|pk| bip32::ckd(&self.curve, &pk, *last)),
        };
        self.memo.lock().unwrap().insert((s, path.to_vec()), v.clone());
        v
    }
}
fn idx_class(i: u32) -> &'static str { match i & !HARD { 0..=99 => "small", 0x7fff_ffff => "max", _ => "wide" } }

pub fn check_path(ctx: &Ctx, sp: &Space, sweep: &str, index: u64, s: u8, path: &[u32]) {
    let text = path_text(path); let seed = &sp.seeds[s as usize];
    let want = sp.reference(s, path);
    let got = guard(|| text.parse::<hdk::Path>().map_err(|e| format!("path rejected: {e}")).and_then(|p| hdk::derive(seed, &p).map(|k| k.secret()).map_err(|e| format!("derive failed: {e}"))));
    let last = *path.last().unwrap();
    let shape = format!("depth={},last={}-{},seedlen={}", path.len().min(9), if last & HARD != 0 { "hardened" } else { "normal" }, idx_class(last), seed.len());
    let replay = json!({"sweep": sweep, "index": index, "entry": "hdk::derive", "seed_hex": explore::hex(seed), "path": text, "reference_key": want.as_ref().map(|x| x.k.to_hex64())});
    ctx.sample(sweep, || replay.clone());
    match (got, want) {
        (Err(p), _) => { ctx.eval(format!("{shape}:panic")); ctx.panic_violation(format!("{P}:derive:{shape}:panic@{}", panic_site(&p)), format!("derivation panics: {p}"), replay) }
        (Ok(Ok(k)), Some(w)) => { ctx.eval(format!("{shape}:key")); if k != w.k.to_be() { ctx.violation(format!("{P}:derive:{shape}:wrong-key"), format!("derived key {} differs from BIP-32 CKDpriv {}", explore::hex(&k), w.k.to_hex64()), replay) } }
        (Ok(Err(e)), Some(_)) => { ctx.eval(format!("{shape}:error")); ctx.violation(format!("{P}:derive:{shape}:error"), format!("derivation fails where BIP-32 defines a key: {e}"), replay) }
        (Ok(Ok(k)), None) => { ctx.eval(format!("{shape}:key-where-invalid")); ctx.violation(format!("{P}:derive:{shape}:key-where-invalid"), format!("BIP-32 declares this child invalid but a key {} is returned", explore::hex(&k)), replay) }
        (Ok(Err(_)), None) => ctx.eval(format!("{shape}:invalid-child-error")),
    }
}
impl HistSpace for Space {
    type Sym = Sym;
    fn name(&self) -> String { self.label.clone() }
    fn bound(&self) -> String { format!("{} seeds x all paths of depth <= {} over {} index values x {{normal, hardened}}", self.seeds.len(), self.depth, self.values.len()) }
    fn roots(&self) -> Vec<Vec<Sym>> { (0..self.seeds.len()).map(|i| vec![Sym::Seed(i as u8)]).collect() }
    fn symbols(&self) -> Vec<Sym> { self.values.iter().flat_map(|v| [Sym::Idx(*v), Sym::Idx(*v | HARD)]).collect() }
    fn max_len(&self) -> usize { self.depth + 1 }
    fn check(&self, ctx: &Ctx, hist: &[Sym], index: u64) {
        let s = match hist[0] { Sym::Seed(s) => s, _ => unreachable!() };
        let path: Vec<u32> = hist[1..].iter().map(|x| match x { Sym::Idx(i) => *i, _ => unreachable!() }).collect();
        if path.is_empty() { return; } // the bare root has no textual path in this API
        check_path(ctx, self, &self.label, index, s, &path);
    }
}
fn space(ctx: &Ctx, values: &[u32], depth: usize, label: &str) -> Space { Space { seeds: seeds(ctx.seed), values: values.to_vec(), depth, label: label.into(), memo: Default::default(), curve: Curve::new() } }

pub fn run(ctx: &'static Ctx) {
    bfs(ctx, space(ctx, &VALUES, 2, "bfs-full-alphabet"));
    if ctx.thorough() { bfs(ctx, space(ctx, &VALUES[..7], 3, "bfs-seven-values-depth3")); }
    if ctx.thorough() { bfs(ctx, space(ctx, &[0, 0x7fff_ffff], 7, "bfs-extremes-deep")); bfs(ctx, space(ctx, &[0, 1, 0x01020304, 0x7fff_ffff], 4, "bfs-four-values-depth4")); }
    // lines: long paths of 0' with at most d deviating components
    let (maxd, dev) = if ctx.quick() { (16usize, 1usize) } else { (24, 2) };
    let sp = space(ctx, &VALUES, maxd, "lines");
    let syms: Vec<u32> = VALUES.iter().flat_map(|v| [*v, *v | HARD]).filter(|v| *v != HARD).collect();
    let mut cases: Vec<(u8, Vec<u32>)> = Vec::new();
    for s in 0..sp.seeds.len() as u8 { for d in 1..=maxd {
        cases.push((s, vec![HARD; d]));
        for p in 0..d { for a in &syms { let mut v = vec![HARD; d]; v[p] = *a; cases.push((s, v.clone()));
            if dev >= 2 && s == 2 && d <= 12 { for q in p + 1..d { for b in &syms { let mut w = v.clone(); w[q] = *b; cases.push((s, w)); } } } } }
    } }
    // very deep paths (counter widths: u8 depth bytes, small fixed buffers): all hardened, all normal, alternating
    for d in [31usize, 32, 33, 63, 64, 65, 127, 128, 129, 254, 255, 256, 257, 300, 511, 512, 1000] { if ctx.quick() && d > 300 { continue; }
        cases.push((2, vec![HARD; d])); cases.push((2, vec![1; d])); cases.push((0, (0..d).map(|k| if k % 2 == 0 { HARD | 7 } else { 7 }).collect())); }
    ctx.sweep("lines", &format!("paths of 0' of every depth 1..={maxd} with <= {dev} deviating components (13 alternatives each), 5 seeds (pairs on the 64-byte seed); plus depths 31..33, 63..65, 127..129, 254..257, 300 (thorough: 511, 512, 1000) all-hardened / all-normal / alternating"), cases.len() as u64, |i| {
        let (s, path) = &cases[i as usize]; check_path(ctx, &sp, "lines", i, *s, path);
    });
    ctx.guard_check("both derivation kinds compared", ctx.classes_matching(|c| c.contains("last=hardened") && c.ends_with(":key")) > 0 && ctx.classes_matching(|c| c.contains("last=normal") && c.ends_with(":key")) > 0, "hardened and normal children were both derived and compared");
    crate::hist::histories(ctx, P, "derivation-histories", "hdk::derive, a sequence on one fresh thread", crate::hist::c03_ops(ctx.seed));
    crate::hist::long_runs(ctx, P, "derivation-long-runs", "hdk::derive, a long run on one fresh thread", if ctx.quick() { 40 } else { 300 }, crate::hist::c03_nth(ctx.seed));
    crate::hist::under_entropy_answers(ctx, P, "derivation-under-entropy-answers", "hdk::derive with the entropy source scripted", crate::hist::c03_ops(ctx.seed));
}

//! C09 — typed data that does not conform to its declared types is refused.
use crate::tdcheck::*;
use explore::Ctx;
use refmodel::eip712::{parse_type, Doc, Ty};
use refmodel::json::J;
use refmodel::nat::Nat;

const P: &str = "C09";
fn one(ty: &str, v: J) -> Doc { simple_doc(vec![("Msg".to_string(), sv(&[("x", ty)]))], "Msg", J::obj(vec![("x", v)])) }

#[derive(Clone, Debug)]
pub enum Step { Key(String), Idx(usize) }
fn replace_at(v: &J, path: &[Step], new: &dyn Fn(&J) -> Option<J>) -> J {
    match path.split_first() {
        None => new(v).unwrap_or(J::Null),
        Some((Step::Key(k), rest)) => match v { J::Obj(o) => J::Obj(o.iter().filter_map(|(kk, vv)| if kk == k { if rest.is_empty() { new(vv).map(|n| (kk.clone(), n)) } else { Some((kk.clone(), replace_at(vv, rest, new))) } } else { Some((kk.clone(), vv.clone())) }).collect()), o => o.clone() },
        Some((Step::Idx(i), rest)) => match v { J::Arr(a) => J::Arr(a.iter().enumerate().map(|(k, vv)| if k == *i { replace_at(vv, rest, new) } else { vv.clone() }).collect()), o => o.clone() },
    }
}
/// every typed value node of the message: (path, type text)
fn nodes(doc: &Doc, ty: &str, v: &J, path: &mut Vec<Step>, out: &mut Vec<(Vec<Step>, String)>) {
    out.push((path.clone(), ty.to_string()));
    match parse_type(ty) {
        Ty::Struct(name) => if let (Some(ms), J::Obj(o)) = (doc.members(&name), v) { for (mn, mt) in ms { if let Some((_, mv)) = o.iter().find(|(k, _)| k == mn) { path.push(Step::Key(mn.clone())); nodes(doc, mt, mv, path, out); path.pop(); } } },
        Ty::Array(_, _) => if let J::Arr(a) = v { let inner = &ty[..ty.rfind('[').unwrap()]; for (i, e) in a.iter().enumerate() { path.push(Step::Idx(i)); nodes(doc, inner, e, path, out); path.pop(); } },
        _ => {}
    }
}
/// offending replacements for a node of the given type: (family, new value or None = remove the key)
fn offences(doc: &Doc, ty: &str, cur: &J) -> Vec<(String, Option<J>)> {
    let mut v: Vec<(String, Option<J>)> = Vec::new(); let p = |k: usize| Nat::pow2(k);
    match parse_type(ty) {
        Ty::Uint(n) => { v.push(("uint-2^N-dec".into(), Some(J::Str(p(n).to_dec())))); v.push(("uint-2^N-hex".into(), Some(J::Str(format!("0x{}", p(n).to_hex()))))); if n < 64 { v.push(("uint-2^N-json".into(), Some(J::Num(p(n).to_dec())))); }
            v.push(("uint-negative-json".into(), Some(J::n("-1")))); v.push(("uint-negative-string".into(), Some(J::s("-1")))); v.push(("uint-fraction".into(), Some(J::n("1.5")))); v.push(("uint-not-a-number".into(), Some(J::s("twelve")))); v.push(("uint-wrong-kind-bool".into(), Some(J::Bool(true)))); v.push(("uint-wrong-kind-null".into(), Some(J::Null))); v.push(("uint-wrong-kind-array".into(), Some(J::Arr(vec![J::n("1")])))); }
        Ty::Int(n) => { v.push(("int-2^(N-1)-dec".into(), Some(J::Str(p(n - 1).to_dec())))); v.push(("int-2^(N-1)-hex".into(), Some(J::Str(format!("0x{}", p(n - 1).to_hex()))))); v.push(("int-below-min-dec".into(), Some(J::Str(format!("-{}", p(n - 1).add(&Nat::from_u64(1)).to_dec())))));
            if n < 64 { v.push(("int-2^(N-1)-json".into(), Some(J::Num(p(n - 1).to_dec())))); v.push(("int-below-min-json".into(), Some(J::Num(format!("-{}", p(n - 1).add(&Nat::from_u64(1)).to_dec()))))); v.push(("int-2^N-1-json".into(), Some(J::Num(p(n).sub(&Nat::from_u64(1)).to_dec())))); }
            v.push(("int-fraction".into(), Some(J::n("-0.5")))); v.push(("int-wrong-kind-object".into(), Some(J::Obj(vec![])))); }
        Ty::BytesN(n) => { let h = |k: usize| Some(J::Str(format!("0x{}", "7e".repeat(k)))); v.push(("bytesN-short".into(), h(n - 1))); v.push(("bytesN-long".into(), h(n + 1))); if n != 32 { v.push(("bytesN-32".into(), h(32))); } v.push(("bytesN-33".into(), h(33))); v.push(("bytesN-odd".into(), Some(J::Str(format!("0x{}7", "7e".repeat(n - 1))))));
            v.push(("bytesN-non-hex".into(), Some(J::Str(format!("0x{}", "zz".repeat(n)))))); v.push(("bytesN-wrong-kind-number".into(), Some(J::n("1")))); }
        Ty::Bytes => { v.push(("bytes-odd".into(), Some(J::s("0x123")))); v.push(("bytes-non-hex".into(), Some(J::s("0xzz")))); v.push(("bytes-wrong-kind-number".into(), Some(J::n("18")))); v.push(("bytes-wrong-kind-array".into(), Some(J::Arr(vec![])))); }
        Ty::Bool => { v.push(("bool-wrong-kind-number".into(), Some(J::n("1")))); v.push(("bool-wrong-kind-string".into(), Some(J::s("true")))); v.push(("bool-wrong-kind-null".into(), Some(J::Null))); }
        Ty::Address => { v.push(("address-19-bytes".into(), Some(J::Str(format!("0x{}", "ab".repeat(19)))))); v.push(("address-21-bytes".into(), Some(J::Str(format!("0x{}", "ab".repeat(21)))))); v.push(("address-32-bytes".into(), Some(J::Str(format!("0x{}", "00".repeat(12) + &"ab".repeat(20)))))); v.push(("address-non-hex".into(), Some(J::Str(format!("0x{}", "zz".repeat(20)))))); v.push(("address-wrong-kind-number".into(), Some(J::n("0")))); }
        Ty::String => { v.push(("string-wrong-kind-number".into(), Some(J::n("5")))); v.push(("string-wrong-kind-null".into(), Some(J::Null))); v.push(("string-wrong-kind-array".into(), Some(J::Arr(vec![J::s("a")])))); }
        Ty::Struct(name) => { if let (Some(ms), J::Obj(o)) = (doc.members(&name), cur) {
                for (mn, _) in ms { v.push(("struct-missing-member".into(), Some(J::Obj(o.iter().filter(|(k, _)| k != mn).cloned().collect())))); }
                let mut ex = o.clone(); ex.push(("undeclared".into(), J::n("1"))); v.push(("struct-undeclared-member".into(), Some(J::Obj(ex))));
                let mut ex0 = vec![("undeclared".to_string(), J::s("x"))]; ex0.extend(o.clone()); v.push(("struct-undeclared-member-first".into(), Some(J::Obj(ex0)))); }
            v.push(("struct-wrong-kind-array".into(), Some(J::Arr(vec![])))); v.push(("struct-wrong-kind-string".into(), Some(J::s("{}")))); v.push(("struct-wrong-kind-null".into(), Some(J::Null))); }
        Ty::Array(_, size) => { if let J::Arr(a) = cur { if size.is_some() { if !a.is_empty() { v.push(("fixed-array-one-fewer".into(), Some(J::Arr(a[..a.len() - 1].to_vec())))); let mut m = a.clone(); m.push(a[a.len() - 1].clone()); v.push(("fixed-array-one-more".into(), Some(J::Arr(m)))); } v.push(("fixed-array-empty".into(), Some(J::Arr(vec![])))); } }
            v.push(("array-wrong-kind-object".into(), Some(J::Obj(vec![])))); v.push(("array-wrong-kind-string".into(), Some(J::s("[]")))); v.push(("array-wrong-kind-null".into(), Some(J::Null))); }
    }
    v.push(("member-absent".into(), None));
    v
}
pub fn template() -> Doc {
    let leaf = |k: u64| J::obj(vec![("u", J::Num(k.to_string())), ("i", J::Num(format!("-{k}"))), ("w", J::s("0x00000000000000000000000000000000000000aa")), ("ok", J::Bool(true))]);
    let mid = |k: u64| J::obj(vec![("x", J::Num((k * 100).to_string())), ("leaf", leaf(k)), ("leaves", J::Arr(vec![leaf(k + 1), leaf(k + 2)])), ("y", J::s("0x7f"))]);
    simple_doc(vec![("Top".into(), sv(&[("a", "uint8"), ("inner", "Mid"), ("list", "Mid[]"), ("fixed", "Leaf[2]"), ("b", "int16"), ("name", "string"), ("tag", "bytes2"), ("blob", "bytes"), ("grid", "uint16[2][2]")])),
        ("Mid".into(), sv(&[("x", "uint16"), ("leaf", "Leaf"), ("leaves", "Leaf[]"), ("y", "bytes1")])), ("Leaf".into(), sv(&[("u", "uint8"), ("i", "int8"), ("w", "address"), ("ok", "bool")]))], "Top",
        J::obj(vec![("a", J::n("200")), ("inner", mid(1)), ("list", J::Arr(vec![mid(2), mid(3)])), ("fixed", J::Arr(vec![leaf(7), leaf(8)])), ("b", J::n("-300")), ("name", J::s("n")), ("tag", J::s("0xbeef")), ("blob", J::s("0x00")), ("grid", J::Arr(vec![J::Arr(vec![J::n("1"), J::n("2")]), J::Arr(vec![J::n("3"), J::n("4")])]))]))
}
pub fn run(ctx: &Ctx) {
    // (a) integer bounds in every spelling
    let mut ints: Vec<(String, Doc)> = Vec::new();
    for bits in (8..=256usize).step_by(8) { for signed in [false, true] {
        let p = |k: usize| Nat::pow2(k); let one_ = Nat::from_u64(1);
        let vals: Vec<(&str, bool, Nat)> = vec![("-2^(N-1)-1", true, p(bits - 1).add(&one_)), ("-2^(N-1)", true, p(bits - 1)), ("-1", true, one_.clone()), ("0", false, Nat::zero()), ("2^(N-1)-1", false, p(bits - 1).sub(&one_)), ("2^(N-1)", false, p(bits - 1)), ("2^N-1", false, p(bits).sub(&one_)), ("2^N", false, p(bits))];
        for (vn, neg, mag) in vals {
            let sgn = if neg { "-" } else { "" };
            let mut sp: Vec<(&str, J)> = vec![("dec-string", J::Str(format!("{sgn}{}", mag.to_dec()))), ("hex-string", J::Str(format!("{sgn}0x{}", mag.to_hex())))];
            if mag < p(63) { sp.push(("json-int", J::Num(format!("{sgn}{}", mag.to_dec())))); } if mag < p(53) { sp.push(("json-float", J::Num(format!("{sgn}{}.0", mag.to_dec())))); sp.push(("json-exp", J::Num(format!("{sgn}{}e0", mag.to_dec())))); }
            for (sn, j) in sp { ints.push((format!("{}int:{vn}:{sn}", if signed { "" } else { "u" }), one(&format!("{}int{bits}", if signed { "" } else { "u" }), j))); }
        } } }
    ctx.sweep("integer-bounds", "uintN / intN for every N in 8..=256 x {-2^(N-1)-1, -2^(N-1), -1, 0, 2^(N-1)-1, 2^(N-1), 2^N-1, 2^N} x {decimal string, 0x string, JSON integer, JSON float, JSON exponent}", ints.len() as u64, |i| { let (s, d) = &ints[i as usize]; check_doc(ctx, P, "integer-bounds", i, s, d); });
    // (b) bytesN lengths
    let mut bs: Vec<(String, Doc)> = Vec::new();
    for n in 1..=32usize { for (ln, len) in [("N-1", n - 1), ("N", n), ("N+1", n + 1), ("0", 0), ("33", 33), ("32", 32)] { bs.push((format!("bytesN:len={ln}"), one(&format!("bytes{n}"), J::Str(format!("0x{}", "c3".repeat(len)))))); }
        bs.push(("bytesN:odd-digits".into(), one(&format!("bytes{n}"), J::Str(format!("0x{}c", "c3".repeat(n - 1)))))); bs.push(("bytesN:no-prefix".into(), one(&format!("bytes{n}"), J::Str("c3".repeat(n))))); }
    ctx.sweep("bytesN-lengths", "bytesN for N in 1..=32 with N-1, N, N+1, 0, 32, 33 bytes, odd digit count, missing 0x", bs.len() as u64, |i| { let (s, d) = &bs[i as usize]; check_doc(ctx, P, "bytesN-lengths", i, &if s.ends_with("len=32") || s.ends_with("len=N") || s.ends_with("len=N-1") || s.ends_with("len=N+1") || s.ends_with("len=0") || s.ends_with("len=33") { format!("{s},{}", refmodel::eip712::evaluate(d).0.name()) } else { s.clone() }, d); });
    // (c) fixed arrays
    let mut fa: Vec<(String, Doc)> = Vec::new();
    for et in ["uint8", "string", "S"] { for k in 0..=3usize { for n in [k.wrapping_sub(1), k, k + 1] { if n == usize::MAX { continue; }
        let el = |j: usize| match et { "uint8" => J::Num(j.to_string()), "string" => J::Str(format!("s{j}")), _ => J::obj(vec![("a", J::Num(j.to_string()))]) };
        let mut d = one(&format!("{et}[{k}]"), J::Arr((0..n).map(el).collect())); d.types.push(("S".into(), sv(&[("a", "uint8")])));
        fa.push((format!("fixed-array:{}", if n == k { "exact" } else if n < k { "one-fewer" } else { "one-more" }), d.clone()));
        let mut d2 = one(&format!("{et}[{k}][]"), J::Arr(vec![J::Arr((0..k).map(el).collect()), J::Arr((0..n).map(el).collect())])); d2.types.push(("S".into(), sv(&[("a", "uint8")])));
        fa.push((format!("nested-fixed-array:{}", if n == k { "exact" } else if n < k { "one-fewer" } else { "one-more" }), d2)); } } }
    ctx.sweep("fixed-array-sizes", "T[k] and T[k][] for k in 0..=3, T in {uint8, string, struct} with k-1, k, k+1 elements", fa.len() as u64, |i| { let (s, d) = &fa[i as usize]; check_doc(ctx, P, "fixed-array-sizes", i, s, d); });
    // (d) undefined struct references, (e) JSON kind matrix
    let mut km: Vec<(String, Doc)> = Vec::new();
    for ty in ["uint256", "int8", "bytes4", "bytes", "bool", "address", "string", "S", "uint8[]", "uint8[1]", "S[]"] { for (kn, j) in [("null", J::Null), ("bool", J::Bool(false)), ("number", J::n("1")), ("string", J::s("1")), ("hex-string", J::s("0x01020304")), ("array", J::Arr(vec![J::n("1")])), ("empty-array", J::Arr(vec![])), ("object", J::obj(vec![("a", J::n("1"))])), ("empty-object", J::Obj(vec![]))] {
        let mut d = one(ty, j); d.types.push(("S".into(), sv(&[("a", "uint8")]))); let cls = refmodel::eip712::evaluate(&d).0.name(); km.push((format!("kind-matrix:{ty}<-{kn},{cls}"), d)); } }
    for ty in ["Missing", "Missing[]", "Missing[2]", "uint9", "uint264", "int7", "bytes33", "bytes0", "Uint8"] { let v = if ty.contains('[') { J::Arr(vec![]) } else { J::n("1") }; km.push(("undefined-type-reference".into(), one(ty, v))); }
    { let mut d = one("uint8", J::n("1")); d.primary = "Nope".into(); km.push(("undefined-primary-type".into(), d)); }
    { let mut d = one("S", J::obj(vec![("a", J::n("1"))])); d.types.push(("S".into(), sv(&[("a", "T")]))); km.push(("undefined-nested-type".into(), d)); }
    { let mut d = one("S[]", J::Arr(vec![])); d.types.push(("S".into(), sv(&[("a", "T")]))); km.push(("undefined-nested-type-behind-empty-array".into(), d)); }
    ctx.sweep("kinds-and-undefined-types", "every declared kind x every JSON kind; references to undefined or near-miss type names", km.len() as u64, |i| { let (s, d) = &km[i as usize]; check_doc(ctx, P, "kinds-and-undefined-types", i, s, d); });
    // (g) member-type grammar: base x width spelling x array-size spelling
    let mut tg: Vec<(String, Doc)> = Vec::new();
    for base in ["uint", "int", "bytes"] { for w in ["", "0", "1", "7", "8", "08", "008", "9", "16", "016", "31", "32", "032", "33", "64", "248", "255", "256", "0256", "257", "264", "+8", "8 ", " 8", "8x", "0x8", "\u{661}", "\u{ff18}", "8.0", "1e1"] {
        for suf in ["", "[]", "[1]", "[01]", "[+1]", "[ 1]", "[1 ]", "[0x1]", "[-1]", "[1e0]", "[1][]", "[][01]"] {
            let ty = format!("{base}{w}{suf}");
            let scalar = if base == "bytes" { let n: usize = w.trim().trim_start_matches('+').trim_start_matches('0').parse().unwrap_or(0); J::Str(format!("0x{}", "ab".repeat(n.min(40)))) } else { J::n("1") };
            let depth = suf.matches('[').count(); let mut v = scalar; for _ in 0..depth { v = J::Arr(vec![v]); }
            let d = one(&ty, v); let cls = refmodel::eip712::evaluate(&d).0.name();
            tg.push((format!("type-grammar:{base}:{}:{cls}", if refmodel::eip712::lenient_canonical(&ty).is_some() { "exotic-spelling" } else { "as-written" }), d)); } } }
    ctx.sweep("member-type-grammar", "member types base {uint, int, bytes} x 30 width spellings (valid, invalid, leading zeros, signs, blanks, non-ASCII digits) x 12 array-suffix spellings with a fitting value: accepted only as the type it canonically means (or refused when the spelling is exotic), refused otherwise", tg.len() as u64, |i| { let (s, d) = &tg[i as usize]; check_doc(ctx, P, "member-type-grammar", i, s, d); });
    // (f) position sweep: every offending value at every node of a nested template
    let t = template(); let mut ns = Vec::new(); nodes(&t, "Top", &t.message, &mut Vec::new(), &mut ns);
    let mut single: Vec<(String, Vec<Step>, Option<J>)> = Vec::new();
    for (path, ty) in &ns { if path.is_empty() { continue; }
        let cur = { let mut c = &t.message; for s in path { c = match (s, c) { (Step::Key(k), J::Obj(o)) => &o.iter().find(|(kk, _)| kk == k).unwrap().1, (Step::Idx(i), J::Arr(a)) => &a[*i], _ => unreachable!() }; } c.clone() };
        for (fam, new) in offences(&t, ty, &cur) { if new.is_none() && matches!(path.last(), Some(Step::Idx(_))) { continue; } single.push((fam, path.clone(), new)); } }
    let apply = |doc: &Doc, path: &[Step], new: &Option<J>| -> Doc { let mut d = doc.clone(); d.message = replace_at(&doc.message, path, &|_| new.clone()); d };
    ctx.sweep("position-single", &format!("a nested template with {} typed value nodes; every offending value of the node's type family at every node, one at a time", ns.len() - 1), single.len() as u64 + 1, |i| {
        if i == 0 { check_doc(ctx, P, "position-single", 0, "template", &t); return; }
        let (fam, path, new) = &single[i as usize - 1]; check_doc(ctx, P, "position-single", i, &format!("{fam}@depth{}", path.len()), &apply(&t, path, new));
    });
    if ctx.thorough() {
        let reps: Vec<&(String, Vec<Step>, Option<J>)> = { let mut seen = std::collections::HashSet::new(); single.iter().filter(|(f, p, _)| seen.insert((f.clone(), p.len()))).collect() };
        let n = reps.len() as u64;
        ctx.sweep("position-pairs", "pairs of offending values (one representative per family and depth) at two nodes at once", n * n, |i| {
            let (a, b) = (reps[(i / n) as usize], reps[(i % n) as usize]); let d = apply(&apply(&t, &a.1, &a.2), &b.1, &b.2);
            check_doc(ctx, P, "position-pairs", i, &format!("pair:{}+{}", a.0, b.0), &d);
        });
    }
    let acc = ctx.classes_matching(|c| c.ends_with(":accepted")); let rej = ctx.classes_matching(|c| c.ends_with(":rejected"));
    ctx.guard_check("conforming and non-conforming documents both seen", acc >= 10 && rej >= 40, format!("{acc} accepting classes, {rej} rejecting classes"));
    crate::hist::histories(ctx, P, "document-histories-c09", "TypedData from JSON and its three digests, a sequence on one fresh thread", crate::hist::td_ops());
    crate::tdcheck::value_pairs(ctx, P, "value-pairs-c09");
    // the domain VALUE carries a member with a STANDARD name that the document's own EIP712Domain type does not declare (a
    // chain id or contract the user sees but the signature does not bind): an undeclared member, refused - for every
    // non-empty in-order selection of the five standard fields and every standard field outside it, with a well-formed value and null
    let fields = refmodel::eip712::DOMAIN_FIELDS; let mut und: Vec<(u32, usize, bool)> = Vec::new();
    for mask in 1u32..31 { for extra in 0..5usize { if mask >> extra & 1 == 0 { und.push((mask, extra, false)); und.push((mask, extra, true)); } } }
    ctx.sweep("undeclared-standard-domain-member", "every non-empty proper selection of the standard domain fields as the type x every standard field outside it added to the domain value (well-formed value, null): refused", und.len() as u64, |i| {
        let (mask, extra, null) = und[i as usize];
        let members: Vec<(String, String)> = (0..5).filter(|k| mask >> k & 1 == 1).map(|k| (fields[k].0.to_string(), fields[k].1.to_string())).collect();
        let mut dom: Vec<(String, J)> = members.iter().map(|(n, t)| (n.clone(), crate::c20::value_for(t))).collect();
        let pos = (i as usize) % (dom.len() + 1); dom.insert(pos, (fields[extra].0.to_string(), if null { J::Null } else { crate::c20::value_for(fields[extra].1) }));
        let d = refmodel::eip712::Doc { types: vec![("EIP712Domain".into(), members), ("Msg".into(), sv(&[("x", "uint256")]))], primary: "Msg".into(), domain: J::Obj(dom), message: J::obj(vec![("x", J::n("7"))]) };
        check_doc(ctx, P, "undeclared-standard-domain-member", i, &format!("domain-value:undeclared-standard-member={}{}", fields[extra].0, if null { ",null" } else { "" }), &d);
    });
    // the primary type IS the domain type: the message is then a value of type EIP712Domain and must conform to it like any
    // other message (tools that special-case this document shape tend to look at the domain value only)
    let mut pd: Vec<(u32, usize, usize)> = Vec::new(); let offences = 9usize;
    for mask in [0b00001u32, 0b00101, 0b11111, 0b10100, 0b01000, 0b00110, 0b10000] { for m in 0..5usize { if mask >> m & 1 == 1 { for o in 0..offences { pd.push((mask, m, o)); } } } }
    ctx.sweep("primary-type-is-the-domain-type", "7 selections of the standard domain fields as EIP712Domain, primaryType = EIP712Domain, a conforming domain value, and a message that breaks the type at each member in 8 ways (out of range, negative, wrong length, wrong JSON kind, null, member missing, undeclared member next to it) or conforms: an offending message is refused (a conforming one is unconstrained)", pd.len() as u64, |i| {
        let (mask, m, o) = pd[i as usize];
        let members: Vec<(String, String)> = (0..5).filter(|k| mask >> k & 1 == 1).map(|k| (fields[k].0.to_string(), fields[k].1.to_string())).collect();
        let dom: Vec<(String, J)> = members.iter().map(|(n, t)| (n.clone(), crate::c20::value_for(t))).collect();
        let (mn, mt) = fields[m]; let mut msg = dom.clone(); let at = msg.iter().position(|(n, _)| n == mn).unwrap();
        let what = match o {
            0 => { "conforming" }
            1 => { msg[at].1 = match mt { "uint256" => J::Str("115792089237316195423570985008687907853269984665640564039457584007913129639936".into()), "bytes32" => J::Str(format!("0x{}", "ab".repeat(31))), "address" => J::Str(format!("0x{}", "ab".repeat(19))), _ => J::n("5") }; "out-of-range-or-short" }
            2 => { msg[at].1 = match mt { "uint256" => J::n("-1"), "bytes32" => J::Str(format!("0x{}", "ab".repeat(33))), "address" => J::Str(format!("0x{}", "ab".repeat(21))), _ => J::Bool(true) }; "negative-or-long" }
            3 => { msg[at].1 = J::obj(vec![("x", J::n("1"))]); "object" }
            4 => { msg[at].1 = J::Arr(vec![]); "array" }
            5 => { msg[at].1 = J::Null; "null" }
            6 => { msg.remove(at); "member-missing" }
            7 => { msg.insert(at, ("extra".to_string(), J::n("1"))); "undeclared-member" }
            _ => { msg[at].1 = match mt { "string" => J::n("1.5"), "uint256" => J::Str("0xzz".into()), _ => J::Str("zz".into()) }; "malformed" }
        };
        let d = refmodel::eip712::Doc { types: vec![("EIP712Domain".into(), members)], primary: "EIP712Domain".into(), domain: J::Obj(dom), message: J::Obj(msg) };
        let (class, why) = refmodel::eip712::evaluate(&d); let class = match class { refmodel::json::Class::Accept(x) => refmodel::json::Class::Unc(x), c => c };
        check_json(ctx, P, "primary-type-is-the-domain-type", i, &format!("primary=domain-type:{mt}:{what}"), &d.to_json().reordered(i % 3).to_text(), (class, why));
    });
    // a struct type that declares a member name more than once, against value objects whose member SET is wrong but whose
    // member COUNT may match the declaration (a check that counts members instead of matching them): whatever is made of
    // the repeated declaration itself, an undeclared or a missing member is refused
    let decls: Vec<(&str, Vec<(&str, &str)>)> = vec![("distinct", vec![("to", "address"), ("amount", "uint256")]), ("repeat-adjacent", vec![("to", "address"), ("amount", "uint256"), ("amount", "uint256")]), ("repeat-apart", vec![("amount", "uint256"), ("to", "address"), ("amount", "uint256")]),
        ("repeat-thrice", vec![("amount", "uint256"), ("amount", "uint256"), ("amount", "uint256"), ("to", "address")]), ("repeat-with-another-type", vec![("to", "address"), ("amount", "uint256"), ("amount", "uint64")]), ("both-repeated", vec![("to", "address"), ("to", "address"), ("amount", "uint256"), ("amount", "uint256")])];
    let vals: Vec<(&str, bool, usize)> = vec![("exact", false, 0), ("one-undeclared", false, 1), ("two-undeclared", false, 2), ("three-undeclared", false, 3), ("missing-one-and-one-undeclared", true, 1), ("missing-one-and-two-undeclared", true, 2)];
    let places = ["message", "member", "second-array-element"];
    ctx.sweep("member-sets-against-repeated-declarations", "6 declarations of a two-member struct (distinct; a name declared twice adjacent / apart / three times / with another type / both names twice) x value objects with the exact member set, with 1..3 undeclared members added, with one member missing and 1..2 undeclared ones in its place x the struct as the message, as a member, as the second element of an array: an undeclared or a missing member is refused whatever the member count", (decls.len() * vals.len() * places.len()) as u64, |i| {
        let (dn, decl) = &decls[i as usize / (vals.len() * places.len())]; let (vn, missing, extra) = vals[(i as usize / places.len()) % vals.len()]; let place = places[i as usize % places.len()];
        let mut obj: Vec<(&str, J)> = vec![("amount", J::n("5"))]; if !missing { obj.insert(0, ("to", J::s("0xbBbBBBBbbBBBbbbBbbBbbbbBBbBbbbbBbBbbBBbB"))); }
        for (k, name) in ["memo", "nonce", "x"].iter().enumerate().take(extra) { obj.insert((i as usize + k) % (obj.len() + 1), (name, if k == 0 { J::s("rent") } else { J::n("1") })); }
        let good = J::obj(vec![("to", J::s("0xbBbBBBBbbBBBbbbBbbBbbbbBBbBbbbbBbBbbBBbB")), ("amount", J::n("5"))]); let v = J::obj(obj);
        let pay = ("Payment".to_string(), sv(decl));
        let d = match place { "message" => simple_doc(vec![pay], "Payment", v),
            "member" => simple_doc(vec![("Order".into(), sv(&[("id", "uint256"), ("p", "Payment")])), pay], "Order", J::obj(vec![("id", J::n("1")), ("p", v)])),
            _ => simple_doc(vec![("Order".into(), sv(&[("id", "uint256"), ("ps", "Payment[]")])), pay], "Order", J::obj(vec![("id", J::n("1")), ("ps", J::Arr(vec![good, v]))])) };
        check_doc(ctx, P, "member-sets-against-repeated-declarations", i, &format!("declaration={dn}:value={vn}:{place}"), &d);
    });
}

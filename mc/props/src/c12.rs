//! C12 — new mnemonics carry exactly the OS entropy (library part; the CLI part runs under an LD_PRELOAD shim).
use crate::entropy::{with_script, Answer};
use explore::{filler_bytes, guard, panic_site, Ctx};
use hdwallet::mnemonic::{Language, Mnemonic};
use refmodel::bip39;
use serde_json::json;

const P: &str = "C12";
pub fn patterns(seed: u64) -> Vec<(&'static str, Vec<u8>)> {
    let count: Vec<u8> = (1..=64u8).collect();
    vec![("zeros", vec![0; 64]), ("ones", vec![0xff; 64]), ("counting", count.clone()), ("counting-complement", count.iter().map(|b| !b).collect()), ("filler", filler_bytes(seed, 0xC12, 64))]
}
pub fn check_random(ctx: &Ctx, sweep: &str, i: u64, len: usize, pat: &str, answers: Vec<Answer>) {
    let supported = bip39::entropy_len_for_words(len);
    let failing = matches!(answers.first(), Some(Answer::Fail) | None);
    let replay = json!({"sweep": sweep, "index": i, "entry": "Mnemonic::random", "length": len, "entropy_script": format!("{:?}", answers.iter().map(|a| match a { Answer::Fail => "fail".to_string(), Answer::Bytes(b) => explore::hex(&b[..b.len().min(32)]) }).collect::<Vec<_>>())});
    ctx.sample(sweep, || replay.clone());
    let (got, requests, handed) = with_script(answers, || guard(|| Mnemonic::random(Language::English, len).map(|m| (m.to_phrase(), m.mnemonic_length(), Mnemonic::from_phrase(m.to_phrase()).is_ok()))));
    let shape = format!("len={},{pat}", match supported { Some(_) => len.to_string(), None => if len < 12 { "below-12".into() } else if len > 24 { "above-24".into() } else { "between".to_string() } });
    match got {
        Err(p) => { ctx.eval(format!("{shape}:panic")); ctx.panic_violation(format!("{P}:random:{shape}:panic@{}", panic_site(&p)), format!("generation panics: {p}"), replay) }
        Ok(Err(_)) => { ctx.eval(format!("{shape}:error")); if supported.is_some() && !failing { ctx.violation(format!("{P}:random:{shape}:error"), "generation of a supported length fails although the entropy source answered", replay) } }
        Ok(Ok((phrase, mlen, parses))) => { ctx.eval(format!("{shape}:phrase,requests={:?}", requests));
            if supported.is_none() { ctx.violation(format!("{P}:random:{shape}:generated"), format!("an unsupported length yields the phrase '{phrase}'"), replay); return; }
            if failing { ctx.violation(format!("{P}:random:{shape}:phrase-despite-failure"), "a phrase is produced although the entropy source reported failure", replay); return; }
            let toks: Vec<&str> = phrase.split(' ').collect();
            match bip39::tokens_to_entropy(&toks) {
                Err(e) => ctx.violation(format!("{P}:random:{shape}:invalid-phrase"), format!("generated phrase is not valid BIP-39: {e:?}"), replay),
                Ok(ent) => {
                    if toks.len() != len || mlen != len { ctx.violation(format!("{P}:random:{shape}:wrong-length"), format!("{} words generated for requested length {len}", toks.len()), replay) }
                    else if !handed.windows(ent.len()).any(|w| w == ent.as_slice()) { ctx.violation(format!("{P}:random:{shape}:entropy-not-from-source"), format!("entropy {} of the phrase is not a run of the bytes the source returned ({})", explore::hex(&ent), explore::hex(&handed)), replay) }
                    else if !parses { ctx.violation(format!("{P}:random:{shape}:does-not-parse-back"), "the generated phrase is rejected by the parser", replay) }
                }
            } }
    }
}
pub fn run(ctx: &Ctx) {
    let pats = patterns(ctx.seed);
    ctx.sweep("length-x-pattern", "requested lengths 0..=40 x 5 byte patterns (00, ff, counting, its complement, filler) returned by the scripted source", (41 * pats.len()) as u64, |i| {
        let len = (i as usize) / pats.len(); let (pn, pb) = &pats[i as usize % pats.len()];
        check_random(ctx, "length-x-pattern", i, len, pn, vec![Answer::Bytes(pb.clone()), Answer::Bytes(vec![0x5a; 64])]);
    });
    ctx.sweep("failure-injection", "the entropy source fails at the first request, for every length 0..=40", 41, |i| check_random(ctx, "failure-injection", i, i as usize, "source-fails", vec![Answer::Fail]));
    let bits: Vec<(usize, usize, bool)> = [12usize, 15, 18, 21, 24].iter().flat_map(|l| (0..l * 4 / 3 * 8).flat_map(move |b| [(*l, b, false), (*l, b, true)])).collect();
    ctx.sweep("single-bit-entropy", "every single set / cleared bit of the entropy returned by the source, five supported lengths", bits.len() as u64, |i| {
        let (len, b, inv) = bits[i as usize]; let mut e = vec![if inv { 0xffu8 } else { 0 }; 64]; e[b / 8] ^= 0x80 >> (b % 8);
        check_random(ctx, "single-bit-entropy", i, len, if inv { "one-bit-cleared" } else { "one-bit-set" }, vec![Answer::Bytes(e)]);
    });
    ctx.sweep("consecutive-generations", "two generations in a row with different answers: the second phrase carries the second answer", 5, |i| {
        let len = [12usize, 15, 18, 21, 24][i as usize];
        let a = filler_bytes(ctx.seed, 1, 64); let b = filler_bytes(ctx.seed, 2, 64);
        let ((p1, p2), _, _) = with_script(vec![Answer::Bytes(a.clone()), Answer::Bytes(b.clone())], || { let x = guard(|| Mnemonic::random(Language::English, len).map(|m| m.to_phrase()).ok()); let y = guard(|| Mnemonic::random(Language::English, len).map(|m| m.to_phrase()).ok()); (x, y) });
        let e = len * 4 / 3; ctx.eval("consecutive");
        let ok = p1 == Ok(Some(bip39::entropy_to_phrase(&a[..e]))) && p2 == Ok(Some(bip39::entropy_to_phrase(&b[..e])));
        if !ok { ctx.violation(format!("{P}:random:len={len},consecutive:repeated-or-derived"), "two consecutive generations do not carry their own answers of the entropy source", json!({"sweep": "consecutive-generations", "index": i, "length": len})) }
    });
}

//! C12 — new mnemonics carry exactly the OS entropy (library part; the CLI part runs under an LD_PRELOAD shim).
//! The scripted source is a continuous byte stream, so the oracle does not depend on how many requests of which size
//! an implementation makes: the entropy must be the bytes handed out, in order, and a delivered failure must be an error.
use crate::entropy::{with_failures_on_fresh_thread, with_script_on_fresh_thread as with_script, ALL_HANDED};
use explore::{filler_bytes, guard, panic_site, Ctx};
use hdwallet::mnemonic::{Language, Mnemonic};
use refmodel::bip39;
use serde_json::json;

const P: &str = "C12";
pub fn patterns(seed: u64) -> Vec<(&'static str, Vec<u8>)> {
    let count: Vec<u8> = (1..=64u8).collect();
    vec![("zeros", vec![0; 64]), ("ones", vec![0xff; 64]), ("counting", count.clone()), ("counting-complement", count.iter().map(|b| !b).collect()), ("filler", filler_bytes(seed, 0xC12, 64))]
}
pub fn check_random(ctx: &Ctx, sweep: &str, i: u64, len: usize, pat: &str, pattern: Vec<u8>, fail_at: Option<usize>, once: bool) {
    let supported = bip39::entropy_len_for_words(len);
    let replay = json!({"sweep": sweep, "index": i, "entry": "Mnemonic::random", "length": len, "entropy_stream_pattern": explore::hex(&pattern[..pattern.len().min(64)]), "fail_at_request": fail_at, "one_shot": once});
    ctx.sample(sweep, || replay.clone());
    let (got, requests, handed) = with_script(pattern, fail_at, once, || guard(|| Mnemonic::random(Language::English, len).map(|m| (m.to_phrase(), m.mnemonic_length(), Mnemonic::from_phrase(m.to_phrase()).is_ok()))));
    let delivered = requests.iter().any(|r| !r.1);
    let shape = format!("len={},{pat}{}", match supported { Some(_) => len.to_string(), None => if len < 12 { "below-12".into() } else if len > 24 { "above-24".into() } else { "between".to_string() } }, if delivered { ",failure-delivered" } else { "" });
    match got {
        Err(p) => { ctx.eval(format!("{shape}:panic")); ctx.panic_violation(format!("{P}:random:{shape}:panic@{}", panic_site(&p)), format!("generation panics: {p}"), replay) }
        Ok(Err(_)) => { ctx.eval(format!("{shape}:error")); if supported.is_some() && !delivered { ctx.violation(format!("{P}:random:{shape}:error"), "generation of a supported length fails although the entropy source answered every request", replay) } }
        Ok(Ok((phrase, mlen, parses))) => { ctx.eval(format!("{shape}:phrase,requests={:?}", requests.iter().map(|r| r.0).collect::<Vec<_>>()));
            if supported.is_none() { ctx.violation(format!("{P}:random:{shape}:generated"), format!("an unsupported length yields the phrase '{phrase}'"), replay); return; }
            if delivered { ctx.violation(format!("{P}:random:len={len},failure-delivered:phrase-despite-failure"), "a phrase is produced although the entropy source reported failure", replay); return; }
            let toks: Vec<&str> = phrase.split(' ').collect();
            match bip39::tokens_to_entropy(&toks) {
                Err(e) => ctx.violation(format!("{P}:random:{shape}:invalid-phrase"), format!("generated phrase is not valid BIP-39: {e:?}"), replay),
                Ok(ent) => {
                    if toks.len() != len || mlen != len { ctx.violation(format!("{P}:random:{shape}:wrong-length"), format!("{} words generated for requested length {len}", toks.len()), replay) }
                    else if !handed.windows(ent.len()).any(|w| w == ent.as_slice()) && ALL_HANDED.lock().map(|a| a.windows(ent.len()).any(|w| w == ent.as_slice())).unwrap_or(false) { ctx.eval(format!("{shape}:served-from-bytes-fetched-during-an-earlier-case")) }
                    else if !handed.windows(ent.len()).any(|w| w == ent.as_slice()) { ctx.violation(format!("{P}:random:{shape}:entropy-not-from-source"), format!("entropy {} of the phrase is not a run of the bytes the source returned ({})", explore::hex(&ent), explore::hex(&handed)), replay) }
                    else if !parses { ctx.violation(format!("{P}:random:{shape}:does-not-parse-back"), "the generated phrase is rejected by the parser", replay) }
                }
            } }
    }
}
pub fn run(ctx: &Ctx) {
    let mut pats: Vec<(String, Vec<u8>)> = patterns(ctx.seed).into_iter().map(|(n, b)| (n.to_string(), b)).collect();
    if ctx.thorough() { for b in 0..=255u8 { pats.push((format!("fill-{:02x}", b), vec![b; 64])); pats.push((format!("ramp-from-{:02x}", b), (0..64u8).map(|i| b.wrapping_add(i.wrapping_mul(3))).collect())); } }
    ctx.sweep("failure-injection", "request k of the source fails (k = 0..=3, persistent and one-shot) for every length 0..=40: a delivered failure must be an error", 41 * 8, |i| {
        check_random(ctx, "failure-injection", i, (i / 8) as usize, "source-fails", (1..=251u8).collect(), Some(((i % 8) / 2) as usize), i % 2 == 1)
    });
    // the errno a failure carries: one-shot and persistent failures reporting each of EPERM, EINTR, EIO, EAGAIN, ENOMEM,
    // EFAULT, EINVAL, ENOSYS. A failure that is final must be an error; code that treats one errno as "try again" may go
    // on - then what it prints must still be made of bytes the source handed out (checked by failure-windows below)
    let errnos: [(i32, &str); 8] = [(1, "EPERM"), (4, "EINTR"), (5, "EIO"), (11, "EAGAIN"), (12, "ENOMEM"), (14, "EFAULT"), (22, "EINVAL"), (38, "ENOSYS")];
    let windows: [usize; 9] = [1, 2, 3, 8, 15, 16, 17, 64, 1000];
    let sup = [12usize, 15, 18, 21, 24];
    ctx.sweep("failure-windows", "for each of 8 errno values (EPERM, EINTR, EIO, EAGAIN, ENOMEM, EFAULT, EINVAL, ENOSYS): requests k .. k+n-1 of the source fail with it (k = 0, 1; n = 1, 2, 3, 8, 15, 16, 17, 64, 1000) and later ones are answered, for the five supported lengths: generation ends with an error, or - where the implementation takes that errno as `try again` - with a phrase whose entropy is a run of the bytes the source handed out; never with a phrase made of anything else (an untouched buffer)", (errnos.len() * windows.len() * 2 * sup.len()) as u64, |i| {
        let len = sup[i as usize % 5]; let k = (i as usize / 5) % 2; let n = windows[(i as usize / 10) % windows.len()]; let (errno, en) = errnos[i as usize / (10 * windows.len())];
        let pattern: Vec<u8> = (1..=251u8).collect();
        let replay = json!({"sweep": "failure-windows", "index": i, "entry": "Mnemonic::random", "length": len, "entropy_stream_pattern": "01 02 .. fb (cyclic)", "failing_requests": format!("{k}..{}", k + n), "errno": en});
        ctx.sample("failure-windows", || replay.clone());
        let (got, requests, handed) = with_failures_on_fresh_thread(pattern, Some(k), false, Some(n), errno, || guard(|| Mnemonic::random(Language::English, len).map(|m| m.to_phrase())));
        let delivered = requests.iter().filter(|r| !r.1).count(); let shape = format!("{en}:first-failing-request={k}:window={}", if n >= 1000 { "1000".to_string() } else if n >= 15 { "15..=64".into() } else { "1..=8".into() });
        match got {
            Err(p) => { ctx.eval(format!("{shape}:panic")); ctx.panic_violation(format!("{P}:random:failure-window:{en}:panic@{}", panic_site(&p)), format!("generation panics: {p}"), replay) }
            Ok(Err(_)) => { ctx.eval(format!("{shape}:error,failures-delivered={}", delivered.min(2))); if delivered == 0 { ctx.violation(format!("{P}:random:failure-window:{en}:error-without-failure"), "generation fails although every request it made was answered", replay) } }
            Ok(Ok(phrase)) => { ctx.eval(format!("{shape}:phrase,failures-delivered={}", delivered.min(2)));
                let toks: Vec<&str> = phrase.split(' ').collect();
                match bip39::tokens_to_entropy(&toks) {
                    Err(e) => ctx.violation(format!("{P}:random:failure-window:{en}:invalid-phrase"), format!("generated phrase is not valid BIP-39: {e:?}"), replay),
                    Ok(ent) => if toks.len() != len { ctx.violation(format!("{P}:random:failure-window:{en}:wrong-length"), format!("{} words generated for requested length {len}", toks.len()), replay) }
                        else if !handed.windows(ent.len()).any(|w| w == ent.as_slice()) {
                            if ALL_HANDED.lock().map(|a| a.windows(ent.len()).any(|w| w == ent.as_slice())).unwrap_or(false) { ctx.eval(format!("{shape}:served-from-bytes-fetched-during-an-earlier-case")) }
                            else { ctx.violation(format!("{P}:random:failure-window:{en}:entropy-not-from-source"), format!("after {delivered} failures reported with {en} a phrase is produced whose entropy {} is not a run of the bytes the source handed out ({})", explore::hex(&ent), if handed.is_empty() { "it handed out none".to_string() } else { explore::hex(&handed) }), replay) } }
                        // a final failure (anything but the two `try again` errnos) followed by a phrase is a failure swallowed
                        else if delivered > 0 && errno != 4 && errno != 11 { ctx.violation(format!("{P}:random:failure-window:{en}:phrase-despite-failure"), format!("a phrase is produced although the entropy source reported failure ({en})"), replay) }
                }
            }
        }
    });
    // (the pattern sweep comes after the failure sweeps: the process-wide record of handed bytes, which excuses entropy served
    // from a pool filled during an earlier case, must not yet contain the constant patterns when a swallowed failure would
    // surface as an untouched, all-zero buffer)
    ctx.sweep("length-x-pattern", "requested lengths 0..=40 x byte patterns (00, ff, counting, its complement, filler; thorough: every fill byte and 256 ramps) streamed by the scripted source", (41 * pats.len()) as u64, |i| {
        let len = (i as usize) / pats.len(); let (pn, pb) = &pats[i as usize % pats.len()];
        check_random(ctx, "length-x-pattern", i, len, pn, pb.clone(), None, false);
    });
    let bits: Vec<(usize, usize, bool)> = [12usize, 15, 18, 21, 24].iter().flat_map(|l| (0..l * 4 / 3 * 8).flat_map(move |b| [(*l, b, false), (*l, b, true)])).collect();
    ctx.sweep("single-bit-entropy", "every single set / cleared bit of the entropy streamed by the source, five supported lengths", bits.len() as u64, |i| {
        let (len, b, inv) = bits[i as usize]; let mut e = vec![if inv { 0xffu8 } else { 0 }; 64]; e[b / 8] ^= 0x80 >> (b % 8);
        check_random(ctx, "single-bit-entropy", i, len, if inv { "one-bit-cleared" } else { "one-bit-set" }, e, None, false);
    });
    ctx.sweep("consecutive-generations", "two generations in a row on one stream of all-distinct bytes: the second phrase carries the bytes that follow those of the first", 5, |i| {
        let len = [12usize, 15, 18, 21, 24][i as usize]; let e = len * 4 / 3; let stream: Vec<u8> = (1..=251u8).collect();
        let ((p1, p2), _, handed) = with_script(stream, None, false, || { let x = guard(|| Mnemonic::random(Language::English, len).map(|m| m.to_phrase()).ok()); let y = guard(|| Mnemonic::random(Language::English, len).map(|m| m.to_phrase()).ok()); (x, y) });
        ctx.eval("consecutive");
        // both entropies are runs of the handed-out bytes, the second strictly after the first (however the bytes were fetched)
        let ent = |p: &Result<Option<String>, String>| p.as_ref().ok().and_then(|o| o.as_ref()).and_then(|ph| bip39::tokens_to_entropy(&ph.split(' ').collect::<Vec<_>>()).ok());
        // (an implementation that buffers entropy for the whole process may serve both from bytes it fetched during an earlier
        // case: then they are consecutive runs of everything the scripted sources of this process handed out)
        let all = ALL_HANDED.lock().map(|a| a.clone()).unwrap_or_default();
        let find_in = |hay: &[u8], e: &[u8], from: usize| if hay.len() < e.len() + from { None } else { (from..hay.len() - e.len() + 1).find(|k| hay[*k..*k + e.len()] == *e) };
        let consecutive = |hay: &[u8], e1: &[u8], e2: &[u8]| { let mut from = 0; loop { match find_in(hay, e1, from) { None => break false, Some(k1) => { if find_in(hay, e2, k1 + e1.len()).is_some() { break true; } from = k1 + 1; } } } };
        let ok = match (ent(&p1), ent(&p2)) { (Some(e1), Some(e2)) if e1.len() == e && e2.len() == e => consecutive(&handed, &e1, &e2) || consecutive(&all, &e1, &e2), _ => false };
        if !ok { ctx.violation(format!("{P}:random:len={len},consecutive:repeated-or-derived"), "two consecutive generations do not carry their own, consecutive bytes of the entropy source", json!({"sweep": "consecutive-generations", "index": i, "length": len})) }
    });
    // a generation AFTER something else happened on the thread: a phrase refused part-way (unknown word after some list words),
    // refused at the end (checksum), refused at once (count), or accepted - the generator shares the word list, the checksum
    // hash and possibly buffers with the parser, and what a refused parse leaves behind must not reach the next phrase
    let w = bip39::words(); let valid12: Vec<&str> = bip39::entropy_to_phrase(&filler_bytes(ctx.seed, 0xC12B, 16)).split(' ').map(|t| w[w.iter().position(|x| *x == t).unwrap()]).collect();
    let with = |k: usize, t: &'static str| { let mut v = valid12.clone(); v[k] = t; v.join(" ") };
    let before: Vec<(&str, String)> = vec![("nothing", String::new()), ("valid-phrase", valid12.join(" ")), ("unknown-2nd-word", with(1, "zzzz")), ("unknown-7th-word", with(6, "zzzz")), ("unknown-last-word", with(11, "zzzz")), ("unknown-first-word", with(0, "zzzz")),
        ("checksum", { let mut v = valid12.clone(); v[11] = if v[11] == "abandon" { "ability" } else { "abandon" }; v.join(" ") }), ("11-words", valid12[..11].join(" ")), ("13-words", format!("{} abandon", valid12.join(" "))), ("two-refusals", format!("{}\u{0}{}", with(3, "zzzz"), with(9, "qqqq")))];
    ctx.sweep("generation-after-a-parse", "on one fresh thread: {nothing, a valid phrase, an unknown word at position 1 / 2 / 7 / 12, a checksum failure, 11 words, 13 words, two refusals} parsed first, then two generations of each supported length: both phrases have the requested length, parse back, and carry their own bytes of the source", (before.len() * 5) as u64, |i| {
        let (bn, text) = &before[i as usize / 5]; let len = [12usize, 15, 18, 21, 24][i as usize % 5]; let stream = filler_bytes(ctx.seed, 0xC12C + i, 4096); let t2 = text.clone();
        let replay = json!({"sweep": "generation-after-a-parse", "index": i, "entry": "Mnemonic::from_phrase then Mnemonic::random x 2 on a fresh thread", "parsed_first": text, "length": len});
        ctx.sample("generation-after-a-parse", || replay.clone());
        let (got, _, handed) = with_script(stream, None, false, move || { if !t2.is_empty() { for part in t2.split('\u{0}') { let _ = guard(|| Mnemonic::from_phrase(part).map(|m| m.to_phrase()).ok()); } }
            (0..2).map(|_| guard(|| Mnemonic::random(Language::English, len).map(|m| (m.to_phrase(), Mnemonic::from_phrase(m.to_phrase()).is_ok())).ok())).collect::<Vec<_>>() });
        let mut from = 0usize;
        for (k, r) in got.iter().enumerate() {
            match r {
                Err(p) => { ctx.eval(format!("after:{bn}:panic")); ctx.panic_violation(format!("{P}:random:after-{bn}:panic@{}", panic_site(p)), format!("generation {} panics: {p}", k + 1), replay); return; }
                Ok(None) => { ctx.eval(format!("after:{bn}:error")); ctx.violation(format!("{P}:random:after-{bn}:error"), format!("generation {} fails although the entropy source answered every request", k + 1), replay); return; }
                Ok(Some((phrase, parses))) => { let toks: Vec<&str> = phrase.split(' ').collect();
                    let ent = match bip39::tokens_to_entropy(&toks) { Ok(e) if toks.len() == len && *parses => e, _ => { ctx.eval(format!("after:{bn}:bad-phrase")); ctx.violation(format!("{P}:random:after-{bn}:wrong-length-or-invalid"), format!("generation {} after parsing [{bn}], asked for {len} words, produced '{phrase}', which is not a valid BIP-39 phrase of that length (or is refused by the parser)", k + 1), replay); return; } };
                    match if handed.len() < ent.len() + from { None } else { (from..handed.len() - ent.len() + 1).find(|p| handed[*p..*p + ent.len()] == ent[..]) } { Some(p) => from = p + ent.len(),
                        None if ALL_HANDED.lock().map(|a| a.windows(ent.len()).any(|w| w == ent.as_slice())).unwrap_or(false) => {}
                        None => { ctx.eval(format!("after:{bn}:entropy-not-from-source")); ctx.violation(format!("{P}:random:after-{bn}:entropy-not-own-bytes"), format!("generation {} carries entropy {} which is not a run of the source's bytes", k + 1, explore::hex(&ent)), replay); return; } } }
            }
        }
        ctx.eval(format!("after:{bn}:both-valid"));
    });
    // runs of generations on ONE fresh thread: every generation has the requested length and carries its own bytes of the
    // stream, strictly after those of the generation before it (buffers that are refilled, carved or recycled between
    // generations show only from the second block of entropy on)
    let n_gen = if ctx.quick() { 40usize } else { 300 };
    let plans: Vec<(String, Vec<usize>)> = [12usize, 15, 18, 21, 24].iter().map(|l| (format!("len={l}"), vec![*l; n_gen])).chain([("mixed-lengths".to_string(), (0..n_gen).map(|k| [15usize, 12, 21, 24, 18][k % 5]).collect()), ("mixed-lengths-descending".to_string(), (0..n_gen).map(|k| [24usize, 21, 18, 15, 12][k % 5]).collect())]).collect();
    ctx.sweep("generation-runs", &format!("{n_gen} generations in a row on one fresh thread for each supported length and for two cyclic mixes of lengths, on a stream of pseudo-random bytes: each phrase has its requested length, parses back, and its entropy is a run of the stream strictly after the run of the previous generation"), plans.len() as u64, |i| {
        let (name, lens) = &plans[i as usize]; let stream = filler_bytes(ctx.seed, 0xC12A + i, 16384); let lens2 = lens.clone();
        let (got, _, handed) = with_script(stream, None, false, move || lens2.iter().map(|l| guard(|| Mnemonic::random(Language::English, *l).map(|m| (m.to_phrase(), Mnemonic::from_phrase(m.to_phrase()).is_ok())).ok())).collect::<Vec<_>>());
        let replay = json!({"sweep": "generation-runs", "index": i, "entry": "Mnemonic::random x N on a fresh thread", "lengths": name, "generations": lens.len()});
        ctx.sample("generation-runs", || replay.clone());
        let mut from = 0usize;
        for (k, (r, l)) in got.iter().zip(lens.iter()).enumerate() {
            match r {
                Err(p) => { ctx.eval(format!("run:{name}:panic")); ctx.panic_violation(format!("{P}:random:run,{name}:panic@{}", panic_site(p)), format!("generation {} of the run panics: {p}", k + 1), replay); return; }
                Ok(None) => { ctx.eval(format!("run:{name}:error")); ctx.violation(format!("{P}:random:run,{name}:error"), format!("generation {} of the run fails although the entropy source answered every request", k + 1), replay); return; }
                Ok(Some((phrase, parses))) => { let toks: Vec<&str> = phrase.split(' ').collect();
                    let ent = match bip39::tokens_to_entropy(&toks) { Ok(e) if toks.len() == *l && *parses => e, _ => { ctx.eval(format!("run:{name}:bad-phrase")); ctx.violation(format!("{P}:random:run,{name}:wrong-length-or-invalid"), format!("generation {} of the run, asked for {l} words, produced '{phrase}'", k + 1), replay); return; } };
                    let found = if handed.len() < ent.len() + from { None } else { (from..handed.len() - ent.len() + 1).find(|p| handed[*p..*p + ent.len()] == ent[..]) };
                    match found { Some(p) => from = p + ent.len(),
                        None if ALL_HANDED.lock().map(|a| a.windows(ent.len()).any(|w| w == ent.as_slice())).unwrap_or(false) => { ctx.eval(format!("run:{name}:served-from-bytes-fetched-during-an-earlier-case")); }
                        None => { ctx.eval(format!("run:{name}:entropy-not-from-source")); ctx.violation(format!("{P}:random:run,{name}:entropy-not-own-bytes"), format!("generation {} of the run carries entropy {} which is not a run of the source's bytes after those of generation {}", k + 1, explore::hex(&ent), k), replay); return; } } }
            }
        }
        ctx.eval(format!("run:{name}:all-carry-their-own-bytes"));
    });
}

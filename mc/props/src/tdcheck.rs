//! Shared observation / comparison for EIP-712 typed data (C08, C09, C20).
use explore::{guard, panic_site, Ctx};
use hdwallet::typeddata::TypedData;
use refmodel::eip712::{self, Doc};
use refmodel::json::{Class, J};
use serde_json::json;

pub type Obs = Option<([u8; 32], [u8; 32], [u8; 32])>;
pub fn observe(text: &str) -> Result<Result<([u8; 32], [u8; 32], [u8; 32]), String>, String> {
    guard(|| serde_json::from_str::<TypedData>(text).map(|t| (t.domain_separator().0, t.message_hash().0, t.signing_message().0)).map_err(|e| e.to_string()))
}
/// runs one document on the implementation and the reference and compares
/// the order of JSON object keys (top level, domain, message, nested structs, member descriptors) rotates with the case
/// index: as emitted, reversed, rotated by one; the reference is order-independent by construction
pub fn check_doc(ctx: &Ctx, p: &str, sweep: &str, index: u64, shape: &str, doc: &Doc) { check_json(ctx, p, sweep, index, shape, &doc.to_json().reordered(index % 3).to_text(), eip712::evaluate(doc)) }
pub fn check_json(ctx: &Ctx, p: &str, sweep: &str, index: u64, shape: &str, text: &str, verdict: (Class<eip712::Digests>, String)) {
    let (class, why) = verdict;
    let replay = || json!({"sweep": sweep, "index": index, "entry": "serde_json::from_str::<TypedData>", "typed_data_json": if text.len() > 6000 { format!("{}…", &text[..6000]) } else { text.to_string() }, "reference": class.name(), "reference_note": why,
        "reference_digest": match &class { Class::Accept(d) | Class::Unc(d) => Some(explore::hex(&d.digest)), _ => None }});
    let stride = match ctx.property.as_str() { "C08" => 7, "C09" => 1, "C20" => if sweep.starts_with("ill-formed") { 4 } else { 61 }, _ => 0 };
    if stride > 0 && text.len() < 100_000 { ctx.emit_cli(sweep, index, stride, || json!({"kind": "typeddata", "shape": shape, "json": text, "class": class.name(), "digests": match &class { Class::Accept(d) | Class::Unc(d) => Some(vec![explore::hex(&d.domain_separator), explore::hex(&d.message_hash), explore::hex(&d.digest)]), _ => None }})); }
    ctx.sample(sweep, || json!({"shape": shape, "reference": class.name(), "json": if text.len() > 700 { format!("{}…", &text[..700]) } else { text.to_string() }}));
    match observe(text) {
        Err(pn) => { ctx.eval(format!("{shape}:panic")); ctx.panic_violation(format!("{p}:typeddata:{shape}:panic@{}", panic_site(&pn)), format!("panics: {pn}"), replay()) }
        Ok(Err(e)) => { ctx.eval(format!("{shape}:rejected")); if let Class::Accept(_) = class { ctx.violation(format!("{p}:typeddata:{shape}:rejected"), format!("a well-typed document is rejected: {e}"), replay()) } }
        Ok(Ok((ds, mh, dg))) => { ctx.eval(format!("{shape}:accepted"));
            match &class {
                Class::Reject => ctx.violation(format!("{p}:typeddata:{shape}:accepted"), format!("a document that must be refused is hashed ({why})"), replay()),
                Class::Accept(d) | Class::Unc(d) => {
                    if ds != d.domain_separator { ctx.violation(format!("{p}:typeddata:{shape}:domain-separator"), format!("domain separator {} differs from EIP-712 {}", explore::hex(&ds), explore::hex(&d.domain_separator)), replay()) }
                    else if mh != d.message_hash { ctx.violation(format!("{p}:typeddata:{shape}:message-hash"), format!("message hash {} differs from EIP-712 hashStruct {}", explore::hex(&mh), explore::hex(&d.message_hash)), replay()) }
                    else if dg != d.digest { ctx.violation(format!("{p}:typeddata:{shape}:digest"), format!("digest {} is not keccak256(0x1901 || domainSeparator || hashStruct(message))", explore::hex(&dg)), replay()) } }
            } }
    }
}
pub fn sv(v: &[(&str, &str)]) -> Vec<(String, String)> { v.iter().map(|(a, b)| (a.to_string(), b.to_string())).collect() }
/// minimal document around one primary struct
pub fn simple_doc(extra_types: Vec<(String, Vec<(String, String)>)>, primary: &str, message: J) -> Doc {
    let mut types = vec![("EIP712Domain".to_string(), sv(&[("name", "string"), ("chainId", "uint256")]))]; types.extend(extra_types);
    Doc { types, primary: primary.into(), domain: J::obj(vec![("name", J::s("hdwallet")), ("chainId", J::n("1"))]), message }
}

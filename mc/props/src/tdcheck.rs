//! Shared observation / comparison for EIP-712 typed data (C08, C09, C20).
use explore::{guard, panic_site, Ctx};
use hdwallet::typeddata::TypedData;
use refmodel::eip712::{self, Doc};
use refmodel::json::{Class, J};
use serde_json::json;

pub fn observe(text: &str) -> Result<Result<([u8; 32], [u8; 32], [u8; 32]), String>, String> {
    guard(|| serde_json::from_str::<TypedData>(text).map(|t| (t.domain_separator().0, t.message_hash().0, t.signing_message().0)).map_err(|e| e.to_string()))
}
/// runs one document on the implementation and the reference and compares
/// the order of JSON object keys (top level, domain, message, nested structs, member descriptors) rotates with the case
/// index: as emitted, reversed, rotated by one; the reference is order-independent by construction
pub fn check_doc(ctx: &Ctx, p: &str, sweep: &str, index: u64, shape: &str, doc: &Doc) { check_json(ctx, p, sweep, index, shape, &doc.to_json().reordered(index % 3).to_text(), eip712::evaluate(doc)) }
pub fn check_json(ctx: &Ctx, p: &str, sweep: &str, index: u64, shape: &str, text: &str, verdict: (Class<eip712::Digests>, String)) {
    let (class, why) = verdict;
    let replay = || json!({"sweep": sweep, "index": index, "entry": "serde_json::from_str::<TypedData>", "typed_data_json": if text.len() > 6000 { format!("{}…", &text[..6000]) } else { text.to_string() }, "reference": class.name(), "reference_note": why,
        "reference_digest": match &class { Class::Accept(d) | Class::Unc(d) => Some(explore::hex(&d.digest)), _ => None }});
    let stride = match ctx.property.as_str() { _ if sweep.starts_with("value-pairs") => 11, "C08" => 7, "C09" => 1, "C20" => if sweep.starts_with("ill-formed") { 4 } else { 61 }, _ => 0 };
    if stride > 0 && text.len() < 100_000 { ctx.emit_cli(sweep, index, stride, || json!({"kind": "typeddata", "shape": shape, "json": text, "class": class.name(), "digests": match &class { Class::Accept(d) | Class::Unc(d) => Some(vec![explore::hex(&d.domain_separator), explore::hex(&d.message_hash), explore::hex(&d.digest)]), _ => None }})); }
    ctx.sample(sweep, || json!({"shape": shape, "reference": class.name(), "json": if text.len() > 700 { format!("{}…", &text[..700]) } else { text.to_string() }}));
    match observe(text) {
        Err(pn) => { ctx.eval(format!("{shape}:panic")); ctx.panic_violation(format!("{p}:typeddata:{shape}:panic@{}", panic_site(&pn)), format!("panics: {pn}"), replay()) }
        Ok(Err(e)) => { ctx.eval(format!("{shape}:rejected")); if let Class::Accept(_) = class { ctx.violation(format!("{p}:typeddata:{shape}:rejected"), format!("a well-typed document is rejected: {e}"), replay()) } }
        Ok(Ok((ds, mh, dg))) => { ctx.eval(format!("{shape}:accepted"));
            match &class {
                Class::Reject => ctx.violation(format!("{p}:typeddata:{shape}:accepted"), format!("a document that must be refused is hashed ({why})"), replay()),
                Class::Accept(d) | Class::Unc(d) => {
                    if ds != d.domain_separator { ctx.violation(format!("{p}:typeddata:{shape}:domain-separator"), format!("domain separator {} differs from EIP-712 {}", explore::hex(&ds), explore::hex(&d.domain_separator)), replay()) }
                    else if mh != d.message_hash { ctx.violation(format!("{p}:typeddata:{shape}:message-hash"), format!("message hash {} differs from EIP-712 hashStruct {}", explore::hex(&mh), explore::hex(&d.message_hash)), replay()) }
                    else if dg != d.digest { ctx.violation(format!("{p}:typeddata:{shape}:digest"), format!("digest {} is not keccak256(0x1901 || domainSeparator || hashStruct(message))", explore::hex(&dg)), replay()) } }
            } }
    }
}
pub fn sv(v: &[(&str, &str)]) -> Vec<(String, String)> { v.iter().map(|(a, b)| (a.to_string(), b.to_string())).collect() }
/// minimal document around one primary struct
pub fn simple_doc(extra_types: Vec<(String, Vec<(String, String)>)>, primary: &str, message: J) -> Doc {
    let mut types = vec![("EIP712Domain".to_string(), sv(&[("name", "string"), ("chainId", "uint256")]))]; types.extend(extra_types);
    Doc { types, primary: primary.into(), domain: J::obj(vec![("name", J::s("hdwallet")), ("chainId", J::n("1"))]), message }
}

/// Relations BETWEEN two values of one document: all ordered pairs of items from an alphabet of (type, literal, container)
/// as the two members of the message — the same literal under two types of one family (valid for one, out of range for
/// the other), short atoms after full-width words, differently shaped sibling structs and arrays. What one value leaves
/// behind (a memo keyed too coarsely, a recycled buffer) shows only in such pairs; the reference evaluates every document
/// from scratch.
pub fn value_pairs(ctx: &Ctx, p: &str, sweep: &str) {
    let ff = |n: usize| format!("0x{}", "ff".repeat(n));
    let atoms: Vec<(&str, J)> = vec![
        ("uint8", J::s("255")), ("uint8", J::s("300")), ("uint16", J::s("300")), ("uint256", J::s("300")), ("uint256", J::s("115792089237316195423570985008687907853269984665640564039457584007913129639935")),
        ("int8", J::s("-128")), ("int8", J::s("-1000")), ("int16", J::s("-1000")), ("int256", J::s("-1000")), ("int256", J::s("-1")),
        ("bytes1", J::s("0xca")), ("bytes2", J::s("0xcafe")), ("bytes4", J::s("0xcafe")), ("bytes4", J::s("0xcafebabe")), ("bytes31", J::Str(ff(31))), ("bytes32", J::Str(ff(32))),
        ("bytes", J::s("0xcafe")), ("string", J::s("0xcafe")), ("string", J::s("300")), ("address", J::Str(ff(20))), ("address", J::s("0x0000000000000000000000000000000000000001")), ("bool", J::Bool(true)), ("uint256", J::n("300")), ("uint8", J::n("300")),
    ];
    let forms = ["plain", "struct", "array", "fixed-array-2"]; let n_items = (atoms.len() * forms.len()) as u64;
    let item = |k: u64, wrapper: &str| -> (String, J, Option<(String, Vec<(String, String)>)>, String) {
        let (ty, v) = &atoms[(k as usize) / forms.len()]; let form = forms[(k as usize) % forms.len()];
        let label = format!("{ty}={}/{form}", v.to_text());
        match form { "plain" => (ty.to_string(), v.clone(), None, label), "struct" => (wrapper.to_string(), J::obj(vec![("x", v.clone())]), Some((wrapper.to_string(), sv(&[("x", ty)]))), label),
            "array" => (format!("{ty}[]"), J::Arr(vec![v.clone()]), None, label), _ => (format!("{ty}[2]"), J::Arr(vec![v.clone(), v.clone()]), None, label) }
    };
    ctx.sweep(sweep, &format!("all ordered pairs of {} items ({} typed literals incl. the same literal under several widths, out-of-range ones and full-width words x plain / wrapped in a struct / one-element array / fixed array of two) as members a, b of the message", n_items, atoms.len()), n_items * n_items, |i| {
        let (ta, va, wa, la) = item(i / n_items, "Wa"); let (tb, vb, wb, lb) = item(i % n_items, "Wb");
        let mut types = vec![("Msg".to_string(), vec![("a".to_string(), ta), ("b".to_string(), tb)])]; if let Some(w) = wa { types.push(w); } if let Some(w) = wb { types.push(w); }
        let doc = simple_doc(types, "Msg", J::obj(vec![("a", va), ("b", vb)]));
        let fam = |l: &str| -> String { let t = l.split('=').next().unwrap(); let f: String = t.chars().take_while(|c| c.is_ascii_alphabetic()).collect(); format!("{f}{}", if t.len() > f.len() { "N" } else { "" }) };
        check_doc(ctx, p, sweep, i, &format!("pair:{}/{},{}/{}", fam(&la), la.rsplit('/').next().unwrap(), fam(&lb), lb.rsplit('/').next().unwrap()), &doc);
    });
}

//! C14 — HD path text is unambiguous: standard indices only, canonical round trip (explicit-state search over component tokens).
use crate::mcutil::{bfs, HistSpace};
use explore::{filler_bytes, guard, panic_site, Ctx};
use hdwallet::hdk;
use refmodel::bip32;
use refmodel::grammar::{classify_path, path_text, HARD};
use refmodel::json::Class;
use refmodel::secp::Curve;
use serde_json::json;

const P: &str = "C14";
const ROOTS: [&str; 9] = ["m/", "m", "", "M/", "/", "0/", " m/", "\u{ff4d}/", "m\u{ff0f}"];
fn tokens() -> Vec<String> {
    let mut t = Vec::new();
    for v in ["0", "1", "44", "60", "2147483647", "2147483648", "2147483649", "4294967295", "4294967296", "18446744073709551616"] { t.push(v.to_string()); t.push(format!("{v}'")); }
    for v in ["", "-1", "1.5", "x", "0''", "'", "0x10", "+1", "01", " 1", "1 ", "0h", "0H", "-0", "-0'", "-00", "+0", "0.0", "1e0", "-", "+"] { t.push(v.to_string()); }
    // compatibility / other-script digits and apostrophes that text normalisation would fold onto path syntax
    for v in ["\u{b2}", "\u{2082}", "\u{2460}", "\u{ff14}\u{ff14}'", "\u{663}", "4\u{b2}", "0\u{2019}", "0\u{ff07}", "\u{1d7d0}"] { t.push(v.to_string()); }
    t
}
pub struct Space { depth: usize, toks: Vec<String>, seed: Vec<u8>, curve: Curve, label: &'static str }
fn text_of(hist: &[u16], toks: &[String]) -> String {
    // the root spelling is a literal prefix; components are joined by '/'
    let comps: Vec<&str> = hist[1..].iter().map(|i| toks[*i as usize - 100].as_str()).collect();
    format!("{}{}", ROOTS[hist[0] as usize], comps.join("/"))
}
pub fn check_text(ctx: &Ctx, sweep: &str, index: u64, text: &str, seed: &[u8], curve: &Curve) {
    let class = classify_path(text);
    let shape = shape_of(text, &class);
    let replay = json!({"sweep": sweep, "index": index, "entry": "str::parse::<hdk::Path>", "path": text, "reference": format!("{:?}", class), "seed_hex": explore::hex(seed)});
    ctx.sample(sweep, || replay.clone());
    let got = guard(|| text.parse::<hdk::Path>().ok().map(|p| {
        let shown = p.to_string();
        let key = hdk::derive(seed, &p).ok().map(|k| k.secret());
        let again = shown.parse::<hdk::Path>().ok().map(|p2| (p2.to_string(), hdk::derive(seed, &p2).ok().map(|k| k.secret())));
        (shown, key, again)
    }));
    match got {
        Err(p) => { ctx.eval(format!("{shape}:panic")); ctx.panic_violation(format!("{P}:parse:{shape}:panic@{}", panic_site(&p)), format!("path handling panics: {p}"), replay) }
        Ok(None) => { ctx.eval(format!("{shape}:rejected")); if let Class::Accept(_) = class { ctx.violation(format!("{P}:parse:{shape}:rejected"), "a standard path is rejected", replay) } }
        Ok(Some((shown, key, again))) => {
            ctx.eval(format!("{shape}:accepted"));
            match class {
                Class::Reject => ctx.violation(format!("{P}:parse:{shape}:accepted"), format!("ambiguous or non-standard path text is accepted (prints as '{shown}')"), replay),
                Class::Accept(ix) | Class::Unc(ix) => {
                    if ix.is_empty() { return; }
                    let canon = path_text(&ix);
                    let want = bip32::derive(curve, seed, &ix).map(|x| x.k.to_be());
                    if shown != canon { ctx.violation(format!("{P}:display:{shape}:non-canonical"), format!("prints as '{shown}', canonical form is '{canon}'"), replay) }
                    else if key != want { ctx.violation(format!("{P}:derive:{shape}:wrong-key"), format!("derives {:?}, BIP-32 gives {:?} for {canon}", key.map(|k| explore::hex(&k)), want.map(|k| explore::hex(&k))), replay) }
                    else if again != Some((canon.clone(), want)) { ctx.violation(format!("{P}:roundtrip:{shape}:differs"), "the printed form does not parse back to a path deriving the same key", replay) }
                }
            }
        }
    }
}
fn shape_of(text: &str, class: &Class<Vec<u32>>) -> String {
    let root = if text.starts_with("m/") { "m/" } else if text == "m" { "bare-m" } else { "other-root" };
    let comps: Vec<&str> = text.splitn(2, '/').nth(1).map(|r| r.split('/').collect()).unwrap_or_default();
    let mut kinds: Vec<String> = comps.iter().map(|c| {
        let b = c.trim_end_matches('\'');
        let k = if c.is_empty() { "empty" } else if b.bytes().all(|x| x.is_ascii_digit()) && !b.is_empty() { match b.parse::<u128>().unwrap_or(u128::MAX) { v if v < HARD as u128 => "std", v if v <= u32::MAX as u128 => "ge2^31", v if v <= u64::MAX as u128 => "ge2^32", _ => "ge2^64" } } else { "non-decimal" };
        format!("{k}{}", if c.ends_with('\'') && c.len() > 1 { "'" } else { "" })
    }).collect();
    kinds.sort(); kinds.dedup();
    format!("root={root},comps={{{}}},ref={}", kinds.join("|"), class.name())
}
impl HistSpace for Space {
    type Sym = u16; // < 100: root variant, >= 100: token
    fn name(&self) -> String { self.label.into() }
    fn bound(&self) -> String { format!("{} root spellings x every sequence of <= {} components over {} tokens (values at the 2^31, 2^32, 2^64 boundaries in both markings, malformed and exotic spellings)", ROOTS.len(), self.depth, self.toks.len()) }
    fn roots(&self) -> Vec<Vec<u16>> { (0..ROOTS.len() as u16).map(|r| vec![r]).collect() }
    fn symbols(&self) -> Vec<u16> { (0..self.toks.len() as u16).map(|t| t + 100).collect() }
    fn max_len(&self) -> usize { self.depth + 1 }
    fn check(&self, ctx: &Ctx, hist: &[u16], index: u64) { check_text(ctx, self.label, index, &text_of(hist, &self.toks), &self.seed, &self.curve) }
}
pub fn for_index_text(i: u32) -> Option<String> { hdk::Path::for_index(i as usize).ok().map(|p| p.to_string()) }

pub fn run(ctx: &'static Ctx) {
    let seed = filler_bytes(ctx.seed, 0xC14, 64); let curve = Curve::new();
    bfs(ctx, Space { depth: if ctx.quick() { 2 } else { 3 }, toks: tokens(), seed: seed.clone(), curve: Curve::new(), label: "bfs-path-tokens" });
    if ctx.thorough() { let few: Vec<String> = ["0", "0'", "2147483647'", "2147483648", "", "x", "+1", "01"].iter().map(|s| s.to_string()).collect(); bfs(ctx, Space { depth: 6, toks: few, seed: seed.clone(), curve: Curve::new(), label: "bfs-path-tokens-deep" }); }
    // structure beyond the BFS depth: a line of distinct valid components of depth d with ONE token (valid or defective)
    // substituted at position p - every position for d <= 12, first / middle / last beyond (fixed-capacity component
    // stores, depth counters of every width)
    let subs: Vec<String> = ["7", "7'", "2147483647", "2147483647'", "2147483648", "2147483648'", "4294967296", "", "x", "-1", "1.5", "0x1", "+1", "01", "1''", "'", " 1", "1 ", "-0", "-0'", "+0", "0.0"].iter().map(|s| s.to_string()).collect();
    let mut deep: Vec<(usize, usize, usize)> = Vec::new(); // (depth, position, substitute)
    for d in (3..=12usize).chain([15, 16, 17, 31, 32, 33, 63, 64, 65, 127, 128, 129, 255, 256, 257, 300]) { let ps: Vec<usize> = if d <= 12 { (0..d).collect() } else { vec![0, d / 2, d - 2, d - 1] }; for p in ps { for k in 0..subs.len() { deep.push((d, p, k)); } } }
    ctx.sweep("deep-line-one-substitution", "lines m/1/2'/3/4'/... of depth 3..=12 with one of 18 tokens (7 valid spellings and bounds, 11 defective ones) substituted at every position, and of depth 15..300 around every power of two at the first, middle, last-but-one and last position: the reference grammar's verdict, canonical print-back and the reference key", deep.len() as u64, |i| {
        let (d, p, k) = deep[i as usize];
        let comps: Vec<String> = (0..d).map(|j| if j == p { subs[k].clone() } else { format!("{}{}", j + 1, if j % 2 == 1 { "'" } else { "" }) }).collect();
        check_text(ctx, "deep-line-one-substitution", i, &format!("m/{}", comps.join("/")), &seed, &curve);
    });
    // default account path
    let idx: Vec<usize> = vec![0, 1, 2, 7, 1000, 65536, 0x7fff_fffe, 0x7fff_ffff];
    ctx.sweep("for-index", "Path::for_index(i) for i in {0,1,2,7,1000,65536,2^31-2,2^31-1}", idx.len() as u64, |k| {
        let i = idx[k as usize];
        let replay = json!({"sweep": "for-index", "index": k, "entry": "hdk::Path::for_index", "account_index": i});
        let want_path = [44 | HARD, 60 | HARD, HARD, 0, i as u32];
        match guard(|| hdk::Path::for_index(i).map(|p| (p.to_string(), hdk::derive(&seed, &p).ok().map(|k| k.secret())))) {
            Err(p) => { ctx.eval("for_index:panic"); ctx.panic_violation(format!("{P}:for_index:std-index:panic@{}", panic_site(&p)), format!("for_index({i}) panics: {p}"), replay) }
            Ok(Err(e)) => { ctx.eval("for_index:error"); ctx.violation(format!("{P}:for_index:std-index:error"), format!("for_index({i}) fails: {e}"), replay) }
            Ok(Ok((shown, key))) => { ctx.eval("for_index:path");
                if shown != format!("m/44'/60'/0'/0/{i}") { ctx.violation(format!("{P}:for_index:std-index:wrong-path"), format!("default path for account {i} is '{shown}'"), replay) }
                else if key != bip32::derive(&curve, &seed, &want_path).map(|x| x.k.to_be()) { ctx.violation(format!("{P}:for_index:std-index:wrong-key"), "default path derives a different key than m/44'/60'/0'/0/i", replay) } }
        }
    });
    let bad_idx: Vec<usize> = vec![0x8000_0000, 0x8000_0001, 0xffff_ffff, 0x1_0000_0000, usize::MAX];
    ctx.sweep("for-index-out-of-range", "Path::for_index(i) for i in {2^31, 2^31+1, 2^32-1, 2^32, 2^64-1}: no default path exists, an error is required", bad_idx.len() as u64, |k| {
        let i = bad_idx[k as usize]; let replay = json!({"sweep": "for-index-out-of-range", "index": k, "entry": "hdk::Path::for_index", "account_index": i.to_string()});
        match guard(|| hdk::Path::for_index(i).map(|p| p.to_string())) {
            Err(p) => { ctx.eval("for_index:ge-2^31:panic"); ctx.panic_violation(format!("{P}:for_index:ge-2^31:panic@{}", panic_site(&p)), format!("for_index({i}) panics: {p}"), replay) }
            Ok(Err(_)) => ctx.eval("for_index:ge-2^31:error"),
            Ok(Ok(shown)) => { ctx.eval("for_index:ge-2^31:path"); ctx.violation(format!("{P}:for_index:ge-2^31:accepted"), format!("account index {i} >= 2^31 yields the path '{shown}'"), replay) }
        }
    });
    ctx.guard_check("accepting and rejecting states seen", ctx.classes_matching(|c| c.ends_with(":accepted")) > 0 && ctx.classes_matching(|c| c.ends_with(":rejected")) > 0, "both outcomes occurred");
    crate::hist::histories(ctx, P, "path-histories", "Path::from_str / Display / for_index, a sequence on one fresh thread", crate::hist::c14_ops());
}

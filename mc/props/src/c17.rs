//! C17 — no input makes the tool panic, abort or hang (library part).
//! The union of every other property's alphabet run with all non-crash oracles muted, plus one-edit neighbourhoods
//! and the size-bounded stress inputs the property names (array-suffix depth <= 64, JSON nesting <= 128, chain ids to 2^256-1).
use crate::tdcheck;
use crate::txcheck::{observe_tx, Signer};
use explore::{guard, panic_site, Ctx};
use hdwallet::hdk;
use hdwallet::mnemonic::{Language, Mnemonic};
use refmodel::json::J;
use refmodel::nat::Nat;
use refmodel::secp::U256;
use refmodel::tx::Kind;
use refmodel::txjson::{self, Spell};
use serde_json::json;

const P: &str = "C17";
fn crash(ctx: &Ctx, sweep: &str, i: u64, shape: &str, entry: &str, input: &str, r: Result<(), String>) {
    match r { Ok(()) => ctx.eval(format!("{shape}:returned")), Err(p) => { ctx.eval(format!("{shape}:panic")); ctx.panic_violation(format!("{P}:{entry}:{shape}:panic@{}", panic_site(&p)), format!("{entry} panics: {p}"), json!({"sweep": sweep, "index": i, "entry": entry, "input": if input.len() > 3000 { format!("{}…", &input[..3000]) } else { input.to_string() }})) } }
}
pub fn run(ctx: &'static Ctx) {
    // 1. the union of the other properties' alphabets (their sweeps record panics; every other verdict is muted by panic_only)
    crate::c01::run(ctx); crate::c02::run(ctx); crate::c03::run(ctx); crate::c04::run(ctx); crate::c05::run(ctx); crate::c06::run(ctx); crate::c07::run(ctx); crate::c08::run(ctx); crate::c09::run(ctx); crate::c10::run(ctx);
    crate::c11::run(ctx); crate::c12::run(ctx); crate::c13::run(ctx); crate::c14::run(ctx); crate::c15::run(ctx); crate::c20::run(ctx);
    // 2. chain ids up to 2^256-1 through the transaction JSON path, signed and encoded
    let big: Vec<Nat> = { let c = Nat::pow2(255).sub(&Nat::from_u64(19)); let one = Nat::from_u64(1); vec![c.clone(), c.add(&one), Nat::pow2(255), Nat::pow2(255).add(&one), Nat::pow2(256).sub(&Nat::from_u64(37)), Nat::pow2(256).sub(&Nat::from_u64(36)), Nat::pow2(256).sub(&Nat::from_u64(2)), Nat::pow2(256).sub(&one), Nat::pow2(256), Nat::pow2(300)] };
    let kinds = [(Kind::Legacy, "legacy"), (Kind::Eip2930, "eip2930"), (Kind::Eip1559, "eip1559")];
    ctx.sweep("huge-chain-ids", "chain ids cmax, cmax+1, 2^255, 2^255+1, 2^256-37, 2^256-36, 2^256-2, 2^256-1, 2^256, 2^300 x 3 kinds x {hex, decimal} x both parities: parse, hash, sign, encode", (big.len() * 3 * 2 * 2) as u64, |i| {
        let mut k = i as usize; let mut take = |m: usize| { let v = k % m; k /= m; v };
        let odd = take(2) == 1; let sp = [Spell::Hex, Spell::Dec][take(2)]; let (kind, kn) = kinds[take(3)]; let c = &big[take(big.len())];
        let mut f = txjson::tx_fields(&txjson::template(kind, true), Spell::Auto); txjson::set(&mut f, "chainId", Some(txjson::num(c, sp)));
        let text = J::Obj(f).to_text();
        crash(ctx, "huge-chain-ids", i, &format!("{kn},chain-id-bits={}", c.bit_len()), "transaction", &text, observe_tx(&text, &Signer::Fixed(U256::from_u64(3), U256::from_u64(4), odd)).map(|_| ()));
    });
    // 3. typed data: type strings with 0..=64 array suffixes of each form, JSON nesting to 128, odd type names
    ctx.sweep("array-suffix-depth", "member types `uint8` + k suffixes for k in 0..=64, suffix forms [] / [1] / [0] / alternating, with a value nested k deep", 65 * 4, |i| {
        let k = (i / 4) as usize; let form = i % 4;
        let ty: String = format!("uint8{}", (0..k).map(|j| match form { 0 => "[]", 1 => "[1]", 2 => "[0]", _ => if j % 2 == 0 { "[]" } else { "[1]" } }).collect::<String>());
        let mut v = J::n("1"); for j in (0..k).rev() { v = match form { 2 => J::Arr(vec![]), _ => J::Arr(vec![v]) }; let _ = j; }
        let doc = tdcheck::simple_doc(vec![("Msg".into(), tdcheck::sv(&[("x", ty.as_str())]))], "Msg", J::obj(vec![("x", v)]));
        let text = doc.to_json().to_text();
        crash(ctx, "array-suffix-depth", i, &format!("suffixes={},form={form}", match k { 0 => "0", 1..=8 => "1-8", 9..=32 => "9-32", _ => "33-64" }), "typeddata", &text, tdcheck::observe(&text).map(|_| ()));
    });
    ctx.sweep("json-nesting", "typed-data and transaction documents with arrays / objects nested 1..=128 deep (and 129, 200) in a value position", 132 * 4, |i| {
        let depth = match i / 4 { d @ 0..=127 => d as usize + 1, 128 => 129, 129 => 200, 130 => 1000, _ => 10000 }; let form = i % 4;
        let (open, close) = if form % 2 == 0 { ("[", "]") } else { ("{\"a\":", "}") };
        let nested = format!("{}1{}", open.repeat(depth), close.repeat(depth));
        let text = if form < 2 { format!("{{\"types\":{{\"EIP712Domain\":[{{\"name\":\"name\",\"type\":\"string\"}}],\"M\":[{{\"name\":\"x\",\"type\":\"uint8{}\"}}]}},\"primaryType\":\"M\",\"domain\":{{\"name\":\"n\"}},\"message\":{{\"x\":{nested}}}}}", "[]".repeat(depth.min(64))) }
            else { format!("{{\"nonce\":{nested},\"gasPrice\":1,\"gas\":1,\"value\":1,\"data\":\"0x\",\"chainId\":1}}") };
        let r = if form < 2 { tdcheck::observe(&text).map(|_| ()) } else { observe_tx(&text, &Signer::Fixed(U256::from_u64(3), U256::from_u64(4), false)).map(|_| ()) };
        crash(ctx, "json-nesting", i, &format!("{},depth={}", if form < 2 { "typeddata" } else { "transaction" }, match depth { 0..=64 => "<=64", 65..=128 => "65-128", _ => ">128" }), if form < 2 { "typeddata" } else { "transaction" }, &text, r);
    });
    // type graphs in which work would explode if dependencies were resolved per reference path instead of per type:
    // ladders L_k(L_{k+1}[] a, L_{k+1}[] b) and long single chains
    let mut ladders: Vec<(String, refmodel::eip712::Doc)> = Vec::new();
    for (depth, width) in [(10usize, 2usize), (20, 2), (30, 2), (48, 2), (64, 2), (20, 3), (40, 3), (16, 5), (100, 1), (1000, 1), (5000, 1)] {
        let mut types = Vec::new();
        for k in 0..depth { let ms: Vec<(String, String)> = (0..width).map(|j| (format!("m{j}"), if k + 1 < depth { format!("L{}[]", k + 1) } else { "uint8[]".to_string() })).collect(); types.push((format!("L{k}"), ms)); }
        let msg = J::Obj((0..width).map(|j| (format!("m{j}"), J::Arr(vec![]))).collect());
        ladders.push((format!("ladder-depth={depth},width={width}"), tdcheck::simple_doc(types, "L0", msg)));
    }
    ctx.sweep("dependency-ladders", "type ladders L_k(L_{k+1}[] ...) of depth 10..64 with 2, 3 and 5 references per level, and single chains of 100, 1000 and 5000 types; empty arrays as values: must terminate (and hash like the reference)", ladders.len() as u64, |i| {
        let (shape, doc) = &ladders[i as usize]; tdcheck::check_doc(ctx, P, "dependency-ladders", i, shape, doc);
    });
    let odd_types = ["", " ", "[]", "[", "]", "[1", "1]", "[][", "uint", "int", "uint0", "uint8x", "bytes", "bytes00", "bytes033", "uint256[", "uint256[]]", "uint256[-1]", "uint256[18446744073709551616]", "uint256[4294967296]", "uint256[1099511627776]", "uint256[576460752303423487]", "uint256[576460752303423488]", "uint256[9223372036854775808]", "uint256[18446744073709551615]", "uint8[2][18446744073709551615]", "S[1152921504606846976]", "uint08", "uint99999999999", "bytes4294967297", "\u{ff11}", "uint\u{661}", "M", "M[]", "EIP712Domain", "string[1][", "a b", "uint256 x", "(", "uint8[999999]"];
    ctx.sweep("type-name-neighbourhood", "40 malformed or extreme member type names (empty, unbalanced brackets, fixed sizes of 2^32, 2^40, 2^59-1, 2^59, 2^63, 2^64-1, non-ASCII digits, self reference) with scalar, one-element array, object and empty-array values", (odd_types.len() * 4) as u64, |i| {
        let ty = odd_types[i as usize / 4]; let v = [J::n("1"), J::Arr(vec![J::n("1")]), J::obj(vec![("x", J::n("1"))]), J::Arr(vec![])][i as usize % 4].clone();
        let doc = tdcheck::simple_doc(vec![("M".into(), tdcheck::sv(&[("x", ty)]))], "M", J::obj(vec![("x", v)])); let text = doc.to_json().to_text();
        crash(ctx, "type-name-neighbourhood", i, "odd-type-name", "typeddata", &text, tdcheck::observe(&text).map(|_| ()));
    });
    // 4. one-edit neighbourhoods of valid inputs over boundary tokens
    let toks = ["", " ", "0", "-1", "1.5", "x", "'", "''", "/", "m", "2147483647", "2147483648", "4294967295", "4294967296", "9007199254740993", "18446744073709551615", "18446744073709551616", "340282366920938463463374607431768211456", "\u{e9}", "\u{0}", "\u{1f600}", "0x10", "+1", "١", "1e3"];
    let long = "9".repeat(10_000);
    let seeds_path = ["m/44'/60'/0'/0/0", "m/0", "m/1'/2/3'"];
    let mut pn: Vec<String> = Vec::new();
    for s in seeds_path { let comps: Vec<&str> = s.split('/').collect(); for p in 0..comps.len() { for t in toks.iter().copied().chain([long.as_str()]) { let mut c = comps.clone(); c[p] = t; pn.push(c.join("/")); let mut d = comps.clone(); d.insert(p, t); pn.push(d.join("/")); } let mut e = comps.clone(); e.remove(p); pn.push(e.join("/")); } }
    ctx.sweep("path-neighbourhood", "every single-token replacement / insertion / deletion in 3 valid paths over 26 boundary tokens (empty, signs, 2^31, 2^32, 2^53, 2^64, 2^128, 10^4 digits, NUL, non-ASCII digits)", pn.len() as u64, |i| {
        let t = &pn[i as usize]; crash(ctx, "path-neighbourhood", i, "path-edit", "hdk::Path", t, guard(|| { if let Ok(p) = t.parse::<hdk::Path>() { let _ = p.to_string(); let _ = hdk::derive([7u8; 64], &p); } }));
    });
    let idx: Vec<usize> = vec![0, 1, 0x7fff_ffff, 0x8000_0000, 0xffff_ffff, 0x1_0000_0000, 1 << 53, usize::MAX - 1, usize::MAX];
    ctx.sweep("account-index", "Path::for_index at 0, 1, 2^31-1, 2^31, 2^32-1, 2^32, 2^53, 2^64-2, 2^64-1", idx.len() as u64, |i| {
        let v = idx[i as usize]; crash(ctx, "account-index", i, &format!("index-bits={}", 64 - v.leading_zeros()), "Path::for_index", &v.to_string(), guard(|| { if let Ok(p) = hdk::Path::for_index(v) { let _ = hdk::derive([7u8; 64], &p); } }));
    });
    let words = ["abandon", "about", "zoo", "wrong", "", "Abandon", "\u{e9}", "\u{0}", "abandon\u{200b}"];
    ctx.sweep("phrase-neighbourhood", "word counts 0..=40 of each of 9 tokens (valid, invalid, empty, NUL, non-ASCII) and a 10^4-word phrase; random generation for lengths 0..=40 and extremes", (41 * words.len() + 1 + 45) as u64, |i| {
        let nw = 41 * words.len() as u64;
        if i < nw { let (n, w) = ((i / words.len() as u64) as usize, words[(i % words.len() as u64) as usize]); let t = vec![w; n].join(" "); crash(ctx, "phrase-neighbourhood", i, &format!("words-class={}", match n { 0 => "0", 1..=11 => "1-11", 12..=24 => "12-24", _ => "25-40" }), "Mnemonic::from_phrase", &t, guard(|| { if let Ok(m) = Mnemonic::from_phrase(&t) { let _ = m.to_phrase(); let _ = m.seed(""); } })); }
        else if i == nw { let t = vec!["zoo"; 10_000].join(" "); crash(ctx, "phrase-neighbourhood", i, "words=10000", "Mnemonic::from_phrase", "zoo x 10000", guard(|| { let _ = Mnemonic::from_phrase(&t); })); }
        else { let n = match i - nw - 1 { k @ 0..=40 => k as usize, 41 => usize::MAX, 42 => usize::MAX / 11, 43 => 1 << 32, _ => (1usize << 61) + 3 }; crash(ctx, "phrase-neighbourhood", i, "random-length", "Mnemonic::random", &n.to_string(), guard(|| { let _ = Mnemonic::random(Language::English, n).map(|m| m.to_phrase()); })); }
    });
    // 9. diagnostics that echo the input: a value of the WRONG KIND that is long and not ASCII, at every length around the
    // places where a message is likely to be cut (16..=140 bytes, and around 256 / 1024), with 2-, 3- and 4-byte characters, so
    // that every cut position falls inside a character for some case; in typed data (struct member, array member, atomic
    // members), in transactions (every field), as phrase, path, signature and digest text
    let chars = ["\u{e9}", "\u{3042}", "\u{1f600}"]; let lens: Vec<usize> = (16..=140).chain(250..=262).chain(1018..=1030).collect();
    let sites = ["td-struct-member", "td-array-member", "td-uint-member", "td-address-member", "td-bytes32-member", "td-bool-member", "td-type-name", "tx-to", "tx-nonce", "tx-data", "tx-access-list", "phrase", "path", "signature"];
    ctx.sweep("diagnostic-echo", "a long non-ASCII text where another kind of value is expected: 14 sites x 151 byte lengths (16..=140, 250..=262, 1018..=1030) x 2-, 3- and 4-byte characters (the text is `a` * k followed by the character repeated): an ordinary error", (sites.len() * lens.len() * chars.len()) as u64, |i| {
        let mut k = i as usize; let mut take = |m: usize| { let v = k % m; k /= m; v };
        let ch = chars[take(chars.len())]; let len = lens[take(lens.len())]; let site = sites[take(sites.len())];
        // `a` * (len mod character size ... ) so that byte `len` is not a boundary for some offset: shift by 0..3 with the index
        let shift = (i as usize / 7) % 4; let mut text = "a".repeat(shift); while text.len() < len + 8 { text.push_str(ch); }
        let shape = format!("echo:{site},char-bytes={}", ch.len());
        let person = ("Person".to_string(), tdcheck::sv(&[("name", "string")]));
        let td = |member_ty: &str, v: J| -> String { tdcheck::simple_doc(vec![("Msg".into(), tdcheck::sv(&[("x", member_ty)])), person.clone()], "Msg", J::obj(vec![("x", v)])).to_json().to_text() };
        let r: Result<(), String> = match site {
            "td-struct-member" => tdcheck::observe(&td("Person", J::Str(text.clone()))).map(|_| ()),
            "td-array-member" => tdcheck::observe(&td("string[]", J::Str(text.clone()))).map(|_| ()),
            "td-uint-member" => tdcheck::observe(&td("uint256", J::Str(text.clone()))).map(|_| ()),
            "td-address-member" => tdcheck::observe(&td("address", J::Str(text.clone()))).map(|_| ()),
            "td-bytes32-member" => tdcheck::observe(&td("bytes32", J::Str(format!("0x{text}")))).map(|_| ()),
            "td-bool-member" => tdcheck::observe(&td("bool", J::Str(text.clone()))).map(|_| ()),
            "td-type-name" => tdcheck::observe(&td(&text, J::n("1"))).map(|_| ()),
            "phrase" => guard(|| { let _ = Mnemonic::from_phrase(&format!("abandon {text} about")); let _ = text.parse::<Mnemonic>(); }),
            "path" => guard(|| { let _ = format!("m/{text}").parse::<hdk::Path>(); let _ = format!("m/0/{text}'/1").parse::<hdk::Path>(); }),
            "signature" => guard(|| { let _ = text.parse::<hdwallet::account::Signature>(); let _ = format!("0x{text}").parse::<hdwallet::account::Signature>(); }),
            tx_site => { let mut f = txjson::tx_fields(&txjson::template(Kind::Eip1559, true), Spell::Auto);
                match tx_site { "tx-to" => txjson::set(&mut f, "to", Some(J::Str(format!("0x{text}")))), "tx-nonce" => txjson::set(&mut f, "nonce", Some(J::Str(text.clone()))), "tx-data" => txjson::set(&mut f, "data", Some(J::Str(format!("0x{text}")))), _ => txjson::set(&mut f, "accessList", Some(J::Arr(vec![J::Str(text.clone())]))) }
                let doc = J::Obj(f).to_text(); observe_tx(&doc, &Signer::Fixed(U256::from_u64(1), U256::from_u64(1), false)).map(|_| ()) }
        };
        crash(ctx, "diagnostic-echo", i, &shape, site, &format!("{} bytes, shift {shift}", text.len()), r);
    });
}

//! C10 — personal-message digest is the EIP-191 prefixed Keccak-256.
use explore::{filler_bytes, guard, panic_site, Ctx};
use hdwallet::message::EthereumMessage;
use refmodel::eth::eip191_digest;
use serde_json::json;

const P: &str = "C10";
pub fn messages(seed: u64, thorough: bool) -> Vec<(String, Vec<u8>)> {
    let mut v: Vec<(String, Vec<u8>)> = Vec::new();
    for len in 0..=(if thorough { 12_000usize } else { 1100 }) { v.push((format!("len-digits={}", len.to_string().len()), filler_bytes(seed, 0xC10 + len as u64, len))); }
    for b in 0..=255u8 { v.push(("single-byte".into(), vec![b])); }
    let ks: &[u32] = if thorough { &[4, 5, 6, 7] } else { &[4, 5, 6] };
    for k in ks { for d in [-1i64, 0, 1] { let len = (10i64.pow(*k) + d) as usize; v.push((format!("len-digits={}", len.to_string().len()), filler_bytes(seed, 0xAA + len as u64, len))); } }
    for len in [1usize, 9, 10, 11, 99, 100, 101, 999, 1000] {
        v.push(("all-zero".into(), vec![0; len])); v.push(("all-ff".into(), vec![0xff; len]));
        v.push(("digits".into(), (0..len).map(|i| b'0' + (i % 10) as u8).collect()));
        v.push(("invalid-utf8".into(), (0..len).map(|i| if i % 2 == 0 { 0xc3 } else { 0x28 }).collect()));
        v.push(("utf8".into(), "\u{e9}\u{1f600}x".bytes().cycle().take(len).collect()));
    }
    v.push(("starts-with-prefix".into(), b"\x19Ethereum Signed Message:\n5hello".to_vec()));
    v.push(("starts-with-length".into(), b"12hello world!".to_vec()));
    for core in [b"hello".as_slice(), b"\x00\x01\xfe\xff", b""] { for (n, m) in explore::affix_classes(core) { v.push((format!("affix-{n}"), m)); } }
    v.push(("newline".into(), b"\n".to_vec())); v.push(("crlf-tail".into(), b"hello\r\n".to_vec()));
    v
}
pub fn run(ctx: &Ctx) {
    let ms = messages(ctx.seed, ctx.thorough());
    ctx.sweep("messages", "every length 0..=1100, every single byte, 10^k-1..10^k+1 for k=4..6 (7 in thorough), content classes (zero, ff, digits, invalid UTF-8, prefix look-alikes)", ms.len() as u64, |i| {
        let (class, m) = &ms[i as usize]; let want = eip191_digest(m);
        let replay = json!({"sweep": "messages", "index": i, "entry": "EthereumMessage::signing_message", "len": m.len(), "message_hex_prefix": explore::hex(&m[..m.len().min(64)]), "reference": explore::hex(&want)});
        ctx.sample("messages", || replay.clone());
        match guard(|| (EthereumMessage(m.as_slice()).signing_message().0, EthereumMessage(m.clone()).signing_message().0)) {
            Err(p) => { ctx.eval(format!("{class}:panic")); ctx.panic_violation(format!("{P}:signing_message:{class}:panic@{}", panic_site(&p)), format!("panics: {p}"), replay) }
            Ok((a, b)) => { ctx.eval(format!("{class}:digest")); if a != want || b != want { ctx.violation(format!("{P}:signing_message:{class}:differs"), format!("digest {} is not Keccak-256(0x19 \"Ethereum Signed Message:\\n\" len m)", explore::hex(&a)), replay) } }
        }
    });
    crate::hist::histories(ctx, P, "message-histories", "EthereumMessage::signing_message, a sequence on one fresh thread", crate::hist::c10_ops());
    crate::hist::under_entropy_answers(ctx, P, "messages-under-entropy-answers", "EthereumMessage::signing_message with the entropy source scripted", crate::hist::c10_ops());
    crate::hist::size_runs(ctx, P, "message-size-runs", "EthereumMessage::signing_message, sizes across orders of magnitude on one fresh thread", &crate::hist::size_ladder(ctx.thorough()), crate::hist::c10_sized(ctx.seed));
}

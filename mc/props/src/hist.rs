//! Operation histories ("start from non-initial states"): every sequence of `depth` operations over a small alphabet of
//! operations whose arguments are chosen to collide (same words / other passphrase, same path / other seed, same type names /
//! other members, same transaction / other key ...) runs on ONE fresh thread. Every step must give the reference result of
//! its own arguments whatever ran before it: state that survives a call (thread-local or process-wide caches, lazily built
//! tables, reused buffers) shows only in such sequences. The sequence index is the replay handle, so a violation is
//! re-executed as the same history.
use crate::txcheck::{compare_tx, observe_tx, Signer};
use explore::{guard, panic_site, Ctx};
use hdwallet::account::{PrivateKey, Signature};
use hdwallet::hdk;
use hdwallet::mnemonic::Mnemonic;
use refmodel::eip712;
use refmodel::grammar::{self, HARD};
use refmodel::json::{Class, J};
use refmodel::secp::{self, Curve, U256};
use refmodel::tx::Kind;
use refmodel::txjson::{self, Spell};
use refmodel::{bip32, bip39, eth, nfkd};
use serde_json::json;
use std::sync::Arc;

pub type Outcome = Result<&'static str, String>;
pub struct Op { pub label: String, pub check: Box<dyn Fn() -> Outcome + Send + Sync> }
pub fn op(label: impl Into<String>, f: impl Fn() -> Outcome + Send + Sync + 'static) -> Op { Op { label: label.into(), check: Box::new(f) } }

/// A,B,A-style pattern of a sequence (operations relabelled by first occurrence)
pub fn pattern(seq: &[usize]) -> String {
    let mut seen: Vec<usize> = Vec::new();
    seq.iter().map(|k| { let p = seen.iter().position(|x| x == k).unwrap_or_else(|| { seen.push(*k); seen.len() - 1 }); ((b'A' + p as u8) as char).to_string() }).collect::<Vec<_>>().join(",")
}

pub fn histories(ctx: &Ctx, p: &str, name: &str, entry: &str, ops: Vec<Op>) {
    let depth: u32 = if ctx.quick() { 3 } else { 4 };
    let ops = Arc::new(ops); let n = ops.len() as u64; let total = n.pow(depth);
    let bound = format!("every sequence of {depth} operations over {n} operations with colliding arguments [{}], each sequence on one fresh thread: every step gives the reference result of its own arguments whatever ran before it", ops.iter().map(|o| o.label.clone()).collect::<Vec<_>>().join(" | "));
    ctx.sweep(name, &bound, total, |i| {
        let mut seq = Vec::new(); let mut x = i; for _ in 0..depth { seq.push((x % n) as usize); x /= n; } seq.reverse();
        let (ops2, s2) = (ops.clone(), seq.clone());
        let got: Vec<Result<Outcome, String>> = std::thread::spawn(move || s2.iter().map(|k| guard(|| (ops2[*k].check)())).collect()).join().unwrap_or_else(|_| vec![Err("thread died".into())]);
        let pat = pattern(&seq);
        let replay = json!({"sweep": name, "index": i, "entry": entry, "sequence": seq.iter().map(|k| ops[*k].label.clone()).collect::<Vec<_>>()});
        ctx.sample(name, || replay.clone());
        for (step, r) in got.iter().enumerate() {
            match r {
                Err(pn) => { ctx.eval(format!("history={pat}:panic")); ctx.panic_violation(format!("{p}:history:{pat}:step-{}:panic@{}", step + 1, panic_site(pn)), format!("operation {} of the sequence ({}) panics: {pn}", step + 1, ops[seq[step]].label), replay); return; }
                Ok(Err(m)) => { ctx.eval(format!("history={pat}:step-differs")); ctx.violation(format!("{p}:history:{pat}:step-{}-differs-from-reference", step + 1), format!("operation {} of the sequence ({}): {m}", step + 1, ops[seq[step]].label), replay); return; }
                Ok(Ok(_)) => {}
            }
        }
        ctx.eval(format!("history={pat}:{}", got.iter().map(|r| *r.as_ref().unwrap().as_ref().unwrap()).collect::<Vec<_>>().join(",")));
    });
}

/// Long runs over MANY distinct arguments on one fresh thread (bounded caches, least-recently-used lists, pools: whatever a
/// size limit does when it is reached shows only after more distinct arguments than the limit). `make(k)` is the k-th of
/// `n` operations with pairwise distinct arguments; the visiting orders are: forward twice; forward then backward; zig-zag
/// (k, k+1, k for every k: the argument used just before the newest one is used again); a hot argument alternating with a
/// stream of new ones; and the triangular order 0, 0 1, 0 1 2, ...
pub fn long_runs(ctx: &Ctx, p: &str, name: &str, entry: &str, n: usize, make: impl Fn(usize) -> Op) {
    let ops: Arc<Vec<Op>> = Arc::new((0..n).map(&make).collect());
    let orders: Vec<(&str, Vec<usize>)> = vec![
        ("forward-twice", (0..n).chain(0..n).collect()), ("forward-then-backward", (0..n).chain((0..n).rev()).collect()),
        ("zig-zag", (0..n - 1).flat_map(|k| [k, k + 1, k]).collect()), ("hot-argument-and-a-stream", (1..n).flat_map(|k| [0, k]).chain([0]).collect()),
        ("triangular", (0..n.min(24)).flat_map(|k| 0..=k).collect()), ("backward-zig-zag", (1..n).rev().flat_map(|k| [k, k - 1, k]).collect())];
    let bound = format!("{n} operations with pairwise distinct arguments visited on one fresh thread in {} orders (forward twice, forward then backward, zig-zag, a hot argument against a stream of new ones, triangular, backward zig-zag): every result is the reference result of its own arguments", orders.len());
    ctx.sweep(name, &bound, orders.len() as u64, |i| {
        let (oname, order) = &orders[i as usize]; let (ops2, ord2) = (ops.clone(), order.clone());
        let got: Vec<Result<Outcome, String>> = std::thread::Builder::new().stack_size(16 << 20).spawn(move || ord2.iter().map(|k| guard(|| (ops2[*k].check)())).collect()).expect("spawn").join().unwrap_or_else(|_| vec![Err("thread died".into())]);
        let replay = json!({"sweep": name, "index": i, "entry": entry, "order": oname, "distinct_arguments": n, "operations": order.len()});
        ctx.sample(name, || replay.clone());
        for (step, r) in got.iter().enumerate() {
            match r {
                Err(pn) => { ctx.eval(format!("run={oname}:panic")); ctx.panic_violation(format!("{p}:long-run:{oname}:panic@{}", panic_site(pn)), format!("operation {} of the run ({}) panics: {pn}", step + 1, ops[order[step]].label), replay); return; }
                Ok(Err(m)) => { ctx.eval(format!("run={oname}:step-differs")); ctx.violation(format!("{p}:long-run:{oname}:differs-from-reference"), format!("operation {} of the run ({}, argument #{} of {n}): {m}", step + 1, ops[order[step]].label, order[step]), replay); return; }
                Ok(Ok(_)) => {}
            }
        }
        ctx.eval(format!("run={oname}:all-agree"));
    });
}

/// Sizes spanning orders of magnitude inside ONE history: a buffer that is kept between calls and grown, shrunk, released or
/// re-used according to the size of what went through it shows only when a small argument FOLLOWS a large one (or the other
/// way round) on the same thread. `make(size)` is the operation for an argument of that size; every ordered pair (a, b) of
/// distinct sizes is run as a, b, a, b on one fresh thread.
pub fn size_ladder(thorough: bool) -> Vec<usize> {
    let mut v = vec![0usize, 1, 55, 56, 136, 1000, 4096, 65_535, 65_536, 300_000, (1 << 20) - 40, 1 << 20, (1 << 20) + 100, (1 << 21) + 7];
    if thorough { v.extend([(1 << 22) + 1, (1 << 24) + 1]); }
    v
}
pub fn size_runs(ctx: &Ctx, p: &str, name: &str, entry: &str, sizes: &[usize], make: impl Fn(usize) -> Op) {
    let ops: Arc<Vec<Op>> = Arc::new(sizes.iter().map(|n| make(*n)).collect()); let n = sizes.len() as u64; let sizes: Vec<usize> = sizes.to_vec();
    let bound = format!("argument sizes {sizes:?}: every ordered pair (a, b) of distinct sizes run as a, b, a, b on one fresh thread: every result is the reference result of its own argument whatever size went before");
    ctx.sweep(name, &bound, n * n, |i| {
        let (a, b) = ((i / n) as usize, (i % n) as usize); if a == b { ctx.eval("size-run:same-size-skipped"); return; }
        let order = vec![a, b, a, b]; let (ops2, ord2) = (ops.clone(), order.clone());
        let got: Vec<Result<Outcome, String>> = std::thread::Builder::new().stack_size(16 << 20).spawn(move || ord2.iter().map(|k| guard(|| (ops2[*k].check)())).collect()).expect("spawn").join().unwrap_or_else(|_| vec![Err("thread died".into())]);
        let replay = json!({"sweep": name, "index": i, "entry": entry, "sizes_in_order": order.iter().map(|k| sizes[*k]).collect::<Vec<_>>()});
        ctx.sample(name, || replay.clone());
        let class = |x: usize| match sizes[x] { 0..=55 => "0..=55", 56..=65_535 => "56..=65535", 65_536..=1_048_575 => "64Ki..1Mi", _ => ">=1Mi" };
        let shape = format!("size-run:{}-then-{}", class(a), class(b));
        for (step, r) in got.iter().enumerate() {
            match r {
                Err(pn) => { ctx.eval(format!("{shape}:panic")); ctx.panic_violation(format!("{p}:size-run:{shape}:panic@{}", panic_site(pn)), format!("operation {} of the run ({}) panics: {pn}", step + 1, ops[order[step]].label), replay); return; }
                Ok(Err(m)) => { ctx.eval(format!("{shape}:step-differs")); ctx.violation(format!("{p}:size-run:{shape}:differs-from-reference"), format!("operation {} of the run ({}, after sizes {:?}): {m}", step + 1, ops[order[step]].label, order[..step].iter().map(|k| sizes[*k]).collect::<Vec<_>>()), replay); return; }
                Ok(Ok(_)) => {}
            }
        }
        ctx.eval(format!("{shape}:all-agree"));
    });
}
pub fn c10_sized(seed: u64) -> impl Fn(usize) -> Op { move |n| { let m = explore::filler_bytes(seed, 0x51CE + n as u64, n); let want = eth::eip191_digest(&m);
    op(format!("personal-message digest of {n} bytes"), move || { let got = hdwallet::message::EthereumMessage(&m[..]).signing_message().0; if got == want { Ok("digest") } else { Err(format!("digest {} instead of {}", explore::hex(&got), explore::hex(&want))) } }) } }
pub fn c06_sized(seed: u64) -> impl Fn(usize) -> Op { let keys = crate::c06::keys(); move |n| { let mut tx = txjson::template(if n % 2 == 0 { Kind::Eip1559 } else { Kind::Legacy }, true); tx.data = explore::filler_bytes(seed, 0x51CF + n as u64, n); let text = txjson::tx_json(&tx, Spell::Auto).to_text(); let key = keys[0];
    op(format!("sign and encode a transaction with {n} bytes of calldata"), move || { let curve = Curve::new(); match observe_tx(&text, &Signer::Key(&key)) { Err(p) => Err(format!("panics: {p}")), Ok(Err(e)) => Err(format!("rejected: {e}")), Ok(Ok(o)) => match compare_tx(&curve, &tx, &o, Some(&key)) { None => Ok("signed"), Some((k, what)) => Err(format!("{k}: {what}")) } } }) } }
pub fn c08_sized(seed: u64) -> impl Fn(usize) -> Op { use crate::tdcheck::{simple_doc, sv}; move |n| { let body = explore::filler_bytes(seed, 0x51D0 + n as u64, n);
    let d = simple_doc(vec![("Note".into(), sv(&[("text", "string"), ("blob", "bytes"), ("n", "uint256")]))], "Note", J::obj(vec![("text", J::Str(body.iter().map(|b| (b'a' + b % 26) as char).collect())), ("blob", J::Str(format!("0x{}", explore::hex(&body)))), ("n", J::n("7"))]));
    let text = d.to_json().to_text(); let (class, _) = eip712::evaluate(&d);
    op(format!("typed data with a string and a bytes value of {n} bytes"), move || match (crate::tdcheck::observe(&text), &class) { (Err(p), _) => Err(format!("panics: {p}")), (Ok(Err(e)), _) => Err(format!("a well-typed document is rejected: {e}")),
        (Ok(Ok((ds, mh, dg))), Class::Accept(w)) | (Ok(Ok((ds, mh, dg))), Class::Unc(w)) => if ds == w.domain_separator && mh == w.message_hash && dg == w.digest { Ok("hashed") } else { Err(format!("digest {} instead of {}", explore::hex(&dg), explore::hex(&w.digest))) },
        (Ok(Ok(_)), Class::Reject) => Err("reference refuses".into()) }) } }
pub fn c02_sized(seed: u64) -> impl Fn(usize) -> Op { move |n| { let t = text_of(&crate::c01::valid_indices(seed, 12, 0x51D1, None), " "); let pass: String = explore::filler_bytes(seed, 0x51D2 + n as u64, n).iter().map(|b| (b'!' + b % 90) as char).collect(); let want = bip39::seed(&t, &pass);
    op(format!("seed with a passphrase of {n} ASCII characters"), move || match Mnemonic::from_phrase(&t).map(|m| *m.seed(&pass)) { Err(e) => Err(format!("valid phrase rejected: {e}")), Ok(s) if s[..] == want[..] => Ok("seed"), Ok(s) => Err(format!("seed {} instead of {}", explore::hex(&s[..8]), explore::hex(&want[..8]))) }) } }

/// Values that CROSS A THREAD BOUNDARY: built on one thread, used on another (moved into a spawned thread, or shared through an
/// `Arc` and used from two threads one after the other). No interleaving is involved - the hand-over is sequential - so this
/// is plain enumeration: whatever a value keeps outside itself (a per-thread pad, a per-thread table it indexes into) is
/// wrong on the other thread every time. Every case also runs on a single thread as its own control.
pub fn cross_thread(ctx: &Ctx, p: &str, name: &str, entry: &str, cases: Vec<(String, Box<dyn Fn(&str) -> Outcome + Send + Sync>)>) {
    let modes = ["same-thread", "moved-to-another-thread", "shared-and-used-on-two-threads"]; let cases = Arc::new(cases); let n = cases.len() as u64;
    ctx.sweep(name, &format!("{n} values x {{built and used on one thread (control), built on one thread and moved to another, built on one thread and used through an Arc from two other threads in turn}}: every result is the reference result"), n * 3, |i| {
        let c = (i / 3) as usize; let mode = modes[(i % 3) as usize]; let cs = cases.clone();
        let got = std::thread::Builder::new().stack_size(16 << 20).spawn(move || guard(|| (cs[c].1)(mode))).expect("spawn").join().unwrap_or_else(|_| Err("thread died".into()));
        let replay = json!({"sweep": name, "index": i, "entry": entry, "value": cases[c].0, "mode": mode});
        ctx.sample(name, || replay.clone());
        match got {
            Err(pn) => { ctx.eval(format!("cross-thread:{mode}:panic")); ctx.panic_violation(format!("{p}:cross-thread:{mode}:panic@{}", panic_site(&pn)), format!("{} ({mode}) panics: {pn}", cases[c].0), replay) }
            Ok(Err(m)) => { ctx.eval(format!("cross-thread:{mode}:differs")); ctx.violation(format!("{p}:cross-thread:{mode}:differs-from-reference"), format!("{} ({mode}): {m}", cases[c].0), replay) }
            Ok(Ok(k)) => ctx.eval(format!("cross-thread:{mode}:{k}")),
        }
    });
}
/// runs `make` and `check` according to the mode of `cross_thread`
pub fn hand_over<T: Send + Sync + 'static>(mode: &str, make: impl FnOnce() -> Result<T, String> + Send + 'static, check: impl Fn(&T) -> Outcome + Send + Sync + 'static) -> Outcome {
    match mode {
        "same-thread" => { let v = make()?; check(&v) }
        "moved-to-another-thread" => { let v = std::thread::spawn(make).join().map_err(|_| "the building thread died".to_string())??; std::thread::Builder::new().stack_size(16 << 20).spawn(move || check(&v)).expect("spawn").join().map_err(|_| "the using thread panicked".to_string())? }
        _ => { let v = Arc::new(std::thread::spawn(make).join().map_err(|_| "the building thread died".to_string())??); let check = Arc::new(check); let mut last: Outcome = Ok("ok");
            for _ in 0..2 { let (v2, c2) = (v.clone(), check.clone()); last = std::thread::Builder::new().stack_size(16 << 20).spawn(move || c2(&v2)).expect("spawn").join().map_err(|_| "a using thread panicked".to_string())?; if last.is_err() { break; } } last }
    }
}
pub fn key_cases(seed: u64) -> Vec<(String, Box<dyn Fn(&str) -> Outcome + Send + Sync>)> {
    let n = secp::n(); let mut ks: Vec<(String, U256)> = vec![("1".into(), U256::ONE), ("2".into(), U256::ONE.adc(&U256::ONE).0), ("n-1".into(), n.sbb(&U256::ONE).0), ("ganache#0".into(), U256::from_hex("4f3edf983ac636a65a842ce7c78d9aa706d3b113bce9c46f30d7d21715b23b1d"))];
    for r in 0..4u64 { ks.push((format!("filler#{r}"), U256::from_be(&explore::filler_bytes(seed, 0xC7055 + r, 32).try_into().unwrap()))); }
    let mut v: Vec<(String, Box<dyn Fn(&str) -> Outcome + Send + Sync>)> = Vec::new();
    for (l, k) in ks { if k.is_zero() || k >= n { continue; }
        v.push((format!("PrivateKey of secret {l}: secret, public key, address, signature"), Box::new(move |mode: &str| { let curve = Curve::new(); let pt = curve.mul_g(&k).unwrap(); let want_pub = curve.uncompressed(&pt).to_vec(); let want_addr = eth::eip55(&eth::address_of_point(&pt)); let d = [0x5au8; 32]; let (r, s2, odd, _) = curve.sign_rfc6979(&k, &d); let want_sig = eth::sig_text(&r, &s2, odd);
            hand_over(mode, move || PrivateKey::new(k.to_be()).map_err(|e| format!("valid secret refused: {e}")), move |key: &PrivateKey| {
                if key.secret() != k.to_be() { return Err(format!("secret() returns {}", explore::hex(&key.secret()))); }
                if key.public().encode_uncompressed().to_vec() != want_pub { return Err("public key differs from secret x G".into()); }
                if key.address().to_string() != want_addr { return Err(format!("address {} instead of {want_addr}", key.address())); }
                let sig = key.sign(ethdigest::Digest(d)).to_string(); if sig != want_sig { return Err(format!("signature {sig} instead of {want_sig}")); }
                Ok("key") }) }))); }
    // a mnemonic parsed on one thread, its seed and the derived account on another
    for (l, t, pass) in [("12 words", text_of(&crate::c01::valid_indices(seed, 12, 0xC7056, None), " "), ""), ("24 words, passphrase", text_of(&crate::c01::valid_indices(seed, 24, 0xC7057, None), " "), "TREZOR")] {
        v.push((format!("Mnemonic of {l}: phrase, seed, first account"), Box::new(move |mode: &str| { let curve = Curve::new(); let want_seed = bip39::seed(&t, pass); let want_key = bip32::derive(&curve, &want_seed, &[44 | HARD, 60 | HARD, HARD, 0, 0]).map(|x| x.k.to_be()); let (t1, t2) = (t.clone(), t.clone());
            hand_over(mode, move || Mnemonic::from_phrase(&t1).map_err(|e| format!("valid phrase refused: {e}")), move |m: &Mnemonic| {
                if m.to_phrase() != t2 { return Err(format!("to_phrase gives '{}'", m.to_phrase())); }
                let sd = *m.seed(pass); if sd[..] != want_seed[..] { return Err("seed differs from PBKDF2-HMAC-SHA512".into()); }
                let path: hdk::Path = "m/44'/60'/0'/0/0".parse().map_err(|e| format!("path refused: {e}"))?; let k = hdk::derive(sd, &path).map(|k| k.secret()).ok(); if k != want_key { return Err("derived key differs from BIP-32".into()); }
                Ok("mnemonic") }) }))); }
    v
}

/// DETERMINISTIC operations under every answer of the entropy source. None of parse / seed / derive / key / sign / encode /
/// hash needs randomness; an implementation that draws some anyway (blinding, masking, hash-map seeds of its own) must give
/// the same results whatever the source answers - all zeros, all ones, a counter - and when the source FAILS it gives the
/// same result or an ordinary error, never another value. The source is owned by the harness (scripted per thread).
pub fn under_entropy_answers(ctx: &Ctx, p: &str, name: &str, entry: &str, ops: Vec<Op>) {
    let modes: [(&str, Vec<u8>, Option<usize>); 5] = [("zeros", vec![0], None), ("ones", vec![0xff], None), ("counter", (1..=251u8).collect(), None), ("fails-always", vec![7], Some(0)), ("fails-from-the-second-request", vec![7], Some(1))];
    let ops = Arc::new(ops); let n = ops.len() as u64;
    ctx.sweep(name, &format!("{n} deterministic operations x 5 answers of the entropy source (all zeros, all ones, a counter, failing always, failing from the second request on), each on one fresh thread, run twice: the reference result both times - or, when the source fails, an ordinary error"), n * 5, |i| {
        let k = (i / 5) as usize; let (mn, pattern, fail_at) = modes[(i % 5) as usize].clone(); let ops2 = ops.clone();
        let (got, requests, _) = crate::entropy::with_script_on_fresh_thread(pattern, fail_at, false, move || (0..2).map(|_| guard(|| (ops2[k].check)())).collect::<Vec<_>>());
        let replay = json!({"sweep": name, "index": i, "entry": entry, "operation": ops[k].label, "entropy_source": mn, "requests_made": requests.len()});
        ctx.sample(name, || replay.clone());
        let failing = fail_at.is_some(); let delivered = requests.iter().any(|r| !r.1);
        for (round, r) in got.iter().enumerate() {
            match r {
                Err(pn) => { ctx.eval(format!("entropy={mn}:panic")); ctx.panic_violation(format!("{p}:under-entropy:{mn}:panic@{}", panic_site(pn)), format!("{} panics with the entropy source answering [{mn}]: {pn}", ops[k].label), replay); return; }
                Ok(Err(m)) => {
                    // with a failing source an ordinary error is fine; "another value" is not (the operations' messages say `instead of` / `differs` for those)
                    if failing && delivered && !(m.contains("instead of") || m.contains("differs") || m.contains("must be refused")) { ctx.eval(format!("entropy={mn}:error-after-a-delivered-failure")); return; }
                    ctx.eval(format!("entropy={mn}:differs")); ctx.violation(format!("{p}:under-entropy:{mn}:differs-from-reference"), format!("{} (run {}) with the entropy source answering [{mn}] ({} requests made): {m}", ops[k].label, round + 1, requests.len()), replay); return; }
                Ok(Ok(_)) => {}
            }
        }
        ctx.eval(format!("entropy={mn}:agrees,requests={}", requests.len().min(1)));
    });
}
fn phrases(seed: u64) -> (Vec<usize>, Vec<usize>, Vec<usize>) {
    let a = crate::c01::valid_indices(seed, 12, 900, None);
    let mut a2 = a.clone(); a2[11] = bip39::complete_last(&a[..11], a[11] ^ 0x400); // same first 11 words, another valid last word
    (a, a2, crate::c01::valid_indices(seed, 24, 901, None))
}
/// a valid 24-word phrase whose first 11 words are those of `a`
fn extension(seed: u64, a: &[usize]) -> Vec<usize> { let mut c = crate::c01::valid_indices(seed, 24, 902, None); c[..11].copy_from_slice(&a[..11]); let last = bip39::complete_last(&c[..23], c[23]); c[23] = last; c }
/// phrases whose entropies are related by zero-extension (E, E followed by zero bytes; all-zero entropies of several sizes):
/// what a key that pads or truncates its argument to a fixed width would confuse
fn zero_related(seed: u64) -> Vec<(String, String)> {
    let e = explore::filler_bytes(seed, 0x2E0, 16); let ext = |k: usize| { let mut v = e.clone(); v.extend(std::iter::repeat(0u8).take(k)); v };
    vec![("E (12 words)".to_string(), bip39::entropy_to_phrase(&e)), ("E followed by 4 zero bytes (15 words)".into(), bip39::entropy_to_phrase(&ext(4))), ("E followed by 16 zero bytes (24 words)".into(), bip39::entropy_to_phrase(&ext(16))),
        ("all-zero entropy, 12 words".into(), bip39::entropy_to_phrase(&[0u8; 16])), ("all-zero entropy, 18 words".into(), bip39::entropy_to_phrase(&[0u8; 24])), ("all-zero entropy, 24 words".into(), bip39::entropy_to_phrase(&[0u8; 32]))]
}
fn text_of(idx: &[usize], sep: &str) -> String { idx.iter().map(|k| bip39::words()[*k]).collect::<Vec<_>>().join(sep) }

pub fn c01_ops(seed: u64) -> Vec<Op> {
    let (a, a2, b) = phrases(seed);
    let mut bad = a.clone(); bad[11] ^= 1; // checksum bit flipped
    let mut long = a.clone(); long.push(a[0]);
    let texts = vec![("A".to_string(), text_of(&a, " ")), ("A with another valid last word".into(), text_of(&a2, " ")), ("B (24 words)".into(), text_of(&b, " ")), ("A with a checksum bit flipped".into(), text_of(&bad, " ")), ("A plus a 13th word".into(), text_of(&long, " ")), ("A double-spaced".into(), text_of(&a, "  ")), ("24 words starting with the first 11 of A".into(), text_of(&extension(seed, &a), " "))];
    let mut texts = texts; texts.extend(zero_related(seed));
    // refusals that happen PART-WAY through a phrase (a token that is no list word after some that are): whatever the parser
    // accumulated up to there must not reach the next call
    let unknown_at = |idx: &[usize], k: usize| { let mut t: Vec<&str> = idx.iter().map(|x| bip39::words()[*x]).collect(); t[k] = "zzzz"; t.join(" ") };
    texts.push(("A with an unknown 6th word".into(), unknown_at(&a, 5))); texts.push(("A with an unknown last word".into(), unknown_at(&a, 11))); texts.push(("B with an unknown 2nd word".into(), unknown_at(&b, 1)));
    texts.into_iter().map(|(l, t)| op(format!("parse {l}: '{t}'"), move || crate::c01::verdict(&t))).collect()
}
pub fn c02_ops(seed: u64) -> Vec<Op> {
    let (a, a2, b) = phrases(seed);
    let cases: Vec<(&str, String, String)> = vec![("A, no passphrase", text_of(&a, " "), "".into()), ("A, passphrase TREZOR", text_of(&a, " "), "TREZOR".into()), ("A', no passphrase", text_of(&a2, " "), "".into()), ("B, passphrase TREZOR", text_of(&b, " "), "TREZOR".into()),
        ("A, passphrase e-acute precomposed", text_of(&a, " "), "\u{e9}".into()), ("A, passphrase e + combining acute", text_of(&a, " "), "e\u{301}".into()), ("A tab-separated, no passphrase", text_of(&a, "\t"), "".into()), ("24 words starting with the first 11 of A, no passphrase", text_of(&extension(seed, &a), " "), "".into())];
    let zr = zero_related(seed); let mut cases: Vec<(String, String, String)> = cases.into_iter().map(|(l, t, p)| (l.to_string(), t, p)).collect();
    for (l, t) in &zr { cases.push((format!("{l}, no passphrase"), t.clone(), "".into())); }
    cases.into_iter().map(|(l, t, p)| { let canon = t.split_whitespace().collect::<Vec<_>>().join(" "); let want = bip39::seed(&canon, &nfkd::nfkd(&p));
        op(format!("seed({l})"), move || match Mnemonic::from_phrase(&t).map(|m| *m.seed(&p)) { Err(e) => Err(format!("valid phrase rejected: {e}")), Ok(s) if s[..] == want[..] => Ok("seed"), Ok(s) => Err(format!("seed {} instead of {}", explore::hex(&s), explore::hex(&want))) }) }).collect()
}
pub fn c03_ops(seed: u64) -> Vec<Op> {
    let curve = Curve::new(); let seeds = crate::c03::seeds(seed);
    // a chain of prefixes of one path, a sibling, and the same paths under another seed (what a cache of intermediate nodes would confuse)
    let acct = |i: u32| vec![44 | HARD, 60 | HARD, HARD, 0, i];
    let cases: Vec<(usize, Vec<u32>)> = vec![(0, vec![44 | HARD]), (0, vec![44 | HARD, 60 | HARD, HARD]), (0, acct(0)), (0, acct(1)), (0, vec![44]), (1, vec![44 | HARD]), (1, acct(0)), (0, vec![44 | HARD, 60 | HARD, HARD, 0])];
    cases.into_iter().map(|(s, path)| { let sd = seeds[s].clone(); let text = grammar::path_text(&path); let want = bip32::derive(&curve, &sd, &path).map(|x| x.k.to_be());
        op(format!("derive(seed#{s}, {text})"), move || { let got = text.parse::<hdk::Path>().map_err(|e| format!("path rejected: {e}")).and_then(|p| hdk::derive(&sd, &p).map(|k| k.secret()).map_err(|e| format!("derive failed: {e}")));
            match (got, &want) { (Ok(k), Some(w)) if k == *w => Ok("key"), (Ok(k), _) => Err(format!("derived {} instead of {}", explore::hex(&k), want.map(|w| explore::hex(&w)).unwrap_or("an error".into()))), (Err(_), None) => Ok("invalid-child"), (Err(e), Some(_)) => Err(e) } }) }).collect()
}
pub fn c04_ops() -> Vec<Op> {
    let curve = Curve::new(); let n = secp::n();
    let ks: Vec<(&str, U256)> = vec![("1", U256::ONE), ("2", U256::ONE.adc(&U256::ONE).0), ("n-1", n.sbb(&U256::ONE).0), ("ganache#0", U256::from_hex("4f3edf983ac636a65a842ce7c78d9aa706d3b113bce9c46f30d7d21715b23b1d")), ("0", U256([0; 4])), ("n", n)];
    let mut v: Vec<Op> = ks.into_iter().map(|(l, k)| { let want = if k.is_zero() || k >= n { None } else { let pt = curve.mul_g(&k).unwrap(); Some((curve.uncompressed(&pt).to_vec(), eth::eip55(&eth::address_of_point(&pt)))) };
        op(format!("address and public key of secret {l}"), move || match (PrivateKey::new(k.to_be()).map(|x| (x.public().encode_uncompressed().to_vec(), x.address().to_string())), &want) {
            (Ok(g), Some(w)) if g == *w => Ok("key"), (Ok(g), _) => Err(format!("address {} instead of {}", g.1, want.as_ref().map(|w| w.1.clone()).unwrap_or("a refusal".into()))), (Err(_), None) => Ok("refused"), (Err(e), Some(_)) => Err(format!("valid secret refused: {e}")) }) }).collect();
    // byte strings of other lengths: refused, or the key of the same big-endian integer - whatever was given before
    for (l, b) in [("the 31-byte encoding of 1", { let mut b = vec![0u8; 31]; b[30] = 1; b }), ("the single byte 01", vec![1u8]), ("33 bytes: 00 followed by the encoding of 2", { let mut b = vec![0u8; 33]; b[32] = 2; b }), ("16 bytes of ff", vec![0xff; 16])] {
        let val = refmodel::nat::Nat::from_be_bytes(&b);
        v.push(op(format!("PrivateKey::new on {l}"), move || match PrivateKey::new(&b[..]).map(|x| x.secret()) { Err(_) => Ok("refused"), Ok(sec) => if U256::from_nat(&val).map_or(false, |x| !x.is_zero() && x < secp::n() && x.to_be() == sec) { Ok("same-integer") } else { Err(format!("a {}-byte string is taken as key {}, not the same big-endian integer", b.len(), explore::hex(&sec))) } }));
    }
    v
}
pub fn tx_ops() -> Vec<Op> {
    let keys = crate::c06::keys();
    let mut cases: Vec<(String, refmodel::tx::Tx, Spell, usize)> = Vec::new();
    let l = txjson::template(Kind::Legacy, true); let mut l2 = l.clone(); l2.nonce = l2.nonce.add(&refmodel::nat::Nat::from_u64(1)); let mut l3 = l.clone(); l3.chain_id = Some(refmodel::nat::Nat::from_u64(5));
    let e = txjson::template(Kind::Eip1559, true); let a = txjson::template(Kind::Eip2930, true);
    cases.push(("legacy T, decimal strings, key 0".into(), l.clone(), Spell::Dec, 0)); cases.push(("legacy T, hex strings, key 0".into(), l.clone(), Spell::Hex, 0)); cases.push(("legacy T, key 1".into(), l.clone(), Spell::Auto, 1));
    cases.push(("legacy T with nonce+1, key 0".into(), l2, Spell::Auto, 0)); cases.push(("legacy T on chain 5, key 0".into(), l3, Spell::Auto, 0)); cases.push(("eip1559 template, key 0".into(), e, Spell::Auto, 0)); cases.push(("eip2930 template, key 1".into(), a, Spell::Auto, 1));
    cases.into_iter().map(|(lbl, tx, sp, k)| { let text = txjson::tx_json(&tx, sp).to_text(); let key = keys[k];
        op(lbl, move || { let curve = Curve::new(); match observe_tx(&text, &Signer::Key(&key)) { Err(p) => Err(format!("panics: {p}")), Ok(Err(e)) => Err(format!("rejected: {e}")), Ok(Ok(o)) => match compare_tx(&curve, &tx, &o, Some(&key)) { None => Ok("signed"), Some((k, what)) => Err(format!("{k}: {what}")) } } }) }).collect()
}
pub fn td_ops() -> Vec<Op> {
    use crate::tdcheck::{simple_doc, sv};
    let person = |m: &[(&str, &str)]| ("Person".to_string(), sv(m));
    let d1 = simple_doc(vec![("Mail".into(), sv(&[("from", "Person"), ("n", "uint256")])), person(&[("name", "string")])], "Mail", J::obj(vec![("from", J::obj(vec![("name", J::s("Cow"))])), ("n", J::n("300"))]));
    let mut d2 = d1.clone(); d2.message = J::obj(vec![("from", J::obj(vec![("name", J::s("Bob"))])), ("n", J::n("300"))]);            // same types, other value
    let d3 = simple_doc(vec![("Mail".into(), sv(&[("from", "Person"), ("n", "uint8")])), person(&[("name", "string")])], "Mail", d1.message.clone());   // same names, n: uint8 -> 300 out of range
    let d4 = simple_doc(vec![("Mail".into(), sv(&[("from", "Person"), ("n", "uint256")])), person(&[("name", "bytes")])], "Mail", J::obj(vec![("from", J::obj(vec![("name", J::s("0x436f77"))])), ("n", J::n("300"))])); // Person redefined
    let mut d5 = d1.clone(); d5.types[0] = ("EIP712Domain".into(), sv(&[("chainId", "uint256"), ("name", "string")]));                   // reordered domain type: refused
    let mut d6 = d1.clone(); d6.domain = J::obj(vec![("name", J::s("other")), ("chainId", J::n("1"))]);                                  // same types, other domain value
    vec![("D: Mail{from: Person{name: string}, n: uint256}", d1), ("D with another message value", d2), ("D with n: uint8 (300 out of range)", d3), ("D with Person{name: bytes}", d4), ("D with a reordered domain type", d5), ("D with another domain value", d6)].into_iter().map(|(l, d)| {
        let text = d.to_json().to_text(); let (class, _) = eip712::evaluate(&d);
        op(l, move || match (crate::tdcheck::observe(&text), &class) { (Err(p), _) => Err(format!("panics: {p}")),
            (Ok(Err(_)), Class::Accept(_)) => Err("a well-typed document is rejected".into()), (Ok(Err(_)), _) => Ok("refused"),
            (Ok(Ok(_)), Class::Reject) => Err("a document that must be refused is hashed".into()),
            (Ok(Ok((ds, mh, dg))), Class::Accept(w)) | (Ok(Ok((ds, mh, dg))), Class::Unc(w)) => if ds == w.domain_separator && mh == w.message_hash && dg == w.digest { Ok("hashed") } else { Err(format!("digest {} instead of {}", explore::hex(&dg), explore::hex(&w.digest))) } }) }).collect()
}
pub fn c10_ops() -> Vec<Op> {
    let msgs: Vec<(&str, Vec<u8>)> = vec![("empty", vec![]), ("a", b"a".to_vec()), ("ab", b"ab".to_vec()), ("136 x a", vec![b'a'; 136]), ("137 x a", vec![b'a'; 137]), ("ff fe", vec![0xff, 0xfe])];
    msgs.into_iter().map(|(l, m)| { let want = eth::eip191_digest(&m); op(format!("personal-message digest of {l}"), move || { let got = hdwallet::message::EthereumMessage(&m[..]).signing_message().0; if got == want { Ok("digest") } else { Err(format!("digest {} instead of {}", explore::hex(&got), explore::hex(&want))) } }) }).collect()
}
pub fn c14_ops() -> Vec<Op> {
    let texts = ["m/0", "m/0'", "m/44'/60'/0'/0/0", "m/2147483647'", "m/2147483648", "m//0", "m/0/"];
    let mut v: Vec<Op> = texts.iter().map(|t| { let t = t.to_string(); let class = grammar::classify_path(&t);
        op(format!("parse and print '{t}'"), move || match (t.parse::<hdk::Path>(), &class) { (Err(_), Class::Accept(_)) => Err("a canonical path is refused".into()), (Err(_), _) => Ok("refused"), (Ok(p), Class::Reject) => Err(format!("accepted as {p}")),
            (Ok(p), Class::Accept(w)) | (Ok(p), Class::Unc(w)) => if p.to_string() == grammar::path_text(w) { Ok("path") } else { Err(format!("printed as {p} instead of {}", grammar::path_text(w))) } }) }).collect();
    // "the printed form parses to a path deriving the same key": a chain of prefixes of one path (and a sibling), each parsed,
    // printed, parsed again and derived under one seed - after a deeper, a shallower or a neighbouring path has been derived
    let curve = Curve::new(); let sd = crate::c03::seeds(0x14)[0].clone();
    for t in ["m/44'/60'/0'/0/0", "m/44'/60'/0'/0", "m/44'/60'/0'", "m/44'", "m/44'/60'/0'/0/1", "m/44'/60'/0'/0/0/0/0"] { let t = t.to_string();
        let comps = match grammar::classify_path(&t) { Class::Accept(c) => c, _ => unreachable!() }; let want = bip32::derive(&curve, &sd, &comps).map(|x| x.k.to_be()); let sd = sd.clone();
        v.push(op(format!("parse, print, parse again and derive '{t}'"), move || { let p = t.parse::<hdk::Path>().map_err(|e| format!("a canonical path is refused: {e}"))?; let printed = p.to_string(); if printed != t { return Err(format!("printed as {printed}")); }
            let again = printed.parse::<hdk::Path>().map_err(|e| format!("the printed form is refused: {e}"))?; let k1 = hdk::derive(&sd, &p).map(|k| k.secret()).ok(); let k2 = hdk::derive(&sd, &again).map(|k| k.secret()).ok();
            if k1 != k2 { Err(format!("the path derives {:?}, its printed form re-parsed derives {:?}", k1.map(|x| explore::hex(&x)), k2.map(|x| explore::hex(&x)))) } else if k1 != want { Err(format!("derives {:?}; BIP-32 assigns {:?}", k1.map(|x| explore::hex(&x)), want.map(|x| explore::hex(&x)))) } else { Ok("key") } })); }
    for i in [0u32, 7] { v.push(op(format!("default path for account {i}"), move || match crate::c14::for_index_text(i) { Some(t) if t == format!("m/44'/60'/0'/0/{i}") => Ok("path"), other => Err(format!("{other:?}")) })); }
    v
}
pub fn c15_ops() -> Vec<Op> {
    let curve = Curve::new(); let k = crate::c06::keys();
    let (r1, s1, o1, _) = curve.sign_rfc6979(&k[0], &[0x11; 32]); let (r2, s2, o2, _) = curve.sign_rfc6979(&k[1], &[0x22; 32]);
    let t1 = eth::sig_text(&r1, &s1, o1); let t2 = eth::sig_text(&r2, &s2, o2);
    let bad_v = format!("{}1d", &t1[..130]); let zero_s = format!("0x{}{}1b", r1.to_hex64(), "0".repeat(64));
    vec![("signature 1".to_string(), t1.clone()), ("signature 2".into(), t2), ("signature 1 without 0x".into(), t1[2..].to_string()), ("signature 1 with v = 29".into(), bad_v), ("signature with s = 0".into(), zero_s), ("signature 1 truncated".into(), t1[..130].to_string())].into_iter().map(|(l, t)| {
        let class = grammar::classify_signature(&t);
        op(format!("parse {l}"), move || match (t.parse::<Signature>(), &class) { (Err(_), Class::Accept(_)) => Err("a printed signature is refused".into()), (Err(_), _) => Ok("refused"), (Ok(s), Class::Reject) => Err(format!("accepted as {s}")),
            (Ok(s), Class::Accept(w)) | (Ok(s), Class::Unc(w)) => if s.to_string() == eth::sig_text(&w.0, &w.1, w.2) { Ok("signature") } else { Err(format!("parsed as {s}")) } }) }).collect()
}

pub fn c01_nth(seed: u64) -> impl Fn(usize) -> Op { move |k| { let t = text_of(&crate::c01::valid_indices(seed, [12usize, 15, 18, 21, 24][k % 5], 2000 + k as u64, None), " "); op(format!("parse phrase #{k}"), move || crate::c01::verdict(&t)) } }
pub fn c02_nth(seed: u64) -> impl Fn(usize) -> Op { move |k| { let t = text_of(&crate::c01::valid_indices(seed, 12, 3000 + (k / 2) as u64, None), " "); let p = if k % 2 == 0 { "" } else { "TREZOR" }; let want = bip39::seed(&t, p);
    op(format!("seed(phrase #{}, {p:?})", k / 2), move || match Mnemonic::from_phrase(&t).map(|m| *m.seed(p)) { Err(e) => Err(format!("valid phrase rejected: {e}")), Ok(s) if s[..] == want[..] => Ok("seed"), Ok(s) => Err(format!("seed {} instead of {}", explore::hex(&s), explore::hex(&want))) }) } }
pub fn c03_nth(seed: u64) -> impl Fn(usize) -> Op { let curve = Curve::new(); let seeds = crate::c03::seeds(seed); move |k| { let sd = seeds[k % 2].clone(); let path: Vec<u32> = match k % 3 { 0 => vec![44 | HARD, 60 | HARD, HARD, 0, (k / 3) as u32], 1 => vec![44 | HARD, 60 | HARD, (k / 3) as u32 | HARD], _ => vec![(k / 3) as u32, 7] };
    let text = grammar::path_text(&path); let want = bip32::derive(&curve, &sd, &path).map(|x| x.k.to_be());
    op(format!("derive(seed#{}, {text})", k % 2), move || { let got = text.parse::<hdk::Path>().ok().and_then(|p| hdk::derive(&sd, &p).ok()).map(|x| x.secret()); if got == want { Ok("key") } else { Err(format!("derived {:?} instead of {:?}", got.map(|x| explore::hex(&x)), want.map(|x| explore::hex(&x)))) } }) } }
pub fn c04_nth() -> impl Fn(usize) -> Op { let curve = Curve::new(); move |k| { let key = U256::from_u64(k as u64 * 0x9E37_79B9 + 1); let pt = curve.mul_g(&key).unwrap(); let want = eth::eip55(&eth::address_of_point(&pt));
    op(format!("address of secret #{k}"), move || match PrivateKey::new(key.to_be()).map(|x| x.address().to_string()) { Ok(a) if a == want => Ok("address"), Ok(a) => Err(format!("address {a} instead of {want}")), Err(e) => Err(format!("valid secret refused: {e}")) }) } }
pub fn c05_nth() -> impl Fn(usize) -> Op { let curve = Curve::new(); move |k| { let key = U256::from_u64(k as u64 * 0x9E37_79B9 + 1); let d = [(k % 3) as u8 + 1; 32]; let (r, s2, odd, _) = curve.sign_rfc6979(&key, &d); let want = eth::sig_text(&r, &s2, odd);
    op(format!("sign(secret #{k}, digest {:02x}..)", d[0]), move || { let t = PrivateKey::new(key.to_be()).map_err(|e| format!("valid secret refused: {e}"))?.sign(ethdigest::Digest(d)).to_string(); if t == want { Ok("signature") } else { Err(format!("signature {t} instead of {want}")) } }) } }
pub fn c06_nth() -> impl Fn(usize) -> Op { let keys = crate::c06::keys(); move |k| { let mut tx = txjson::template(if k % 2 == 0 { Kind::Eip2930 } else { Kind::Eip1559 }, true); tx.nonce = refmodel::nat::Nat::from_u64(k as u64); tx.access_list = vec![([(k % 251) as u8 + 1; 20], vec![[(k % 7) as u8; 32]; k % 3])]; let text = txjson::tx_json(&tx, Spell::Auto).to_text(); let key = keys[k % 2];
    op(format!("transaction #{k}"), move || { let curve = Curve::new(); match observe_tx(&text, &Signer::Key(&key)) { Err(p) => Err(format!("panics: {p}")), Ok(Err(e)) => Err(format!("rejected: {e}")), Ok(Ok(o)) => match compare_tx(&curve, &tx, &o, Some(&key)) { None => Ok("signed"), Some((kk, what)) => Err(format!("{kk}: {what}")) } } }) } }
pub fn c08_nth() -> impl Fn(usize) -> Op { use crate::tdcheck::{simple_doc, sv}; move |k| { let mut d = simple_doc(vec![("Mail".into(), sv(&[("from", "Person"), ("n", if k % 2 == 0 { "uint256" } else { "uint64" })])), ("Person".into(), sv(&[("name", "string")]))], "Mail", J::obj(vec![("from", J::obj(vec![("name", J::Str(format!("p{k}")))])), ("n", J::Num((k * 7).to_string()))]));
    d.domain = J::obj(vec![("name", J::s("hdwallet")), ("chainId", J::Num((k / 2 + 1).to_string()))]); let text = d.to_json().to_text(); let (class, _) = eip712::evaluate(&d);
    op(format!("typed-data document #{k}"), move || match (crate::tdcheck::observe(&text), &class) { (Err(p), _) => Err(format!("panics: {p}")), (Ok(Err(e)), _) => Err(format!("a well-typed document is rejected: {e}")), (Ok(Ok((ds, mh, dg))), Class::Accept(w)) | (Ok(Ok((ds, mh, dg))), Class::Unc(w)) => if ds == w.domain_separator && mh == w.message_hash && dg == w.digest { Ok("hashed") } else { Err(format!("digest {} instead of {}", explore::hex(&dg), explore::hex(&w.digest))) }, (Ok(Ok(_)), Class::Reject) => Err("hashed although the reference refuses".into()) }) } }

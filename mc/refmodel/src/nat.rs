//! Arbitrary-precision naturals, schoolbook, deliberately boring.
use std::cmp::Ordering;

#[derive(Clone, Debug, PartialEq, Eq, Hash, Default)]
pub struct Nat(pub Vec<u32>); // little endian, no trailing zero limbs

impl Nat {
    pub fn zero() -> Nat { Nat(vec![]) }
    pub fn from_u64(v: u64) -> Nat { let mut n = Nat(vec![v as u32, (v >> 32) as u32]); n.trim(); n }
    fn trim(&mut self) { while self.0.last() == Some(&0) { self.0.pop(); } }
    pub fn is_zero(&self) -> bool { self.0.is_empty() }
    pub fn bit_len(&self) -> usize {
        match self.0.last() { None => 0, Some(t) => 32 * (self.0.len() - 1) + (32 - t.leading_zeros() as usize) }
    }
    pub fn pow2(k: usize) -> Nat { let mut v = vec![0u32; k / 32 + 1]; v[k / 32] = 1 << (k % 32); Nat(v) }
    pub fn from_be_bytes(b: &[u8]) -> Nat {
        let mut v = vec![0u32; (b.len() + 3) / 4];
        for (i, byte) in b.iter().rev().enumerate() { v[i / 4] |= (*byte as u32) << (8 * (i % 4)); }
        let mut n = Nat(v); n.trim(); n
    }
    /// minimal big-endian bytes (empty for zero)
    pub fn to_be_bytes(&self) -> Vec<u8> {
        let mut out = Vec::new();
        for limb in self.0.iter().rev() { out.extend_from_slice(&limb.to_be_bytes()); }
        let skip = out.iter().take_while(|b| **b == 0).count();
        out[skip..].to_vec()
    }
    /// big-endian bytes left-padded to `len` (None if it does not fit)
    pub fn to_be_padded(&self, len: usize) -> Option<Vec<u8>> {
        let b = self.to_be_bytes();
        if b.len() > len { return None; }
        let mut out = vec![0u8; len - b.len()]; out.extend_from_slice(&b); Some(out)
    }
    pub fn add(&self, o: &Nat) -> Nat {
        let n = self.0.len().max(o.0.len());
        let mut out = Vec::with_capacity(n + 1); let mut carry = 0u64;
        for i in 0..n {
            let s = *self.0.get(i).unwrap_or(&0) as u64 + *o.0.get(i).unwrap_or(&0) as u64 + carry;
            out.push(s as u32); carry = s >> 32;
        }
        if carry > 0 { out.push(carry as u32); }
        Nat(out)
    }
    /// self - o, panics when o > self
    pub fn sub(&self, o: &Nat) -> Nat {
        assert!(self.cmp(o) != Ordering::Less, "Nat::sub underflow");
        let mut out = Vec::with_capacity(self.0.len()); let mut borrow = 0i64;
        for i in 0..self.0.len() {
            let mut d = self.0[i] as i64 - *o.0.get(i).unwrap_or(&0) as i64 - borrow;
            if d < 0 { d += 1 << 32; borrow = 1 } else { borrow = 0 }
            out.push(d as u32);
        }
        let mut n = Nat(out); n.trim(); n
    }
    pub fn mul(&self, o: &Nat) -> Nat {
        if self.is_zero() || o.is_zero() { return Nat::zero(); }
        let mut out = vec![0u32; self.0.len() + o.0.len()];
        for (i, a) in self.0.iter().enumerate() {
            let mut carry = 0u64;
            for (j, b) in o.0.iter().enumerate() {
                let t = out[i + j] as u64 + (*a as u64) * (*b as u64) + carry;
                out[i + j] = t as u32; carry = t >> 32;
            }
            let mut k = i + o.0.len();
            while carry > 0 { let t = out[k] as u64 + carry; out[k] = t as u32; carry = t >> 32; k += 1; }
        }
        let mut n = Nat(out); n.trim(); n
    }
    pub fn mul_small(&self, m: u32) -> Nat { self.mul(&Nat::from_u64(m as u64)) }
    pub fn shl(&self, k: usize) -> Nat { self.mul(&Nat::pow2(k)) }
    pub fn bit(&self, i: usize) -> bool { self.0.get(i / 32).map_or(false, |l| (l >> (i % 32)) & 1 == 1) }
    /// (quotient, remainder) by binary long division; slow, only used off the hot path
    pub fn divrem(&self, d: &Nat) -> (Nat, Nat) {
        assert!(!d.is_zero(), "division by zero");
        let mut q = vec![0u32; self.0.len()]; let mut r = Nat::zero();
        for i in (0..self.bit_len()).rev() {
            r = r.add(&r); if self.bit(i) { r = r.add(&Nat::from_u64(1)); }
            if r.cmp(d) != Ordering::Less { r = r.sub(d); q[i / 32] |= 1 << (i % 32); }
        }
        let mut q = Nat(q); q.trim(); (q, r)
    }
    pub fn divrem_small(&self, d: u32) -> (Nat, u32) {
        let mut out = vec![0u32; self.0.len()]; let mut rem = 0u64;
        for i in (0..self.0.len()).rev() { let cur = (rem << 32) | self.0[i] as u64; out[i] = (cur / d as u64) as u32; rem = cur % d as u64; }
        let mut q = Nat(out); q.trim(); (q, rem as u32)
    }
    pub fn from_dec(s: &str) -> Option<Nat> {
        if s.is_empty() || !s.bytes().all(|b| b.is_ascii_digit()) { return None; }
        let mut n = Nat::zero();
        for b in s.bytes() { n = n.mul_small(10).add(&Nat::from_u64((b - b'0') as u64)); }
        Some(n)
    }
    pub fn from_hex(s: &str) -> Option<Nat> {
        if s.is_empty() || !s.bytes().all(|b| b.is_ascii_hexdigit()) { return None; }
        let mut n = Nat::zero();
        for b in s.bytes() { n = n.mul_small(16).add(&Nat::from_u64((b as char).to_digit(16).unwrap() as u64)); }
        Some(n)
    }
    pub fn to_dec(&self) -> String {
        if self.is_zero() { return "0".into(); }
        let mut digits = Vec::new(); let mut n = self.clone();
        while !n.is_zero() { let (q, r) = n.divrem_small(10); digits.push(b'0' + r as u8); n = q; }
        digits.reverse(); String::from_utf8(digits).unwrap()
    }
    pub fn to_hex(&self) -> String {
        if self.is_zero() { return "0".into(); }
        let mut s = String::new();
        for (i, limb) in self.0.iter().rev().enumerate() { if i == 0 { s += &format!("{:x}", limb) } else { s += &format!("{:08x}", limb) } }
        s
    }
    pub fn to_u64(&self) -> Option<u64> {
        if self.0.len() > 2 { return None; }
        Some(*self.0.first().unwrap_or(&0) as u64 | (*self.0.get(1).unwrap_or(&0) as u64) << 32)
    }
}
impl PartialOrd for Nat { fn partial_cmp(&self, o: &Nat) -> Option<Ordering> { Some(self.cmp(o)) } }
impl Ord for Nat {
    fn cmp(&self, o: &Nat) -> Ordering {
        if self.0.len() != o.0.len() { return self.0.len().cmp(&o.0.len()); }
        for i in (0..self.0.len()).rev() { if self.0[i] != o.0[i] { return self.0[i].cmp(&o.0[i]); } }
        Ordering::Equal
    }
}

//! Known-answer tests from the standards; the reference is not believed before these pass.
use crate::eth::{hex, unhex};
use crate::json::J;
use crate::nat::Nat;
use crate::secp::{Curve, U256};
use crate::*;

pub fn run() -> Result<usize, String> {
    let mut n = 0usize;
    let mut eq = |what: &str, got: String, want: &str| -> Result<(), String> { n += 1; if got == want { Ok(()) } else { Err(format!("{what}: got {got}, want {want}")) } };
    // FIPS 180-4 / FIPS 202 / RFC 4231
    eq("sha256(abc)", hex(&hash::sha256(b"abc")), "ba7816bf8f01cfea414140de5dae2223b00361a396177a9cb410ff61f20015ad")?;
    eq("sha256()", hex(&hash::sha256(b"")), "e3b0c44298fc1c149afbf4c8996fb92427ae41e4649b934ca495991b7852b855")?;
    eq("sha256(448 bits)", hex(&hash::sha256(b"abcdbcdecdefdefgefghfghighijhijkijkljklmklmnlmnomnopnopq")), "248d6a61d20638b8e5c026930c3e6039a33ce45964ff2167f6ecedd419db06c1")?;
    eq("sha512(abc)", hex(&hash::sha512(b"abc")), "ddaf35a193617abacc417349ae20413112e6fa4e89a97ea20a9eeee64b55d39a2192992a274fc1a836ba3c23a3feebbd454d4423643ce80e2a9ac94fa54ca49f")?;
    eq("sha512()", hex(&hash::sha512(b"")), "cf83e1357eefb8bdf1542850d66d8007d620e4050b5715dc83f4a921d36ce9ce47d0d13c5d85f2b0ff8318d2877eec2f63b931bd47417a81a538327af927da3e")?;
    eq("keccak256()", hex(&hash::keccak256(b"")), "c5d2460186f7233c927e7db2dcc703c0e500b653ca82273b7bfad8045d85a470")?;
    eq("keccak256(abc)", hex(&hash::keccak256(b"abc")), "4e03657aea45a94fc7d47ba826c8d667c0d1e6e33a64a036ec44f58fa12d6c45")?;
    eq("keccak256(200 x a3)", hex(&hash::keccak256(&[0xa3u8; 200])), "3a57666b048777f2c953dc4456f45a2588e1cb6f2da760122d530ac2ce607d4a")?;
    eq("hmac-sha256 rfc4231#1", hex(&hash::hmac_sha256(&[0x0b; 20], b"Hi There")), "b0344c61d8db38535ca8afceaf0bf12b881dc200c9833da726e9376c2e32cff7")?;
    eq("hmac-sha512 rfc4231#2", hex(&hash::hmac_sha512(b"Jefe", b"what do ya want for nothing?")), "164b7a7bfcf819e2e395fbe73b56e0a387bd64222e831fd610270cd7ea2505549758bf75c05a994a6d034f65f8f0e6fdcaeab1a34d4a6b4b636e070a38bce737")?;
    eq("hmac-sha256 rfc4231#6 (long key)", hex(&hash::hmac_sha256(&[0xaa; 131], b"Test Using Larger Than Block-Size Key - Hash Key First")), "60e431591ee0b67f0d8a26aacbf5b77f8e0bc6213728c5140546040f0ee37f54")?;
    // word list pin
    eq("english.txt sha256", hex(&hash::sha256(bip39::ENGLISH.as_bytes())), bip39::ENGLISH_SHA256)?;
    eq("word count", bip39::words().len().to_string(), "2048")?;
    // BIP-39 (Trezor vectors)
    for (ent, phrase, seed) in [
        ("00000000000000000000000000000000", "abandon abandon abandon abandon abandon abandon abandon abandon abandon abandon abandon about", "c55257c360c07c72029aebc1b53c05ed0362ada38ead3e3e9efa3708e53495531f09a6987599d18264c1e1c92f2cf141630c7a3c4ab7c81b2f001698e7463b04"),
        ("7f7f7f7f7f7f7f7f7f7f7f7f7f7f7f7f", "legal winner thank year wave sausage worth useful legal winner thank yellow", "2e8905819b8723fe2c1d161860e5ee1830318dbf49a83bd451cfb8440c28bd6fa457fe1296106559a3c80937a1c1069be3a3a5bd381ee6260e8d9739fce1f607"),
        ("808080808080808080808080808080808080808080808080", "letter advice cage absurd amount doctor acoustic avoid letter advice cage absurd amount doctor acoustic avoid letter always", "107d7c02a5aa6f38c58083ff74f04c607c2d2c0ecc55501dadd72d025b751bc27fe913ffb796f841c49b1d33b610cf0e91d3aa239027f5e99fe4ce9e5088cd65"),
        ("f585c11aec520db57dd353c69554b21a89b20fb0650966fa0a9d6f74fd989d8f", "void come effort suffer camp survey warrior heavy shoot primary clutch crush open amazing screen patrol group space point ten exist slush involve unfold", "01f5bced59dec48e362f2c45b5de68b9fd6c92c6634f44d6d40aab69056506f0e35524a518034ddc1192e1dacd32c1ed3eaa3c3b131c88ed8e7e54c49a5d0998"),
    ] {
        let e = unhex(ent).unwrap();
        eq("bip39 phrase", bip39::entropy_to_phrase(&e), phrase)?;
        eq("bip39 parse", hex(&bip39::tokens_to_entropy(&phrase.split(' ').collect::<Vec<_>>()).map_err(|e| format!("{e:?}"))?), ent)?;
        eq("bip39 seed", hex(&bip39::seed(phrase, "TREZOR")), seed)?;
    }
    // secp256k1 sanity
    let c = Curve::new();
    let g2 = c.mul_g(&U256::from_u64(2)).unwrap();
    eq("2G.x", g2.0.to_hex64(), "c6047f9441ed7d6d3045406e95c07cd85c778e4b8cef3ca7abac09b95c709ee5")?;
    eq("2G.y", g2.1.to_hex64(), "1ae168fea63dc339a3c58419466ceaeef7f632653266d0e1236431a950cfe52a")?;
    eq("nG", format!("{:?}", c.mul_g(&secp::n())), "None")?;
    let nm1 = secp::n().sbb(&U256::ONE).0;
    eq("(n-1)G = -G", format!("{:?}", c.mul_g(&nm1)), &format!("{:?}", Some((secp::gx(), c.fp.neg(&secp::gy())))))?;
    eq("G+G = 2G", format!("{:?}", c.add(&c.g(), &c.g())), &format!("{:?}", Some(g2)))?;
    eq("G + (-G)", format!("{:?}", c.add(&c.g(), &c.mul_g(&nm1))), "None")?;
    // modular reduction against the generic long division
    for (a, b) in [(nm1, nm1), (secp::p().sbb(&U256::ONE).0, secp::p().sbb(&U256::from_u64(5)).0), (U256::from_hex("ffffffffffffffffffffffffffffffffffffffffffffffffffffffffffffffff"), U256::from_hex("ffffffffffffffffffffffffffffffffffffffffffffffffffffffffffffffff")), (secp::gx(), secp::gy())] {
        for m in [c.fp, c.fnn] {
            let want = a.to_nat().mul(&b.to_nat()).divrem(&m.m.to_nat()).1;
            eq("mulmod", m.mul(&m.reduce(&a), &m.reduce(&b)).to_nat().to_hex(), &want.to_hex())?;
        }
    }
    // BIP-32 test vector 1
    let seed = unhex("000102030405060708090a0b0c0d0e0f").unwrap();
    let h = grammar::HARD;
    for (path, key) in [(vec![], "e8f32e723decf4051aefac8e2c93c9c5b214313817cdb01a1494b917c8436b35"), (vec![h], "edb2e14f9ee77d26dd93b4ecede8d16ed408ce149b6cd80b0715a2d911a0afea"), (vec![h, 1], "3c6cb8d0f6a264c91ea8b5030fadaa8e538b020f0a387421a12de9319dc93368"),
        (vec![h, 1, h | 2], "cbce0d719ecf7431d88e6a89fa1483e02e35092af60c042b1df2ff59fa424dca"), (vec![h, 1, h | 2, 2], "0f479245fb19a38a1954c5c7c0ebab2f9bdfd96a17563ef28a6a4b1a2a764ef4"), (vec![h, 1, h | 2, 2, 1000000000], "471b76e389e528d6de6d816857e012c5455051cad6660850e58372a6c3e6e7c8")] {
        eq("bip32 tv1", bip32::derive(&c, &seed, &path).unwrap().k.to_hex64(), key)?;
    }
    // ganache deterministic account, EIP-55
    let gseed = bip39::seed("myth like bonus scare over problem client lizard pioneer submit female collect", "");
    let gk = bip32::derive(&c, &gseed, &[h | 44, h | 60, h, 0, 0]).unwrap().k;
    eq("ganache key", gk.to_hex64(), "4f3edf983ac636a65a842ce7c78d9aa706d3b113bce9c46f30d7d21715b23b1d")?;
    eq("ganache address", eth::eip55(&eth::address_of_secret(&c, &gk)), "0x90F8bf6A479f320ead074411a4B0e7944Ea8c9C1")?;
    eq("eip55 #1", eth::eip55(&unhex("5aaeb6053f3e94c9b9a09f33669435e7ef1beaed").unwrap().try_into().unwrap()), "0x5aAeb6053F3E94C9b9A09f33669435E7Ef1BeAed")?;
    eq("eip55 #2", eth::eip55(&unhex("fb6916095ca1df60bb79ce92ce3ea74c37c5d359").unwrap().try_into().unwrap()), "0xfB6916095ca1df60bB79Ce92cE3Ea74c37c5d359")?;
    // RLP examples (Ethereum wiki)
    use rlp::Item::{Bytes as B, List as L};
    eq("rlp dog", hex(&rlp::encode(&B(b"dog".to_vec()))), "83646f67")?;
    eq("rlp [cat,dog]", hex(&rlp::encode(&L(vec![B(b"cat".to_vec()), B(b"dog".to_vec())]))), "c88363617483646f67")?;
    eq("rlp empty", hex(&rlp::encode(&B(vec![]))), "80")?;
    eq("rlp 1024", hex(&rlp::encode(&rlp::uint(&Nat::from_u64(1024)))), "820400")?;
    eq("rlp sets", hex(&rlp::encode(&L(vec![L(vec![]), L(vec![L(vec![])]), L(vec![L(vec![]), L(vec![L(vec![])])])]))), "c7c0c1c0c3c0c1c0")?;
    let lorem = b"Lorem ipsum dolor sit amet, consectetur adipisicing elit";
    eq("rlp lorem", hex(&rlp::encode(&B(lorem.to_vec()))), &format!("b838{}", hex(lorem)))?;
    eq("rlp strict: wrapped single byte", format!("{:?}", rlp::decode(&[0x81, 0x05])), "Err(WrappedSingleByte)")?;
    eq("rlp strict: non-minimal", format!("{:?}", rlp::decode(&[0xb8, 0x01, 0x80])), "Err(NonMinimalLength)")?;
    eq("rlp strict: trailing", format!("{:?}", rlp::decode(&[0x80, 0x80])), "Err(TrailingBytes)")?;
    // EIP-155 example transaction
    let t = tx::Tx { kind: tx::Kind::Legacy, chain_id: Some(Nat::from_u64(1)), nonce: Nat::from_u64(9), gas_price: Nat::from_u64(20_000_000_000), max_priority: Nat::zero(), max_fee: Nat::zero(), gas: Nat::from_u64(21000),
        to: Some([0x35; 20]), value: Nat::from_dec("1000000000000000000").unwrap(), data: vec![], access_list: vec![] };
    eq("eip155 payload", hex(&t.unsigned_payload()), "ec098504a817c800825208943535353535353535353535353535353535353535880de0b6b3a764000080018080")?;
    eq("eip155 hash", hex(&t.signing_hash()), "daf5a779ae972f972197303d7b574746c7ef83eadac0f2791ad23db92e4c8e53")?;
    let key = U256::from_be(&[0x46; 32]);
    let (r, s, odd, _) = c.sign_rfc6979(&key, &t.signing_hash());
    eq("eip155 r", r.to_nat().to_dec(), "18515461264373351373200002665853028612451056578545711640558177340181847433846")?;
    eq("eip155 s", s.to_nat().to_dec(), "46948507304638947509940763649030358759909902576025900602547168820602576006531")?;
    eq("eip155 v", t.v(odd).to_dec(), "37")?;
    eq("eip155 signed", hex(&t.signed_payload(odd, &r.to_nat(), &s.to_nat())), "f86c098504a817c800825208943535353535353535353535353535353535353535880de0b6b3a76400008025a028ef61340bd939bc2195fe537567866003e1a15d3c71ff63e1590620aa636276a067cbe9d8997f761aecb703304b3800ccf555c9f3dc64214b297fb1966a3b6d83")?;
    let pk = c.mul_g(&key);
    eq("verify", c.verify(&t.signing_hash(), &r, &s, &pk).to_string(), "true")?;
    eq("recover", format!("{:?}", c.recover(&t.signing_hash(), &r, &s, odd)), &format!("{pk:?}"))?;
    // EIP-712 "Mail" example
    let person = |n: &str, w: &str| J::obj(vec![("name", J::s(n)), ("wallet", J::s(w))]);
    let sv = |v: Vec<(&str, &str)>| v.into_iter().map(|(a, b)| (a.to_string(), b.to_string())).collect::<Vec<_>>();
    let doc = eip712::Doc {
        types: vec![("EIP712Domain".into(), sv(vec![("name", "string"), ("version", "string"), ("chainId", "uint256"), ("verifyingContract", "address")])),
            ("Person".into(), sv(vec![("name", "string"), ("wallet", "address")])), ("Mail".into(), sv(vec![("from", "Person"), ("to", "Person"), ("contents", "string")]))],
        primary: "Mail".into(),
        domain: J::obj(vec![("name", J::s("Ether Mail")), ("version", J::s("1")), ("chainId", J::n("1")), ("verifyingContract", J::s("0xCcCCccccCCCCcCCCCCCcCcCccCcCCCcCcccccccC"))]),
        message: J::obj(vec![("from", person("Cow", "0xCD2a3d9F938E13CD947Ec05AbC7FE734Df8DD826")), ("to", person("Bob", "0xbBbBBBBbbBBBbbbBbbBbbbbBBbBbbbbBbBbbBBbB")), ("contents", J::s("Hello, Bob!"))]),
    };
    eq("eip712 encodeType", eip712::encode_type(&doc, "Mail").unwrap(), "Mail(Person from,Person to,string contents)Person(string name,address wallet)")?;
    match eip712::evaluate(&doc) {
        (json::Class::Accept(d), _) => {
            eq("eip712 domain", hex(&d.domain_separator), "f2cee375fa42b42143804025fc449deafd50cc031ca257e0b194a650a912090f")?;
            eq("eip712 message", hex(&d.message_hash), "c52c0ee5d84264471806290a3f2c4cecfc5490626bf912d01f240d7a274b371e")?;
            eq("eip712 digest", hex(&d.digest), "be609aee343fb3c4b28e1df9e632fca64fcfaede20f02e86244efddf30957bd2")?;
        }
        other => return Err(format!("eip712 Mail example not accepted: {other:?}")),
    }
    // EIP-191
    eq("eip191", hex(&eth::eip191_digest(b"hello world!")), &hex(&hash::keccak256(b"\x19Ethereum Signed Message:\n12hello world!")))?;
    // exact JSON numbers
    for (lit, want) in [("1e3", "Int { neg: false, mag: 1000, plain: false }"), ("-0", "Int { neg: true, mag: 0, plain: true }"), ("0.10e1", "Int { neg: false, mag: 1, plain: false }"), ("1.5", "Frac { neg: false }"), ("1e-400", "Frac { neg: false }"), ("12e400", "Huge { neg: false }"), ("01", "None"), ("1.", "None"), ("4503599627370497.3", "Frac { neg: false }")] {
        let got = match json::parse_number(lit) { None => "None".to_string(), Some(json::NumVal::Int { neg, mag, plain }) => format!("Int {{ neg: {neg}, mag: {}, plain: {plain} }}", mag.to_dec()), Some(o) => format!("{o:?}") };
        eq(&format!("json number {lit}"), got, want)?;
    }
    Ok(n)
}

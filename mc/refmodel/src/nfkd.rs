//! NFKD for the passphrase alphabet used by the checks: a literal table (UAX #15, UnicodeData.txt), embedded so that the
//! reference does not share the normalisation code of the subject; `ref/pyref.py` re-checks every row against Python's
//! `unicodedata` whenever the reference self-test runs.
/// (input, NFKD(input))
pub const TABLE: &[(&str, &str)] = &[
    ("", ""),
    ("TREZOR", "TREZOR"),
    ("pass word", "pass word"),
    ("aaaaaaaaaaaaaaaaaaaaaaaaaaaaaaaaaaaaaaaaaaaaaaaaaaaaaaaaaaaaaaaaaaaaaaaaaaaaaaaaaaaaaaaaaaaaaaaaaaaaaaaaaaaaaaaaaaaaaaaaaaaaaaaaaaaaaaaaaaaaaaaaaaaaaaaaaaaaaaaaaaaaaaaaaaaaaaaaaaaaaaaaaaaaaaaaaaaaaaaa", "aaaaaaaaaaaaaaaaaaaaaaaaaaaaaaaaaaaaaaaaaaaaaaaaaaaaaaaaaaaaaaaaaaaaaaaaaaaaaaaaaaaaaaaaaaaaaaaaaaaaaaaaaaaaaaaaaaaaaaaaaaaaaaaaaaaaaaaaaaaaaaaaaaaaaaaaaaaaaaaaaaaaaaaaaaaaaaaaaaaaaaaaaaaaaaaaaaaaaaaa"),
    ("\u{e9}", "e\u{301}"),
    ("e\u{301}", "e\u{301}"),
    ("\u{c5}", "A\u{30a}"),
    ("\u{212b}", "A\u{30a}"),
    ("A\u{30a}", "A\u{30a}"),
    ("\u{ff34}\u{ff32}\u{ff25}\u{ff3a}\u{ff2f}\u{ff32}", "TREZOR"),
    ("\u{fb01}", "fi"),
    ("\u{b2}", "2"),
    ("\u{216b}", "XII"),
    ("\u{334d}", "\u{30e1}\u{30fc}\u{30c8}\u{30eb}"),
    ("\u{ac00}", "\u{1100}\u{1161}"),
    ("\u{1100}\u{1161}", "\u{1100}\u{1161}"),
    ("q\u{307}\u{323}", "q\u{323}\u{307}"),
    ("q\u{323}\u{307}", "q\u{323}\u{307}"),
    ("\u{1d400}", "A"),
    ("\u{1f600}", "\u{1f600}"),
    ("\u{df}", "\u{df}"),
    ("\u{0}", "\u{0}"),
    ("\u{1e9b}\u{323}", "s\u{323}\u{307}"),
    ("\u{958}", "\u{915}\u{93c}"),
    ("\u{3d3}", "\u{3a5}\u{301}"),
    ("pa\u{df} w\u{f6}rd \u{ff11}", "pa\u{df} wo\u{308}rd 1"),
];
pub fn nfkd(s: &str) -> &'static str { let o = nfkd_raw(s); crate::trace::rec("nfkd", 100, || (crate::trace::q(s), crate::trace::q(o))); o }
fn nfkd_raw(s: &str) -> &'static str { TABLE.iter().find(|(i, _)| *i == s).unwrap_or_else(|| panic!("passphrase {s:?} is not in the reference NFKD table")).1 }

//! RLP (Yellow Paper appendix B): encoder and a strict decoder.
use crate::nat::Nat;

#[derive(Clone, Debug, PartialEq, Eq, Hash)]
pub enum Item { Bytes(Vec<u8>), List(Vec<Item>) }

fn header(len: usize, short: u8) -> Vec<u8> {
    if len < 56 { vec![short + len as u8] } else {
        let be = Nat::from_u64(len as u64).to_be_bytes();
        let mut h = vec![short + 55 + be.len() as u8]; h.extend_from_slice(&be); h
    }
}
pub fn encode(item: &Item) -> Vec<u8> {
    match item {
        Item::Bytes(b) if b.len() == 1 && b[0] < 0x80 => b.clone(),
        Item::Bytes(b) => { let mut o = header(b.len(), 0x80); o.extend_from_slice(b); o }
        Item::List(items) => { let body: Vec<u8> = items.iter().flat_map(encode).collect(); let mut o = header(body.len(), 0xc0); o.extend_from_slice(&body); o }
    }
}
pub fn uint(n: &Nat) -> Item { Item::Bytes(n.to_be_bytes()) }

#[derive(Debug, Clone, PartialEq, Eq)]
pub enum DecodeError { Empty, Truncated, NonMinimalLength, WrappedSingleByte, LeadingZeroLength, TrailingBytes }

fn decode_at(b: &[u8]) -> Result<(Item, usize), DecodeError> {
    let first = *b.first().ok_or(DecodeError::Empty)?;
    let long_len = |lol: usize| -> Result<usize, DecodeError> {
        if b.len() < 1 + lol { return Err(DecodeError::Truncated); }
        let lb = &b[1..1 + lol];
        if lb[0] == 0 { return Err(DecodeError::LeadingZeroLength); }
        let mut len = 0usize; for x in lb { len = len.checked_mul(256).ok_or(DecodeError::Truncated)? + *x as usize; }
        if len < 56 { return Err(DecodeError::NonMinimalLength); }
        Ok(len)
    };
    let (is_list, off, len) = match first {
        0x00..=0x7f => return Ok((Item::Bytes(vec![first]), 1)),
        0x80..=0xb7 => (false, 1, (first - 0x80) as usize),
        0xb8..=0xbf => { let lol = (first - 0xb7) as usize; (false, 1 + lol, long_len(lol)?) }
        0xc0..=0xf7 => (true, 1, (first - 0xc0) as usize),
        0xf8..=0xff => { let lol = (first - 0xf7) as usize; (true, 1 + lol, long_len(lol)?) }
    };
    if b.len() < off + len { return Err(DecodeError::Truncated); }
    let body = &b[off..off + len];
    if !is_list {
        if len == 1 && body[0] < 0x80 { return Err(DecodeError::WrappedSingleByte); }
        return Ok((Item::Bytes(body.to_vec()), off + len));
    }
    let mut items = Vec::new(); let mut pos = 0;
    while pos < body.len() { let (it, used) = decode_at(&body[pos..])?; items.push(it); pos += used; }
    Ok((Item::List(items), off + len))
}
/// strict: canonical lengths only, whole input consumed
pub fn decode(b: &[u8]) -> Result<Item, DecodeError> {
    let o = decode_raw(b);
    if b.len() <= 3000 { crate::trace::rec("rlp_decode", 800, || (crate::trace::h(b), match &o { Ok(i) => crate::trace::h(&encode(i)), Err(_) => "\"error\"".into() })); }
    o
}
fn decode_raw(b: &[u8]) -> Result<Item, DecodeError> {
    let (it, used) = decode_at(b)?;
    if used != b.len() { return Err(DecodeError::TrailingBytes); }
    Ok(it)
}
/// canonical integer: no leading zero byte
pub fn as_uint(item: &Item) -> Option<Nat> {
    match item { Item::Bytes(b) if b.first() != Some(&0) => Some(Nat::from_be_bytes(b)), _ => None }
}

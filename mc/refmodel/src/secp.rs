//! secp256k1 (SEC2), ECDSA verify / recover, RFC 6979 deterministic signing with the EIP-2 low-s rule.
//! Fixed 256-bit limbs for speed; cross-checked against `Nat` in the self-test.
use crate::hash::hmac_sha256;
use crate::nat::Nat;
use std::cmp::Ordering;

#[derive(Clone, Copy, Debug, PartialEq, Eq, Hash)]
pub struct U256(pub [u64; 4]); // little-endian limbs

impl U256 {
    pub const ZERO: U256 = U256([0; 4]);
    pub const ONE: U256 = U256([1, 0, 0, 0]);
    pub fn from_u64(v: u64) -> U256 { U256([v, 0, 0, 0]) }
    pub fn from_be(b: &[u8; 32]) -> U256 {
        let mut l = [0u64; 4];
        for i in 0..4 { l[3 - i] = u64::from_be_bytes(b[8 * i..8 * i + 8].try_into().unwrap()); }
        U256(l)
    }
    pub fn from_be_slice(b: &[u8]) -> Option<U256> {
        let skip = b.iter().take_while(|x| **x == 0).count();
        let b = &b[skip..];
        if b.len() > 32 { return None; }
        let mut buf = [0u8; 32]; buf[32 - b.len()..].copy_from_slice(b); Some(U256::from_be(&buf))
    }
    pub fn to_be(&self) -> [u8; 32] {
        let mut o = [0u8; 32];
        for i in 0..4 { o[8 * i..8 * i + 8].copy_from_slice(&self.0[3 - i].to_be_bytes()); }
        o
    }
    pub fn from_hex(s: &str) -> U256 { let n = Nat::from_hex(s).unwrap(); U256::from_be_slice(&n.to_be_bytes()).unwrap() }
    pub fn to_hex64(&self) -> String { self.to_be().iter().map(|b| format!("{:02x}", b)).collect() }
    pub fn to_nat(&self) -> Nat { Nat::from_be_bytes(&self.to_be()) }
    pub fn from_nat(n: &Nat) -> Option<U256> { U256::from_be_slice(&n.to_be_bytes()) }
    pub fn is_zero(&self) -> bool { self.0 == [0; 4] }
    pub fn is_odd(&self) -> bool { self.0[0] & 1 == 1 }
    pub fn bit(&self, i: usize) -> bool { (self.0[i / 64] >> (i % 64)) & 1 == 1 }
    pub fn adc(&self, o: &U256) -> (U256, bool) {
        let mut r = [0u64; 4]; let mut c = 0u128;
        for i in 0..4 { let t = self.0[i] as u128 + o.0[i] as u128 + c; r[i] = t as u64; c = t >> 64; }
        (U256(r), c != 0)
    }
    pub fn sbb(&self, o: &U256) -> (U256, bool) {
        let mut r = [0u64; 4]; let mut b = 0u64;
        for i in 0..4 {
            let (d1, b1) = self.0[i].overflowing_sub(o.0[i]);
            let (d2, b2) = d1.overflowing_sub(b);
            r[i] = d2; b = (b1 || b2) as u64;
        }
        (U256(r), b != 0)
    }
    pub fn mul_wide(&self, o: &U256) -> [u64; 8] {
        let mut r = [0u64; 8];
        for i in 0..4 {
            let mut carry = 0u128;
            for j in 0..4 {
                let t = r[i + j] as u128 + (self.0[i] as u128) * (o.0[j] as u128) + carry;
                r[i + j] = t as u64; carry = t >> 64;
            }
            r[i + 4] = carry as u64;
        }
        r
    }
    pub fn shr1(&self) -> U256 {
        let mut r = [0u64; 4];
        for i in 0..4 { r[i] = self.0[i] >> 1 | if i < 3 { self.0[i + 1] << 63 } else { 0 }; }
        U256(r)
    }
}
impl PartialOrd for U256 { fn partial_cmp(&self, o: &U256) -> Option<Ordering> { Some(self.cmp(o)) } }
impl Ord for U256 {
    fn cmp(&self, o: &U256) -> Ordering {
        for i in (0..4).rev() { if self.0[i] != o.0[i] { return self.0[i].cmp(&o.0[i]); } }
        Ordering::Equal
    }
}

/// arithmetic modulo a prime m = 2^256 - c
#[derive(Clone, Copy)]
pub struct Modulus { pub m: U256, pub c: U256 }
impl Modulus {
    pub fn new(m: U256) -> Modulus { let (c, _) = U256::ZERO.sbb(&m); Modulus { m, c } }
    pub fn reduce(&self, x: &U256) -> U256 { let mut x = *x; while x >= self.m { x = x.sbb(&self.m).0; } x }
    pub fn reduce_wide(&self, w: [u64; 8]) -> U256 {
        let mut lo = U256([w[0], w[1], w[2], w[3]]); let mut hi = U256([w[4], w[5], w[6], w[7]]);
        while !hi.is_zero() {
            // hi * 2^256 + lo == hi * c + lo (mod m)
            let p = hi.mul_wide(&self.c);
            let (s, carry) = U256([p[0], p[1], p[2], p[3]]).adc(&lo);
            let (h2, c2) = U256([p[4], p[5], p[6], p[7]]).adc(&U256::from_u64(carry as u64));
            assert!(!c2);
            lo = s; hi = h2;
        }
        self.reduce(&lo)
    }
    pub fn add(&self, a: &U256, b: &U256) -> U256 {
        let (s, c) = a.adc(b);
        if c { self.reduce(&s.adc(&self.c).0) } else { self.reduce(&s) }
    }
    pub fn neg(&self, a: &U256) -> U256 { if a.is_zero() { *a } else { self.m.sbb(a).0 } }
    pub fn sub(&self, a: &U256, b: &U256) -> U256 { self.add(a, &self.neg(&self.reduce(b))) }
    pub fn mul(&self, a: &U256, b: &U256) -> U256 { self.reduce_wide(a.mul_wide(b)) }
    pub fn pow(&self, a: &U256, e: &U256) -> U256 {
        let mut r = U256::ONE;
        for i in (0..256).rev() { r = self.mul(&r, &r); if e.bit(i) { r = self.mul(&r, a); } }
        r
    }
    pub fn inv(&self, a: &U256) -> U256 { self.pow(a, &self.m.sbb(&U256::from_u64(2)).0) }
}

pub fn p() -> U256 { U256::from_hex("fffffffffffffffffffffffffffffffffffffffffffffffffffffffefffffc2f") }
pub fn n() -> U256 { U256::from_hex("fffffffffffffffffffffffffffffffebaaedce6af48a03bbfd25e8cd0364141") }
pub fn gx() -> U256 { U256::from_hex("79be667ef9dcbbac55a06295ce870b07029bfcdb2dce28d959f2815b16f81798") }
pub fn gy() -> U256 { U256::from_hex("483ada7726a3c4655da4fbfc0e1108a8fd17b448a68554199c47d08ffb10d4b8") }
pub fn half_n() -> U256 { n().shr1() } // (n-1)/2 since n is odd

/// affine point; None = point at infinity
pub type Point = Option<(U256, U256)>;

#[derive(Clone, Copy)]
struct Jac { x: U256, y: U256, z: U256 } // z = 0 => infinity

pub struct Curve { pub fp: Modulus, pub fnn: Modulus }
impl Curve {
    pub fn new() -> Curve { Curve { fp: Modulus::new(p()), fnn: Modulus::new(n()) } }
    pub fn g(&self) -> Point { Some((gx(), gy())) }
    pub fn on_curve(&self, pt: &Point) -> bool {
        match pt { None => true, Some((x, y)) => {
            let f = &self.fp; if *x >= f.m || *y >= f.m { return false; }
            f.mul(y, y) == f.add(&f.mul(&f.mul(x, x), x), &U256::from_u64(7)) } }
    }
    fn to_jac(&self, p: &Point) -> Jac { match p { None => Jac { x: U256::ONE, y: U256::ONE, z: U256::ZERO }, Some((x, y)) => Jac { x: *x, y: *y, z: U256::ONE } } }
    fn to_aff(&self, j: &Jac) -> Point {
        if j.z.is_zero() { return None; }
        let f = &self.fp; let zi = f.inv(&j.z); let zi2 = f.mul(&zi, &zi);
        Some((f.mul(&j.x, &zi2), f.mul(&j.y, &f.mul(&zi2, &zi))))
    }
    fn dbl(&self, a: &Jac) -> Jac {
        let f = &self.fp;
        if a.z.is_zero() || a.y.is_zero() { return Jac { x: U256::ONE, y: U256::ONE, z: U256::ZERO }; }
        let y2 = f.mul(&a.y, &a.y);
        let s = f.mul(&U256::from_u64(4), &f.mul(&a.x, &y2));
        let m = f.mul(&U256::from_u64(3), &f.mul(&a.x, &a.x));
        let x3 = f.sub(&f.mul(&m, &m), &f.add(&s, &s));
        let y3 = f.sub(&f.mul(&m, &f.sub(&s, &x3)), &f.mul(&U256::from_u64(8), &f.mul(&y2, &y2)));
        let z3 = f.mul(&U256::from_u64(2), &f.mul(&a.y, &a.z));
        Jac { x: x3, y: y3, z: z3 }
    }
    fn addj(&self, a: &Jac, b: &Jac) -> Jac {
        let f = &self.fp;
        if a.z.is_zero() { return *b; } if b.z.is_zero() { return *a; }
        let z1z1 = f.mul(&a.z, &a.z); let z2z2 = f.mul(&b.z, &b.z);
        let u1 = f.mul(&a.x, &z2z2); let u2 = f.mul(&b.x, &z1z1);
        let s1 = f.mul(&a.y, &f.mul(&b.z, &z2z2)); let s2 = f.mul(&b.y, &f.mul(&a.z, &z1z1));
        if u1 == u2 { return if s1 == s2 { self.dbl(a) } else { Jac { x: U256::ONE, y: U256::ONE, z: U256::ZERO } }; }
        let h = f.sub(&u2, &u1); let r = f.sub(&s2, &s1);
        let h2 = f.mul(&h, &h); let h3 = f.mul(&h2, &h); let u1h2 = f.mul(&u1, &h2);
        let x3 = f.sub(&f.sub(&f.mul(&r, &r), &h3), &f.add(&u1h2, &u1h2));
        let y3 = f.sub(&f.mul(&r, &f.sub(&u1h2, &x3)), &f.mul(&s1, &h3));
        let z3 = f.mul(&h, &f.mul(&a.z, &b.z));
        Jac { x: x3, y: y3, z: z3 }
    }
    pub fn add(&self, a: &Point, b: &Point) -> Point { self.to_aff(&self.addj(&self.to_jac(a), &self.to_jac(b))) }
    /// plain double-and-add, most significant bit first
    pub fn mul(&self, k: &U256, pt: &Point) -> Point {
        let base = self.to_jac(pt); let mut acc = self.to_jac(&None);
        for i in (0..256).rev() { acc = self.dbl(&acc); if k.bit(i) { acc = self.addj(&acc, &base); } }
        self.to_aff(&acc)
    }
    pub fn mul_g(&self, k: &U256) -> Point { let o = self.mul(k, &self.g()); crate::trace::rec("mul_g", 300, || (format!("\"{}\"", k.to_hex64()), match &o { Some((x, y)) => format!("[\"{}\",\"{}\"]", x.to_hex64(), y.to_hex64()), None => "null".into() })); o }
    /// y with the requested parity for x, if x is on the curve
    pub fn lift_x(&self, x: &U256, odd: bool) -> Point {
        let f = &self.fp; if *x >= f.m { return None; }
        let rhs = f.add(&f.mul(&f.mul(x, x), x), &U256::from_u64(7));
        // p = 3 mod 4: sqrt = rhs^((p+1)/4)
        let e = f.m.adc(&U256::ONE).0.shr1().shr1();
        let y = f.pow(&rhs, &e);
        if f.mul(&y, &y) != rhs { return None; }
        let y = if y.is_odd() == odd { y } else { f.neg(&y) };
        Some((*x, y))
    }
    pub fn uncompressed(&self, pt: &(U256, U256)) -> [u8; 65] { let mut o = [4u8; 65]; o[1..33].copy_from_slice(&pt.0.to_be()); o[33..].copy_from_slice(&pt.1.to_be()); o }
    pub fn compressed(&self, pt: &(U256, U256)) -> [u8; 33] { let mut o = [0u8; 33]; o[0] = if pt.1.is_odd() { 3 } else { 2 }; o[1..].copy_from_slice(&pt.0.to_be()); o }

    /// ECDSA verification of (r, s) over the 32-byte digest `z` (reduced mod n) under public key q
    pub fn verify(&self, digest: &[u8; 32], r: &U256, s: &U256, q: &Point) -> bool {
        let o = self.verify_raw(digest, r, s, q);
        crate::trace::rec("verify", 300, || (format!("[{},\"{}\",\"{}\",{}]", crate::trace::h(digest), r.to_hex64(), s.to_hex64(), match q { Some((x, y)) => format!("[\"{}\",\"{}\"]", x.to_hex64(), y.to_hex64()), None => "null".into() }), o.to_string()));
        o
    }
    fn verify_raw(&self, digest: &[u8; 32], r: &U256, s: &U256, q: &Point) -> bool {
        let nn = &self.fnn;
        if r.is_zero() || s.is_zero() || *r >= nn.m || *s >= nn.m || q.is_none() || !self.on_curve(q) { return false; }
        let z = nn.reduce(&U256::from_be(digest));
        let si = nn.inv(s);
        let u1 = nn.mul(&z, &si); let u2 = nn.mul(r, &si);
        match self.add(&self.mul_g(&u1), &self.mul(&u2, q)) { None => false, Some((x, _)) => nn.reduce(&x) == *r }
    }
    /// public-key recovery (SEC1 4.1.6) for recovery id bit `odd`, assuming R.x = r (not r + n)
    pub fn recover(&self, digest: &[u8; 32], r: &U256, s: &U256, odd: bool) -> Point {
        let o = self.recover_raw(digest, r, s, odd);
        crate::trace::rec("recover", 400, || (format!("[{},\"{}\",\"{}\",{}]", crate::trace::h(digest), r.to_hex64(), s.to_hex64(), odd), match &o { Some((x, y)) => format!("[\"{}\",\"{}\"]", x.to_hex64(), y.to_hex64()), None => "null".into() }));
        o
    }
    fn recover_raw(&self, digest: &[u8; 32], r: &U256, s: &U256, odd: bool) -> Point {
        let nn = &self.fnn;
        if r.is_zero() || s.is_zero() || *r >= nn.m || *s >= nn.m { return None; }
        let rp = self.lift_x(r, odd)?;
        let z = nn.reduce(&U256::from_be(digest));
        let ri = nn.inv(r);
        let u1 = nn.neg(&nn.mul(&z, &ri)); let u2 = nn.mul(s, &ri);
        self.add(&self.mul_g(&u1), &self.mul(&u2, &Some(rp)))
    }
    /// RFC 6979 (HMAC-SHA256) ECDSA; returns (r, s, y_parity, s_was_high) after the low-s rule
    pub fn sign_rfc6979(&self, d: &U256, digest: &[u8; 32]) -> (U256, U256, bool, bool) {
        let o = self.sign_rfc6979_raw(d, digest);
        crate::trace::rec("sign_rfc6979", 500, || (format!("[\"{}\",{}]", d.to_hex64(), crate::trace::h(digest)), format!("[\"{}\",\"{}\",{}]", o.0.to_hex64(), o.1.to_hex64(), o.2)));
        o
    }
    fn sign_rfc6979_raw(&self, d: &U256, digest: &[u8; 32]) -> (U256, U256, bool, bool) {
        let nn = &self.fnn;
        let z = nn.reduce(&U256::from_be(digest));
        let x = d.to_be(); let h1 = z.to_be(); // bits2octets(h1) = int(h1) mod q
        let mut v = [1u8; 32]; let mut k = [0u8; 32];
        let cat = |v: &[u8; 32], tag: u8, with: bool| { let mut m = v.to_vec(); m.push(tag); if with { m.extend_from_slice(&x); m.extend_from_slice(&h1); } m };
        k = hmac_sha256(&k, &cat(&v, 0, true)); v = hmac_sha256(&k, &v);
        k = hmac_sha256(&k, &cat(&v, 1, true)); v = hmac_sha256(&k, &v);
        loop {
            v = hmac_sha256(&k, &v);
            let cand = U256::from_be(&v);
            if !cand.is_zero() && cand < nn.m {
                let (rx, ry) = self.mul_g(&cand).unwrap();
                let r = nn.reduce(&rx);
                let s = nn.mul(&nn.inv(&cand), &nn.add(&z, &nn.mul(&r, d)));
                if !r.is_zero() && !s.is_zero() {
                    let high = s > half_n();
                    let (s, odd) = if high { (nn.neg(&s), !ry.is_odd()) } else { (s, ry.is_odd()) };
                    return (r, s, odd, high);
                }
            }
            k = hmac_sha256(&k, &cat(&v, 0, false)); v = hmac_sha256(&k, &v);
        }
    }
}

//! EIP-712: encodeType / typeHash / encodeData / hashStruct / signing digest, and value conformance.
use crate::eth::{eip55, hex, unhex};
use crate::hash::keccak256;
use crate::json::{classify_ranged, Class, J};
use std::collections::BTreeSet;

#[derive(Clone, Debug, PartialEq, Eq, Hash)]
pub struct Doc {
    /// struct name -> ordered (member name, member type text)
    pub types: Vec<(String, Vec<(String, String)>)>,
    pub primary: String,
    pub domain: J,
    pub message: J,
}
impl Doc {
    pub fn to_json(&self) -> J {
        let types = J::Obj(self.types.iter().map(|(n, ms)| (n.clone(), J::Arr(ms.iter().map(|(mn, mt)| J::obj(vec![("name", J::s(mn)), ("type", J::s(mt))])).collect()))).collect());
        J::obj(vec![("types", types), ("primaryType", J::s(&self.primary)), ("domain", self.domain.clone()), ("message", self.message.clone())])
    }
    pub fn members(&self, name: &str) -> Option<&Vec<(String, String)>> { self.types.iter().find(|(n, _)| n == name).map(|(_, m)| m) }
}

#[derive(Clone, Debug, PartialEq, Eq)]
pub enum Ty { Bool, Address, String, Bytes, BytesN(usize), Uint(usize), Int(usize), Struct(String), Array(Box<Ty>, Option<usize>) }

/// member type grammar: atoms, bytes1..32, (u)int8..256 step 8, T[] / T[k]; anything else is a struct reference
pub fn parse_type(t: &str) -> Ty {
    if let Some(inner) = t.strip_suffix("[]") { return Ty::Array(Box::new(parse_type(inner)), None); }
    if t.ends_with(']') { if let Some(open) = t.rfind('[') { let k = &t[open + 1..t.len() - 1];
        if !k.is_empty() && k.bytes().all(|b| b.is_ascii_digit()) && (k == "0" || !k.starts_with('0')) { if let Ok(k) = k.parse::<usize>() { return Ty::Array(Box::new(parse_type(&t[..open])), Some(k)); } } } }
    match t { "bool" => return Ty::Bool, "address" => return Ty::Address, "string" => return Ty::String, "bytes" => return Ty::Bytes, _ => {} }
    let width = |p: &str| -> Option<usize> { let d = t.strip_prefix(p)?; if d.is_empty() || d.starts_with('0') || !d.bytes().all(|b| b.is_ascii_digit()) { return None; } d.parse().ok() };
    if let Some(n) = width("bytes") { if (1..=32).contains(&n) { return Ty::BytesN(n); } }
    if let Some(n) = width("uint") { if n % 8 == 0 && (8..=256).contains(&n) { return Ty::Uint(n); } }
    if let Some(n) = width("int") { if n % 8 == 0 && (8..=256).contains(&n) { return Ty::Int(n); } }
    Ty::Struct(t.to_string())
}
/// Exotic but unambiguous spellings of a member type (leading zeros or '+' in a width or an array size): the properties
/// do not oblige the tool to read them, but if it does, the type it means is the canonically spelled one.
pub fn lenient_canonical(t: &str) -> Option<String> {
    fn num(d: &str) -> Option<String> { let d = d.strip_prefix('+').unwrap_or(d); if d.is_empty() || !d.bytes().all(|b| b.is_ascii_digit()) { return None; } let z = d.trim_start_matches('0'); Some(if z.is_empty() { "0".to_string() } else { z.to_string() }) }
    if let Some(inner) = t.strip_suffix("[]") { return lenient_canonical(inner).map(|c| format!("{c}[]")); }
    if t.ends_with(']') { if let Some(open) = t.rfind('[') { let k = &t[open + 1..t.len() - 1]; let inner = &t[..open];
        let kc = num(k)?; let ic = lenient_canonical(inner).unwrap_or_else(|| inner.to_string());
        let c = format!("{ic}[{kc}]"); return if c != t { Some(c) } else { None }; } }
    for p in ["bytes", "uint", "int"] { if let Some(d) = t.strip_prefix(p) { if let Some(w) = num(d) { let c = format!("{p}{w}"); if c != t && !matches!(parse_type(&c), Ty::Struct(_)) { return Some(c); } } } }
    None
}
/// the member type the document means: the declared text, or (unconstrained) its canonical spelling
fn effective_type(doc: &Doc, mt: &str, unc: &mut bool) -> String {
    if let Some(r) = struct_ref(&parse_type(mt)) { if doc.members(r).is_none() { if let Some(c) = lenient_canonical(mt) { let ok = match struct_ref(&parse_type(&c)) { None => true, Some(r2) => doc.members(r2).is_some() }; if ok { *unc = true; return c; } } } }
    mt.to_string()
}
fn struct_ref(t: &Ty) -> Option<&str> { match t { Ty::Struct(s) => Some(s), Ty::Array(i, _) => struct_ref(i), _ => None } }

#[derive(Clone, Debug, PartialEq, Eq)]
pub struct Nonconforming(pub String);
type R<T> = Result<T, Nonconforming>;
fn bad<T>(s: impl Into<String>) -> R<T> { Err(Nonconforming(s.into())) }

fn collect_deps(doc: &Doc, name: &str, seen: &mut BTreeSet<String>) -> R<()> {
    let members = doc.members(name).ok_or_else(|| Nonconforming(format!("undefined struct type {name}")))?;
    for (_, mt) in members {
        let mt = effective_type(doc, mt, &mut false);
        if let Some(r) = struct_ref(&parse_type(&mt)) { if !seen.contains(r) { seen.insert(r.to_string()); collect_deps(doc, r, seen)?; } }
    }
    Ok(())
}
pub fn encode_type(doc: &Doc, name: &str) -> R<String> {
    let mut deps = BTreeSet::new();
    collect_deps(doc, name, &mut deps)?;
    deps.remove(name);
    let one = |n: &str| -> String { format!("{}({})", n, doc.members(n).unwrap().iter().map(|(mn, mt)| format!("{} {}", effective_type(doc, mt, &mut false), mn)).collect::<Vec<_>>().join(",")) };
    let mut s = one(name);
    for d in &deps { s += &one(d); } // BTreeSet<String>: bytewise order
    Ok(s)
}
pub fn type_hash(doc: &Doc, name: &str) -> R<[u8; 32]> { Ok(keccak256(encode_type(doc, name)?.as_bytes())) }

/// `unc` is raised when a value's spelling is one the properties do not oblige the tool to accept
pub fn encode_value(doc: &Doc, ty: &Ty, v: &J, unc: &mut bool) -> R<[u8; 32]> {
    let hexbytes = |v: &J, unc: &mut bool| -> R<Vec<u8>> {
        let s = match v { J::Str(s) => s, o => return bad(format!("expected hex string, got {}", o.kind_name())) };
        let body = if let Some(b) = s.strip_prefix("0x") { b } else if let Some(b) = s.strip_prefix("0X") { *unc = true; b } else { *unc = true; s.as_str() };
        unhex(body).ok_or_else(|| Nonconforming(format!("bad hex '{s}'")))
    };
    Ok(match ty {
        Ty::Bool => match v { J::Bool(b) => { let mut w = [0u8; 32]; w[31] = *b as u8; w } o => return bad(format!("expected bool, got {}", o.kind_name())) },
        Ty::String => match v { J::Str(s) => keccak256(s.as_bytes()), o => return bad(format!("expected string, got {}", o.kind_name())) },
        Ty::Bytes => keccak256(&hexbytes(v, unc)?),
        Ty::BytesN(n) => { let b = hexbytes(v, unc)?; if b.len() != *n { return bad(format!("bytes{n} of length {}", b.len())); } let mut w = [0u8; 32]; w[..*n].copy_from_slice(&b); w }
        Ty::Address => {
            let s = match v { J::Str(s) => s, o => return bad(format!("expected address, got {}", o.kind_name())) };
            let body = match s.strip_prefix("0x") { Some(b) => b, None => { *unc = true; s.strip_prefix("0X").unwrap_or(s) } };
            let b = unhex(body).ok_or_else(|| Nonconforming("bad address hex".into()))?;
            if b.len() != 20 { return bad("address length"); }
            let a: [u8; 20] = b.try_into().unwrap();
            if body != hex(&a) && format!("0x{body}") != eip55(&a) { *unc = true; }
            let mut w = [0u8; 32]; w[12..].copy_from_slice(&a); w
        }
        Ty::Uint(n) | Ty::Int(n) => {
            let signed = matches!(ty, Ty::Int(_));
            // EIP-712 integers are JSON integers or strings; a JSON number in float notation (127.0, 1.27e2) is a spelling no
            // property names for typed data: it may be refused, but if it is read it is read at its exact value
            if let J::Num(l) = v { if l.contains(['.', 'e', 'E']) { *unc = true; } }
            match classify_ranged(v, *n, signed) {
                Class::Accept(i) => i.to_word().unwrap(),
                Class::Unc(i) => { *unc = true; i.to_word().unwrap() }
                Class::Reject => return bad(format!("{} is not a value of {}int{n}", v.to_text(), if signed { "" } else { "u" })),
            }
        }
        Ty::Struct(name) => match v { J::Obj(_) => hash_struct(doc, name, v, unc)?, o => return bad(format!("expected object for {name}, got {}", o.kind_name())) },
        Ty::Array(inner, size) => {
            let items = match v { J::Arr(a) => a, o => return bad(format!("expected array, got {}", o.kind_name())) };
            if let Some(k) = size { if items.len() != *k { return bad(format!("fixed array of {k} with {} elements", items.len())); } }
            let mut buf = Vec::with_capacity(32 * items.len());
            for it in items { buf.extend_from_slice(&encode_value(doc, inner, it, unc)?); }
            keccak256(&buf)
        }
    })
}
pub fn hash_struct(doc: &Doc, name: &str, v: &J, unc: &mut bool) -> R<[u8; 32]> {
    let members = doc.members(name).ok_or_else(|| Nonconforming(format!("undefined struct type {name}")))?;
    let obj = match v { J::Obj(o) => o, o => return bad(format!("expected object for {name}, got {}", o.kind_name())) };
    let mut buf = type_hash(doc, name)?.to_vec();
    // a member name declared twice: no Solidity struct looks like that and EIP-712 is silent; refusing the document and
    // encoding the member twice are both defensible - but a missing or an undeclared member is refused all the same
    if members.iter().enumerate().any(|(i, (mn, _))| members[..i].iter().any(|(o, _)| o == mn)) { *unc = true; }
    for (mn, mt) in members {
        let mut hits = obj.iter().filter(|(k, _)| k == mn);
        let val = &hits.next().ok_or_else(|| Nonconforming(format!("{name} value misses member {mn}")))?.1;
        if hits.next().is_some() { *unc = true; } // duplicate JSON keys: behaviour is the JSON parser's
        let mt = effective_type(doc, mt, unc);
        buf.extend_from_slice(&encode_value(doc, &parse_type(&mt), val, unc)?);
    }
    for (k, _) in obj { if !members.iter().any(|(mn, _)| mn == k) { return bad(format!("{name} value has undeclared member {k}")); } }
    Ok(keccak256(&buf))
}

pub const DOMAIN_FIELDS: [(&str, &str); 5] = [("name", "string"), ("version", "string"), ("chainId", "uint256"), ("verifyingContract", "address"), ("salt", "bytes32")];
/// non-empty, strictly increasing selection of the standard fields with exactly their types
pub fn domain_type_well_formed(members: &[(String, String)]) -> bool {
    if members.is_empty() { return false; }
    let mut next = 0;
    for (mn, mt) in members {
        match DOMAIN_FIELDS.iter().position(|(n, _)| n == mn) {
            Some(p) if p >= next && DOMAIN_FIELDS[p].1 == mt => next = p + 1,
            _ => return false,
        }
    }
    true
}

#[derive(Clone, Debug, PartialEq, Eq)]
pub struct Digests { pub domain_separator: [u8; 32], pub message_hash: [u8; 32], pub digest: [u8; 32] }

pub fn evaluate(doc: &Doc) -> (Class<Digests>, String) {
    let o = evaluate_raw(doc);
    crate::trace::rec("eip712", 8000, || { let t = doc.to_json().to_text(); (crate::trace::q(&t), match &o.0 { Class::Reject => "\"reject\"".into(), Class::Accept(d) | Class::Unc(d) => format!("[\"{}\",{},{},{}]", o.0.name(), crate::trace::h(&d.domain_separator), crate::trace::h(&d.message_hash), crate::trace::h(&d.digest)) }) });
    o
}
fn evaluate_raw(doc: &Doc) -> (Class<Digests>, String) {
    let mut unc = false;
    let r = (|| -> R<Digests> {
        let dm = doc.members("EIP712Domain").ok_or_else(|| Nonconforming("no EIP712Domain type".into()))?;
        if !domain_type_well_formed(dm) { return bad("malformed EIP712Domain type"); }
        let ds = hash_struct(doc, "EIP712Domain", &doc.domain, &mut unc)?;
        let mh = hash_struct(doc, &doc.primary, &doc.message, &mut unc)?;
        let mut pre = vec![0x19, 0x01]; pre.extend_from_slice(&ds); pre.extend_from_slice(&mh);
        Ok(Digests { domain_separator: ds, message_hash: mh, digest: keccak256(&pre) })
    })();
    match r { Err(Nonconforming(why)) => (Class::Reject, why), Ok(d) => if unc { (Class::Unc(d), "unconstrained spelling".into()) } else { (Class::Accept(d), String::new()) } }
}

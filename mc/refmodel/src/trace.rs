//! Optional recorder of (function, input, output) triples of the reference model, used only to cross-validate the
//! reference against the independent Python implementation `ref/pyref.py`. Enabled by VERIF_REF_TRACE=<file>.
use std::collections::{HashMap, HashSet};
use std::io::Write;
use std::sync::atomic::{AtomicBool, Ordering};
use std::sync::{Mutex, OnceLock};

static ENABLED: AtomicBool = AtomicBool::new(false);
struct St { out: std::io::BufWriter<std::fs::File>, counts: HashMap<&'static str, usize>, seen: HashSet<u64> }
static ST: OnceLock<Mutex<St>> = OnceLock::new();
thread_local! { static BUSY: std::cell::Cell<bool> = std::cell::Cell::new(false); }

pub fn init_from_env() {
    if let Ok(p) = std::env::var("VERIF_REF_TRACE") {
        let f = std::fs::File::create(&p).expect("trace file");
        let _ = ST.set(Mutex::new(St { out: std::io::BufWriter::new(f), counts: HashMap::new(), seen: HashSet::new() }));
        ENABLED.store(true, Ordering::SeqCst);
    }
}
pub fn flush() { if let Some(st) = ST.get() { let _ = st.lock().unwrap().out.flush(); } }
fn fnv(s: &str) -> u64 { s.bytes().fold(0xcbf29ce484222325u64, |h, b| (h ^ b as u64).wrapping_mul(0x100000001b3)) }
/// records up to `cap` distinct inputs per function; `f` builds (input, output) as JSON fragments (already quoted)
#[inline]
pub fn rec(name: &'static str, cap: usize, f: impl FnOnce() -> (String, String)) {
    if !ENABLED.load(Ordering::Relaxed) { return; }
    if BUSY.with(|b| b.replace(true)) { return; } // no nested recording (outputs computed through other recorded functions)
    let (i, o) = f();
    BUSY.with(|b| b.set(false));
    let mut st = ST.get().unwrap().lock().unwrap();
    let c = *st.counts.get(name).unwrap_or(&0);
    if c >= cap { return; }
    let key = fnv(&format!("{name}|{i}"));
    if !st.seen.insert(key) { return; }
    st.counts.insert(name, c + 1);
    let _ = writeln!(st.out, "{{\"fn\":\"{name}\",\"in\":{i},\"out\":{o}}}");
}
pub fn q(s: &str) -> String { crate::json::quote(s) }
pub fn h(b: &[u8]) -> String { format!("\"{}\"", crate::eth::hex(b)) }

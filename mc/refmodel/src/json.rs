//! A JSON document model that keeps number literals as written, plus exact (rational) number semantics.
use crate::nat::Nat;

#[derive(Clone, Debug, PartialEq, Eq, Hash)]
pub enum J { Null, Bool(bool), Num(String), Str(String), Arr(Vec<J>), Obj(Vec<(String, J)>) }

pub fn quote(s: &str) -> String {
    let mut o = String::from("\"");
    for c in s.chars() {
        match c {
            '"' => o += "\\\"", '\\' => o += "\\\\", '\n' => o += "\\n", '\r' => o += "\\r", '\t' => o += "\\t",
            c if (c as u32) < 0x20 => o += &format!("\\u{:04x}", c as u32),
            c => o.push(c),
        }
    }
    o.push('"'); o
}
impl J {
    pub fn s(x: &str) -> J { J::Str(x.to_string()) }
    pub fn n(x: &str) -> J { J::Num(x.to_string()) }
    pub fn obj(v: Vec<(&str, J)>) -> J { J::Obj(v.into_iter().map(|(k, v)| (k.to_string(), v)).collect()) }
    pub fn to_text(&self) -> String {
        match self {
            J::Null => "null".into(), J::Bool(b) => b.to_string(), J::Num(l) => l.clone(), J::Str(s) => quote(s),
            J::Arr(a) => format!("[{}]", a.iter().map(|x| x.to_text()).collect::<Vec<_>>().join(",")),
            J::Obj(o) => format!("{{{}}}", o.iter().map(|(k, v)| format!("{}:{}", quote(k), v.to_text())).collect::<Vec<_>>().join(",")),
        }
    }
    /// the same document with object keys in another order (mode 1: reversed, mode 2: rotated by one), recursively
    pub fn reordered(&self, mode: u64) -> J {
        match self {
            J::Arr(a) => J::Arr(a.iter().map(|x| x.reordered(mode)).collect()),
            J::Obj(o) => { let mut v: Vec<(String, J)> = o.iter().map(|(k, x)| (k.clone(), x.reordered(mode))).collect(); match mode % 3 { 1 => v.reverse(), 2 => if !v.is_empty() { v.rotate_left(1) }, _ => {} } J::Obj(v) }
            other => other.clone(),
        }
    }
    pub fn kind_name(&self) -> &'static str { match self { J::Null => "null", J::Bool(_) => "bool", J::Num(_) => "number", J::Str(_) => "string", J::Arr(_) => "array", J::Obj(_) => "object" } }
}

/// exact value of a JSON number literal
#[derive(Clone, Debug, PartialEq, Eq)]
pub enum NumVal {
    /// an integer; `plain` = literal had neither fraction nor exponent
    Int { neg: bool, mag: Nat, plain: bool },
    /// an integer of at least 10^81 (certainly >= 2^256), not materialised
    Huge { neg: bool },
    /// not an integer
    Frac { neg: bool },
}
/// RFC 8259 number grammar; None when the text is not a JSON number
pub fn parse_number(lit: &str) -> Option<NumVal> {
    let b = lit.as_bytes(); let mut i = 0;
    let neg = b.first() == Some(&b'-'); if neg { i += 1; }
    let int_start = i;
    while i < b.len() && b[i].is_ascii_digit() { i += 1; }
    let int_part = &lit[int_start..i];
    if int_part.is_empty() || (int_part.len() > 1 && int_part.starts_with('0')) { return None; }
    let mut frac = ""; let mut has_fe = false;
    if i < b.len() && b[i] == b'.' {
        let s = i + 1; i = s; while i < b.len() && b[i].is_ascii_digit() { i += 1; }
        if i == s { return None; } frac = &lit[s..i]; has_fe = true;
    }
    let mut exp: i64 = 0;
    if i < b.len() && (b[i] == b'e' || b[i] == b'E') {
        i += 1; let mut eneg = false;
        if i < b.len() && (b[i] == b'+' || b[i] == b'-') { eneg = b[i] == b'-'; i += 1; }
        let s = i; while i < b.len() && b[i].is_ascii_digit() { i += 1; }
        if i == s { return None; }
        let digits = lit[s..i].trim_start_matches('0');
        exp = if digits.len() > 9 { 1_000_000_000 } else { digits.parse::<i64>().unwrap_or(0) };
        if eneg { exp = -exp; } has_fe = true;
    }
    if i != b.len() { return None; }
    let mut digits = format!("{}{}", int_part, frac);
    let mut scale = exp - frac.len() as i64; // value = digits * 10^scale
    let stripped = digits.trim_start_matches('0').to_string(); digits = stripped;
    while digits.ends_with('0') { digits.pop(); scale += 1; }
    if digits.is_empty() { return Some(NumVal::Int { neg, mag: Nat::zero(), plain: !has_fe }); }
    if scale < 0 { return Some(NumVal::Frac { neg }); }
    if scale as usize + digits.len() > 81 { return Some(NumVal::Huge { neg }); }
    let mut mag = Nat::from_dec(&digits).unwrap();
    for _ in 0..scale { mag = mag.mul_small(10); }
    Some(NumVal::Int { neg, mag, plain: !has_fe })
}

/// Three-valued classification used by every oracle: the property obliges acceptance with this value,
/// obliges rejection, or leaves acceptance open (but if accepted the value must be this one).
#[derive(Clone, Debug, PartialEq, Eq)]
pub enum Class<T> { Accept(T), Reject, Unc(T) }
impl<T> Class<T> {
    pub fn map<U>(self, f: impl FnOnce(T) -> U) -> Class<U> { match self { Class::Accept(v) => Class::Accept(f(v)), Class::Reject => Class::Reject, Class::Unc(v) => Class::Unc(f(v)) } }
    pub fn and_then<U>(self, f: impl FnOnce(T) -> Class<U>) -> Class<U> {
        match self { Class::Reject => Class::Reject, Class::Accept(v) => f(v), Class::Unc(v) => match f(v) { Class::Accept(u) | Class::Unc(u) => Class::Unc(u), Class::Reject => Class::Reject } }
    }
    pub fn name(&self) -> &'static str { match self { Class::Accept(_) => "must-accept", Class::Reject => "must-reject", Class::Unc(_) => "unconstrained" } }
}

/// signed exact integer
#[derive(Clone, Debug, PartialEq, Eq, Hash)]
pub struct Int { pub neg: bool, pub mag: Nat }
impl Int {
    pub fn pos(mag: Nat) -> Int { Int { neg: false, mag } }
    pub fn norm(mut self) -> Int { if self.mag.is_zero() { self.neg = false; } self }
    /// 32-byte two's complement big-endian, if it fits
    pub fn to_word(&self) -> Option<[u8; 32]> {
        if !self.neg { return self.mag.to_be_padded(32).map(|v| v.try_into().unwrap()); }
        if self.mag > Nat::pow2(255) { return None; }
        Nat::pow2(256).sub(&self.mag).to_be_padded(32).map(|v| v.try_into().unwrap())
    }
    pub fn in_uint(&self, bits: usize) -> bool { (!self.neg || self.mag.is_zero()) && self.mag < Nat::pow2(bits) }
    pub fn in_int(&self, bits: usize) -> bool { if self.neg { self.mag <= Nat::pow2(bits - 1) } else { self.mag < Nat::pow2(bits - 1) } }
}

fn lenient_string_value(s: &str) -> Option<Int> {
    // any exotic-but-unambiguous spelling of an integer: whitespace, '+', radix prefixes in either case,
    // leading zeros, digit separators, float-looking strings
    let t: String = s.chars().filter(|c| !c.is_whitespace() && *c != '_').collect();
    let (neg, t) = match t.strip_prefix('-') { Some(r) => (true, r.to_string()), None => (false, t.strip_prefix('+').unwrap_or(&t).to_string()) };
    let lower = t.to_ascii_lowercase();
    let mag = if let Some(h) = lower.strip_prefix("0x") { Nat::from_hex(h)? }
        else if let Some(b) = lower.strip_prefix("0b") { if b.is_empty() || !b.bytes().all(|c| c == b'0' || c == b'1') { return None; } b.bytes().fold(Nat::zero(), |a, c| a.mul_small(2).add(&Nat::from_u64((c - b'0') as u64))) }
        else if let Some(o) = lower.strip_prefix("0o") { if o.is_empty() || !o.bytes().all(|c| (b'0'..=b'7').contains(&c)) { return None; } o.bytes().fold(Nat::zero(), |a, c| a.mul_small(8).add(&Nat::from_u64((c - b'0') as u64))) }
        else if let Some(n) = Nat::from_dec(&lower) { n }
        else { let canon = { let z = lower.trim_start_matches('0'); if z.is_empty() || z.starts_with('.') || z.starts_with('e') { format!("0{}", z) } else { z.to_string() } };
               match parse_number(&canon)? { NumVal::Int { mag, .. } => mag, _ => return None } };
    Some(Int { neg, mag }.norm())
}

/// The integer a JSON value denotes when used as a numeric field, before any range check.
pub fn classify_integer(j: &J) -> Class<Int> {
    let o = classify_integer_raw(j);
    crate::trace::rec("classify_integer", 3000, || (crate::trace::q(&j.to_text()), match &o { Class::Reject => "\"reject\"".into(), Class::Accept(v) | Class::Unc(v) => format!("[\"{}\",\"{}{}\"]", o.name(), if v.neg { "-" } else { "" }, if v.mag.bit_len() > 256 { "huge".to_string() } else { v.mag.to_dec() }) }));
    o
}
fn classify_integer_raw(j: &J) -> Class<Int> {
    match j {
        J::Num(lit) => match parse_number(lit) {
            None => Class::Reject,
            Some(NumVal::Frac { .. }) => Class::Reject,
            Some(NumVal::Huge { neg }) => Class::Unc(Int { neg, mag: Nat::pow2(300) }), // out of every range; callers reject on range
            Some(NumVal::Int { neg, mag, plain }) => {
                if mag.is_zero() { return if neg { Class::Unc(Int::pos(mag)) } else { Class::Accept(Int::pos(mag)) }; }
                let v = Int { neg, mag: mag.clone() };
                if plain { if (!neg && mag < Nat::pow2(64)) || (neg && mag <= Nat::pow2(63)) { Class::Accept(v) } else { Class::Unc(v) } }
                else if mag < Nat::pow2(53) { Class::Accept(v) } else { Class::Unc(v) }
            }
        },
        J::Str(s) => {
            let (neg, body) = match s.strip_prefix('-') { Some(r) => (true, r), None => (false, s.as_str()) };
            // canonical hex has no leading zero digit (0x0 is zero); padded spellings such as 0x0001 are exotic but unambiguous
            let strict = if let Some(h) = body.strip_prefix("0x") { if h.len() <= 64 && (h == "0" || !h.starts_with('0')) { Nat::from_hex(h) } else { None } }
                else if body == "0" || (!body.starts_with('0') && !body.is_empty()) { Nat::from_dec(body) } else { None };
            match strict {
                Some(mag) => { if neg && mag.is_zero() { Class::Unc(Int::pos(mag)) } else { Class::Accept(Int { neg, mag }) } }
                None => match lenient_string_value(s) { Some(v) => Class::Unc(v), None => Class::Reject },
            }
        }
        _ => Class::Reject,
    }
}
/// numeric field of `bits` bits, unsigned or signed: range applied
pub fn classify_ranged(j: &J, bits: usize, signed: bool) -> Class<Int> {
    classify_integer(j).and_then(|v| { let ok = if signed { v.in_int(bits) } else { v.in_uint(bits) }; if ok { Class::Accept(v) } else { Class::Reject } })
}

//! BIP-32 private derivation (master + CKDpriv).
use crate::hash::hmac_sha512;
use crate::secp::{Curve, U256};

#[derive(Clone, Debug, PartialEq, Eq, Hash)]
pub struct XKey { pub k: U256, pub c: [u8; 32] }

pub fn master(seed: &[u8]) -> Option<XKey> {
    let o = master_raw(seed);
    crate::trace::rec("master", 100, || (crate::trace::h(seed), match &o { Some(x) => format!("[\"{}\",{}]", x.k.to_hex64(), crate::trace::h(&x.c)), None => "null".into() }));
    o
}
fn master_raw(seed: &[u8]) -> Option<XKey> {
    let i = hmac_sha512(b"Bitcoin seed", seed);
    let k = U256::from_be(i[..32].try_into().unwrap());
    if k.is_zero() || k >= crate::secp::n() { return None; }
    Some(XKey { k, c: i[32..].try_into().unwrap() })
}
/// `index` is the full 32-bit value (>= 2^31 means hardened)
pub fn ckd(curve: &Curve, parent: &XKey, index: u32) -> Option<XKey> {
    let o = ckd_raw(curve, parent, index);
    crate::trace::rec("ckd", 1500, || (format!("[\"{}\",{},{}]", parent.k.to_hex64(), crate::trace::h(&parent.c), index), match &o { Some(x) => format!("[\"{}\",{}]", x.k.to_hex64(), crate::trace::h(&x.c)), None => "null".into() }));
    o
}
fn ckd_raw(curve: &Curve, parent: &XKey, index: u32) -> Option<XKey> {
    let mut data = Vec::with_capacity(37);
    if index >= 0x8000_0000 { data.push(0); data.extend_from_slice(&parent.k.to_be()); }
    else { data.extend_from_slice(&curve.compressed(&curve.mul_g(&parent.k).unwrap())); }
    data.extend_from_slice(&index.to_be_bytes());
    let i = hmac_sha512(&parent.c, &data);
    let il = U256::from_be(i[..32].try_into().unwrap());
    if il >= crate::secp::n() { return None; }
    let k = curve.fnn.add(&il, &parent.k);
    if k.is_zero() { return None; }
    Some(XKey { k, c: i[32..].try_into().unwrap() })
}
pub fn derive(curve: &Curve, seed: &[u8], path: &[u32]) -> Option<XKey> {
    let mut x = master(seed)?;
    for i in path { x = ckd(curve, &x, *i)?; }
    Some(x)
}

//! SHA-256 / SHA-512 (FIPS 180-4), HMAC (RFC 2104), PBKDF2 (RFC 8018), Keccak-256 (FIPS 202 permutation, 0x01 padding).
const K256: [u32; 64] = [
0x428a2f98,0x71374491,0xb5c0fbcf,0xe9b5dba5,0x3956c25b,0x59f111f1,0x923f82a4,0xab1c5ed5,0xd807aa98,0x12835b01,0x243185be,0x550c7dc3,0x72be5d74,0x80deb1fe,0x9bdc06a7,0xc19bf174,
0xe49b69c1,0xefbe4786,0x0fc19dc6,0x240ca1cc,0x2de92c6f,0x4a7484aa,0x5cb0a9dc,0x76f988da,0x983e5152,0xa831c66d,0xb00327c8,0xbf597fc7,0xc6e00bf3,0xd5a79147,0x06ca6351,0x14292967,
0x27b70a85,0x2e1b2138,0x4d2c6dfc,0x53380d13,0x650a7354,0x766a0abb,0x81c2c92e,0x92722c85,0xa2bfe8a1,0xa81a664b,0xc24b8b70,0xc76c51a3,0xd192e819,0xd6990624,0xf40e3585,0x106aa070,
0x19a4c116,0x1e376c08,0x2748774c,0x34b0bcb5,0x391c0cb3,0x4ed8aa4a,0x5b9cca4f,0x682e6ff3,0x748f82ee,0x78a5636f,0x84c87814,0x8cc70208,0x90befffa,0xa4506ceb,0xbef9a3f7,0xc67178f2];

pub fn sha256(msg: &[u8]) -> [u8; 32] { let o = sha256_raw(msg); crate::trace::rec("sha256", 300, || (crate::trace::h(msg), crate::trace::h(&o))); o }
fn sha256_raw(msg: &[u8]) -> [u8; 32] {
    let mut h: [u32; 8] = [0x6a09e667,0xbb67ae85,0x3c6ef372,0xa54ff53a,0x510e527f,0x9b05688c,0x1f83d9ab,0x5be0cd19];
    let mut m = msg.to_vec(); m.push(0x80);
    while m.len() % 64 != 56 { m.push(0); }
    m.extend_from_slice(&((msg.len() as u64) * 8).to_be_bytes());
    for chunk in m.chunks(64) {
        let mut w = [0u32; 64];
        for i in 0..16 { w[i] = u32::from_be_bytes(chunk[4 * i..4 * i + 4].try_into().unwrap()); }
        for i in 16..64 {
            let s0 = w[i - 15].rotate_right(7) ^ w[i - 15].rotate_right(18) ^ (w[i - 15] >> 3);
            let s1 = w[i - 2].rotate_right(17) ^ w[i - 2].rotate_right(19) ^ (w[i - 2] >> 10);
            w[i] = w[i - 16].wrapping_add(s0).wrapping_add(w[i - 7]).wrapping_add(s1);
        }
        let [mut a, mut b, mut c, mut d, mut e, mut f, mut g, mut hh] = h;
        for i in 0..64 {
            let s1 = e.rotate_right(6) ^ e.rotate_right(11) ^ e.rotate_right(25);
            let ch = (e & f) ^ (!e & g);
            let t1 = hh.wrapping_add(s1).wrapping_add(ch).wrapping_add(K256[i]).wrapping_add(w[i]);
            let s0 = a.rotate_right(2) ^ a.rotate_right(13) ^ a.rotate_right(22);
            let maj = (a & b) ^ (a & c) ^ (b & c);
            let t2 = s0.wrapping_add(maj);
            hh = g; g = f; f = e; e = d.wrapping_add(t1); d = c; c = b; b = a; a = t1.wrapping_add(t2);
        }
        for (x, y) in h.iter_mut().zip([a, b, c, d, e, f, g, hh]) { *x = x.wrapping_add(y); }
    }
    let mut out = [0u8; 32];
    for i in 0..8 { out[4 * i..4 * i + 4].copy_from_slice(&h[i].to_be_bytes()); }
    out
}

const K512: [u64; 80] = [
0x428a2f98d728ae22,0x7137449123ef65cd,0xb5c0fbcfec4d3b2f,0xe9b5dba58189dbbc,0x3956c25bf348b538,0x59f111f1b605d019,0x923f82a4af194f9b,0xab1c5ed5da6d8118,
0xd807aa98a3030242,0x12835b0145706fbe,0x243185be4ee4b28c,0x550c7dc3d5ffb4e2,0x72be5d74f27b896f,0x80deb1fe3b1696b1,0x9bdc06a725c71235,0xc19bf174cf692694,
0xe49b69c19ef14ad2,0xefbe4786384f25e3,0x0fc19dc68b8cd5b5,0x240ca1cc77ac9c65,0x2de92c6f592b0275,0x4a7484aa6ea6e483,0x5cb0a9dcbd41fbd4,0x76f988da831153b5,
0x983e5152ee66dfab,0xa831c66d2db43210,0xb00327c898fb213f,0xbf597fc7beef0ee4,0xc6e00bf33da88fc2,0xd5a79147930aa725,0x06ca6351e003826f,0x142929670a0e6e70,
0x27b70a8546d22ffc,0x2e1b21385c26c926,0x4d2c6dfc5ac42aed,0x53380d139d95b3df,0x650a73548baf63de,0x766a0abb3c77b2a8,0x81c2c92e47edaee6,0x92722c851482353b,
0xa2bfe8a14cf10364,0xa81a664bbc423001,0xc24b8b70d0f89791,0xc76c51a30654be30,0xd192e819d6ef5218,0xd69906245565a910,0xf40e35855771202a,0x106aa07032bbd1b8,
0x19a4c116b8d2d0c8,0x1e376c085141ab53,0x2748774cdf8eeb99,0x34b0bcb5e19b48a8,0x391c0cb3c5c95a63,0x4ed8aa4ae3418acb,0x5b9cca4f7763e373,0x682e6ff3d6b2b8a3,
0x748f82ee5defb2fc,0x78a5636f43172f60,0x84c87814a1f0ab72,0x8cc702081a6439ec,0x90befffa23631e28,0xa4506cebde82bde9,0xbef9a3f7b2c67915,0xc67178f2e372532b,
0xca273eceea26619c,0xd186b8c721c0c207,0xeada7dd6cde0eb1e,0xf57d4f7fee6ed178,0x06f067aa72176fba,0x0a637dc5a2c898a6,0x113f9804bef90dae,0x1b710b35131c471b,
0x28db77f523047d84,0x32caab7b40c72493,0x3c9ebe0a15c9bebc,0x431d67c49c100d4c,0x4cc5d4becb3e42b6,0x597f299cfc657e2a,0x5fcb6fab3ad6faec,0x6c44198c4a475817];

pub fn sha512(msg: &[u8]) -> [u8; 64] { let o = sha512_raw(msg); crate::trace::rec("sha512", 300, || (crate::trace::h(msg), crate::trace::h(&o))); o }
const H512: [u64; 8] = [0x6a09e667f3bcc908,0xbb67ae8584caa73b,0x3c6ef372fe94f82b,0xa54ff53a5f1d36f1,0x510e527fade682d1,0x9b05688c2b3e6c1f,0x1f83d9abfb41bd6b,0x5be0cd19137e2179];
fn sha512_compress(h: &mut [u64; 8], chunk: &[u8]) {
    let mut w = [0u64; 80];
    for i in 0..16 { w[i] = u64::from_be_bytes(chunk[8 * i..8 * i + 8].try_into().unwrap()); }
    for i in 16..80 {
        let s0 = w[i - 15].rotate_right(1) ^ w[i - 15].rotate_right(8) ^ (w[i - 15] >> 7);
        let s1 = w[i - 2].rotate_right(19) ^ w[i - 2].rotate_right(61) ^ (w[i - 2] >> 6);
        w[i] = w[i - 16].wrapping_add(s0).wrapping_add(w[i - 7]).wrapping_add(s1);
    }
    let [mut a, mut b, mut c, mut d, mut e, mut f, mut g, mut hh] = *h;
    for i in 0..80 {
        let s1 = e.rotate_right(14) ^ e.rotate_right(18) ^ e.rotate_right(41);
        let ch = (e & f) ^ (!e & g);
        let t1 = hh.wrapping_add(s1).wrapping_add(ch).wrapping_add(K512[i]).wrapping_add(w[i]);
        let s0 = a.rotate_right(28) ^ a.rotate_right(34) ^ a.rotate_right(39);
        let maj = (a & b) ^ (a & c) ^ (b & c);
        let t2 = s0.wrapping_add(maj);
        hh = g; g = f; f = e; e = d.wrapping_add(t1); d = c; c = b; b = a; a = t1.wrapping_add(t2);
    }
    for (x, y) in h.iter_mut().zip([a, b, c, d, e, f, g, hh]) { *x = x.wrapping_add(y); }
}
/// finishes a SHA-512 computation whose state `h` has absorbed `absorbed` bytes (a multiple of 128) and is followed by `tail`
fn sha512_finish(mut h: [u64; 8], absorbed: usize, tail: &[u8]) -> [u8; 64] {
    let mut m = tail.to_vec(); m.push(0x80);
    while m.len() % 128 != 112 { m.push(0); }
    m.extend_from_slice(&(((absorbed + tail.len()) as u128) * 8).to_be_bytes());
    for chunk in m.chunks(128) { sha512_compress(&mut h, chunk); }
    let mut out = [0u8; 64];
    for i in 0..8 { out[8 * i..8 * i + 8].copy_from_slice(&h[i].to_be_bytes()); }
    out
}
fn sha512_raw(msg: &[u8]) -> [u8; 64] {
    let mut h = H512; let full = msg.len() / 128 * 128;
    for chunk in msg[..full].chunks(128) { sha512_compress(&mut h, chunk); }
    sha512_finish(h, full, &msg[full..])
}

fn hmac_generic(block: usize, hash: &dyn Fn(&[u8]) -> Vec<u8>, key: &[u8], msg: &[u8]) -> Vec<u8> {
    let mut k = if key.len() > block { hash(key) } else { key.to_vec() };
    k.resize(block, 0);
    let mut inner: Vec<u8> = k.iter().map(|b| b ^ 0x36).collect(); inner.extend_from_slice(msg);
    let ih = hash(&inner);
    let mut outer: Vec<u8> = k.iter().map(|b| b ^ 0x5c).collect(); outer.extend_from_slice(&ih);
    hash(&outer)
}
pub fn hmac_sha256(key: &[u8], msg: &[u8]) -> [u8; 32] { let o: [u8; 32] = hmac_generic(64, &|m| sha256_raw(m).to_vec(), key, msg).try_into().unwrap(); crate::trace::rec("hmac_sha256", 300, || (format!("[{},{}]", crate::trace::h(key), crate::trace::h(msg)), crate::trace::h(&o))); o }
pub fn hmac_sha512(key: &[u8], msg: &[u8]) -> [u8; 64] { let o: [u8; 64] = hmac_generic(128, &|m| sha512_raw(m).to_vec(), key, msg).try_into().unwrap(); crate::trace::rec("hmac_sha512", 300, || (format!("[{},{}]", crate::trace::h(key), crate::trace::h(msg)), crate::trace::h(&o))); o }

/// PBKDF2-HMAC-SHA512, single 64-byte block (dkLen = 64). The HMAC inner and outer pad blocks are absorbed once
/// (RFC 2104 allows exactly this precomputation); the first iteration is cross-checked against the plain HMAC.
pub fn pbkdf2_sha512_64(password: &[u8], salt: &[u8], rounds: u32) -> [u8; 64] {
    let mut k = if password.len() > 128 { sha512_raw(password).to_vec() } else { password.to_vec() }; k.resize(128, 0);
    let (mut hi, mut ho) = (H512, H512);
    sha512_compress(&mut hi, &k.iter().map(|b| b ^ 0x36).collect::<Vec<u8>>()); sha512_compress(&mut ho, &k.iter().map(|b| b ^ 0x5c).collect::<Vec<u8>>());
    let prf = |msg: &[u8]| -> [u8; 64] { let inner = sha512_finish(hi, 128, msg); sha512_finish(ho, 128, &inner) };
    let mut s = salt.to_vec(); s.extend_from_slice(&1u32.to_be_bytes());
    let mut u = prf(&s); assert_eq!(u, hmac_sha512(password, &s), "pad-state HMAC disagrees with plain HMAC");
    let mut t = u;
    for _ in 1..rounds { u = prf(&u); for i in 0..64 { t[i] ^= u[i]; } }
    t
}

const RC: [u64; 24] = [0x0000000000000001,0x0000000000008082,0x800000000000808a,0x8000000080008000,0x000000000000808b,0x0000000080000001,0x8000000080008081,0x8000000000008009,
0x000000000000008a,0x0000000000000088,0x0000000080008009,0x000000008000000a,0x000000008000808b,0x800000000000008b,0x8000000000008089,0x8000000000008003,
0x8000000000008002,0x8000000000000080,0x000000000000800a,0x800000008000000a,0x8000000080008081,0x8000000000008080,0x0000000080000001,0x8000000080008008];
const ROTC: [u32; 24] = [1,3,6,10,15,21,28,36,45,55,2,14,27,41,56,8,25,43,62,18,39,61,20,44];
const PILN: [usize; 24] = [10,7,11,17,18,3,5,16,8,21,24,4,15,23,19,13,12,2,20,14,22,9,6,1];
fn keccak_f(st: &mut [u64; 25]) {
    for round in 0..24 {
        let mut bc = [0u64; 5];
        for i in 0..5 { bc[i] = st[i] ^ st[i + 5] ^ st[i + 10] ^ st[i + 15] ^ st[i + 20]; }
        for i in 0..5 { let t = bc[(i + 4) % 5] ^ bc[(i + 1) % 5].rotate_left(1); for j in (0..25).step_by(5) { st[j + i] ^= t; } }
        let mut t = st[1];
        for i in 0..24 { let j = PILN[i]; let b = st[j]; st[j] = t.rotate_left(ROTC[i]); t = b; }
        for j in (0..25).step_by(5) { let row = [st[j], st[j + 1], st[j + 2], st[j + 3], st[j + 4]]; for i in 0..5 { st[j + i] = row[i] ^ (!row[(i + 1) % 5] & row[(i + 2) % 5]); } }
        st[0] ^= RC[round];
    }
}
pub fn keccak256(msg: &[u8]) -> [u8; 32] { let o = keccak256_raw(msg); crate::trace::rec("keccak256", 600, || (crate::trace::h(msg), crate::trace::h(&o))); o }
fn keccak256_raw(msg: &[u8]) -> [u8; 32] {
    const RATE: usize = 136;
    let mut st = [0u64; 25];
    let mut m = msg.to_vec(); m.push(0x01);
    while m.len() % RATE != 0 { m.push(0); }
    let l = m.len(); m[l - 1] |= 0x80;
    for block in m.chunks(RATE) {
        for i in 0..RATE / 8 { st[i] ^= u64::from_le_bytes(block[8 * i..8 * i + 8].try_into().unwrap()); }
        keccak_f(&mut st);
    }
    let mut out = [0u8; 32];
    for i in 0..4 { out[8 * i..8 * i + 8].copy_from_slice(&st[i].to_le_bytes()); }
    out
}

//! Ethereum transaction payloads: legacy / EIP-155, EIP-2930, EIP-1559.
use crate::hash::keccak256;
use crate::nat::Nat;
use crate::rlp::{self, Item};

#[derive(Clone, Copy, Debug, PartialEq, Eq, Hash)]
pub enum Kind { Legacy, Eip2930, Eip1559 }

#[derive(Clone, Debug, PartialEq, Eq)]
pub struct Tx {
    pub kind: Kind,
    pub chain_id: Option<Nat>, // None only for legacy
    pub nonce: Nat,
    pub gas_price: Nat,        // legacy, 2930
    pub max_priority: Nat,     // 1559
    pub max_fee: Nat,          // 1559
    pub gas: Nat,
    pub to: Option<[u8; 20]>,
    pub value: Nat,
    pub data: Vec<u8>,
    pub access_list: Vec<([u8; 20], Vec<[u8; 32]>)>,
}
impl Tx {
    fn access_item(&self) -> Item {
        Item::List(self.access_list.iter().map(|(a, slots)| Item::List(vec![Item::Bytes(a.to_vec()), Item::List(slots.iter().map(|s| Item::Bytes(s.to_vec())).collect())])).collect())
    }
    fn to_item(&self) -> Item { Item::Bytes(self.to.map_or(vec![], |a| a.to_vec())) }
    pub fn base_fields(&self) -> Vec<Item> {
        let u = rlp::uint;
        match self.kind {
            Kind::Legacy => vec![u(&self.nonce), u(&self.gas_price), u(&self.gas), self.to_item(), u(&self.value), Item::Bytes(self.data.clone())],
            Kind::Eip2930 => vec![u(self.chain_id.as_ref().unwrap()), u(&self.nonce), u(&self.gas_price), u(&self.gas), self.to_item(), u(&self.value), Item::Bytes(self.data.clone()), self.access_item()],
            Kind::Eip1559 => vec![u(self.chain_id.as_ref().unwrap()), u(&self.nonce), u(&self.max_priority), u(&self.max_fee), u(&self.gas), self.to_item(), u(&self.value), Item::Bytes(self.data.clone()), self.access_item()],
        }
    }
    fn wrap(&self, fields: Vec<Item>) -> Vec<u8> {
        let body = rlp::encode(&Item::List(fields));
        match self.kind { Kind::Legacy => body, Kind::Eip2930 => [vec![1u8], body].concat(), Kind::Eip1559 => [vec![2u8], body].concat() }
    }
    /// canonical description for the cross-validation trace
    pub fn describe(&self) -> String {
        let n = |x: &Nat| format!("\"{}\"", x.to_dec());
        format!("{{\"kind\":{},\"chainId\":{},\"nonce\":{},\"gasPrice\":{},\"maxPriorityFeePerGas\":{},\"maxFeePerGas\":{},\"gas\":{},\"to\":{},\"value\":{},\"data\":{},\"accessList\":[{}]}}", match self.kind { Kind::Legacy => 0, Kind::Eip2930 => 1, Kind::Eip1559 => 2 }, self.chain_id.as_ref().map_or("null".to_string(), n), n(&self.nonce), n(&self.gas_price), n(&self.max_priority), n(&self.max_fee), n(&self.gas),
            self.to.map_or("null".to_string(), |a| crate::trace::h(&a)), n(&self.value), crate::trace::h(&self.data), self.access_list.iter().map(|(a, s)| format!("[{},[{}]]", crate::trace::h(a), s.iter().map(|k| crate::trace::h(k)).collect::<Vec<_>>().join(","))).collect::<Vec<_>>().join(","))
    }
    pub fn unsigned_payload(&self) -> Vec<u8> {
        let o = self.unsigned_payload_raw();
        if o.len() <= 3000 { crate::trace::rec("tx_unsigned", 1500, || (self.describe(), crate::trace::h(&o))); }
        o
    }
    fn unsigned_payload_raw(&self) -> Vec<u8> {
        let mut f = self.base_fields();
        if self.kind == Kind::Legacy { if let Some(c) = &self.chain_id { f.push(rlp::uint(c)); f.push(rlp::uint(&Nat::zero())); f.push(rlp::uint(&Nat::zero())); } }
        self.wrap(f)
    }
    pub fn signing_hash(&self) -> [u8; 32] { keccak256(&self.unsigned_payload()) }
    /// v as an exact integer: 27+parity, 35+2c+parity, or parity for typed kinds
    pub fn v(&self, odd: bool) -> Nat {
        let par = Nat::from_u64(odd as u64);
        match (self.kind, &self.chain_id) {
            (Kind::Legacy, None) => Nat::from_u64(27).add(&par),
            (Kind::Legacy, Some(c)) => Nat::from_u64(35).add(&c.add(c)).add(&par),
            _ => par,
        }
    }
    pub fn signed_payload(&self, odd: bool, r: &Nat, s: &Nat) -> Vec<u8> {
        let o = self.signed_payload_raw(odd, r, s);
        if o.len() <= 3000 { crate::trace::rec("tx_signed", 1500, || (format!("[{},{},\"{}\",\"{}\"]", self.describe(), odd, r.to_dec(), s.to_dec()), crate::trace::h(&o))); }
        o
    }
    fn signed_payload_raw(&self, odd: bool, r: &Nat, s: &Nat) -> Vec<u8> {
        let mut f = self.base_fields();
        f.push(rlp::uint(&self.v(odd))); f.push(rlp::uint(r)); f.push(rlp::uint(s));
        self.wrap(f)
    }
}

//! BIP-39 on explicit bit strings, with an own copy of the English list.
use crate::hash::{pbkdf2_sha512_64, sha256};

pub const ENGLISH: &str = include_str!("english.txt");
/// SHA-256 of the canonical BIP-39 english.txt (2048 lines, LF terminated)
pub const ENGLISH_SHA256: &str = "2f5eed53a4727b4bf8880d8f3f199efc90e58503646d9ff8eff3a2ed3b24dbda";

pub fn words() -> &'static Vec<&'static str> {
    static W: std::sync::OnceLock<Vec<&'static str>> = std::sync::OnceLock::new();
    W.get_or_init(|| ENGLISH.lines().collect())
}
pub fn word_index(w: &str) -> Option<usize> {
    static M: std::sync::OnceLock<std::collections::HashMap<&'static str, usize>> = std::sync::OnceLock::new();
    M.get_or_init(|| words().iter().enumerate().map(|(i, w)| (*w, i)).collect()).get(w).copied()
}
pub const VALID_COUNTS: [usize; 5] = [12, 15, 18, 21, 24];
pub fn entropy_len_for_words(n: usize) -> Option<usize> { if VALID_COUNTS.contains(&n) { Some(n * 4 / 3) } else { None } }

fn bits_of(bytes: &[u8]) -> Vec<bool> { bytes.iter().flat_map(|b| (0..8).rev().map(move |i| (b >> i) & 1 == 1)).collect() }

/// entropy (16/20/24/28/32 bytes) -> word indices
pub fn entropy_to_indices(ent: &[u8]) -> Vec<usize> {
    assert!(ent.len() % 4 == 0 && (16..=32).contains(&ent.len()));
    let cs = ent.len() * 8 / 32;
    let mut bits = bits_of(ent);
    bits.extend(bits_of(&sha256(ent)).into_iter().take(cs));
    bits.chunks(11).map(|c| c.iter().fold(0usize, |a, b| (a << 1) | *b as usize)).collect()
}
pub fn indices_to_phrase(idx: &[usize]) -> String { idx.iter().map(|i| words()[*i]).collect::<Vec<_>>().join(" ") }
pub fn entropy_to_phrase(ent: &[u8]) -> String { let o = indices_to_phrase(&entropy_to_indices(ent)); crate::trace::rec("entropy_to_phrase", 500, || (crate::trace::h(ent), crate::trace::q(&o))); o }

#[derive(Debug, Clone, PartialEq, Eq)]
pub enum Reject { WordCount(usize), UnknownWord(String), Checksum }

/// word tokens -> entropy, by the letter of BIP-39
pub fn tokens_to_entropy(tokens: &[&str]) -> Result<Vec<u8>, Reject> {
    let o = tokens_to_entropy_raw(tokens);
    crate::trace::rec("tokens_to_entropy", 3000, || (crate::trace::q(&tokens.join(" ")), match &o { Ok(e) => crate::trace::h(e), Err(Reject::WordCount(_)) => "\"reject:count\"".into(), Err(Reject::UnknownWord(_)) => "\"reject:word\"".into(), Err(Reject::Checksum) => "\"reject:checksum\"".into() }));
    o
}
fn tokens_to_entropy_raw(tokens: &[&str]) -> Result<Vec<u8>, Reject> {
    let n = tokens.len();
    if entropy_len_for_words(n).is_none() { return Err(Reject::WordCount(n)); }
    let mut bits = Vec::with_capacity(n * 11);
    for t in tokens {
        let i = word_index(t).ok_or_else(|| Reject::UnknownWord(t.to_string()))?;
        for b in (0..11).rev() { bits.push((i >> b) & 1 == 1); }
    }
    let ent_bits = n * 11 * 32 / 33; let cs = n * 11 - ent_bits;
    let ent: Vec<u8> = bits[..ent_bits].chunks(8).map(|c| c.iter().fold(0u8, |a, b| (a << 1) | *b as u8)).collect();
    let want = bits_of(&sha256(&ent));
    if bits[ent_bits..] != want[..cs] { return Err(Reject::Checksum); }
    Ok(ent)
}
/// last word index whose free (entropy) bits are `free` and whose checksum bits are right
pub fn complete_last(first: &[usize], free: usize) -> usize {
    let n = first.len() + 1; let ent_bits = n * 11 * 32 / 33; let cs = n * 11 - ent_bits; let fb = 11 - cs; let free = free & ((1 << fb) - 1);
    let mut bits = Vec::with_capacity(ent_bits);
    for i in first { for b in (0..11).rev() { bits.push((i >> b) & 1 == 1); } }
    for b in (0..fb).rev() { bits.push((free >> b) & 1 == 1); }
    let ent: Vec<u8> = bits.chunks(8).map(|c| c.iter().fold(0u8, |a, b| (a << 1) | *b as u8)).collect();
    let h = sha256(&ent);
    (free << cs) | (h[0] >> (8 - cs)) as usize
}
/// For a phrase of valid-list words with a valid count: the last-word indices that make the checksum right.
pub fn valid_last_words(first: &[usize]) -> Vec<usize> {
    let n = first.len() + 1; let ent_bits = n * 11 * 32 / 33; let cs = n * 11 - ent_bits; let free = 11 - cs;
    let mut out = Vec::new();
    for hi in 0..(1usize << free) {
        let mut bits = Vec::new();
        for i in first { for b in (0..11).rev() { bits.push((i >> b) & 1 == 1); } }
        for b in (0..free).rev() { bits.push((hi >> b) & 1 == 1); }
        let ent: Vec<u8> = bits.chunks(8).map(|c| c.iter().fold(0u8, |a, b| (a << 1) | *b as u8)).collect();
        let h = bits_of(&sha256(&ent));
        let csv = h[..cs].iter().fold(0usize, |a, b| (a << 1) | *b as usize);
        out.push((hi << cs) | csv);
    }
    out
}
/// seed = PBKDF2-HMAC-SHA512(canonical phrase, "mnemonic" + NFKD(passphrase)), 2048 rounds; caller supplies the NFKD form
pub fn seed(canonical_phrase: &str, nfkd_passphrase: &str) -> [u8; 64] {
    let salt = format!("mnemonic{}", nfkd_passphrase);
    let o = pbkdf2_sha512_64(canonical_phrase.as_bytes(), salt.as_bytes(), 2048);
    crate::trace::rec("bip39_seed", 150, || (format!("[{},{}]", crate::trace::q(canonical_phrase), crate::trace::q(nfkd_passphrase)), crate::trace::h(&o)));
    o
}

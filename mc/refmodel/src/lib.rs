//! Specification-level reference model for hdwallet, written from the standards.
pub mod nat;
pub mod hash;
pub mod secp;
pub mod bip39;
pub mod bip32;
pub mod eth;
pub mod rlp;
pub mod tx;
pub mod json;
pub mod eip712;
pub mod grammar;
pub mod nfkd;
pub mod selftest;
pub mod trace;
pub mod txjson;

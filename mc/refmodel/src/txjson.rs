//! JSON documents for reference transactions, with a choice of spelling per numeric field.
use crate::eth::hex;
use crate::json::J;
use crate::nat::Nat;
use crate::tx::{Kind, Tx};

#[derive(Clone, Copy, Debug, PartialEq, Eq)]
pub enum Spell { Auto, JsonInt, Dec, Hex, HexUpper, Float,
    /// a bare JSON integer literal whenever the value is below 2^64 (exactly representable or not), else a hex string
    JsonIntIfU64,
    /// `<n>.0` whenever the value is below 2^53 (the MUST-ACCEPT float range), else a decimal string
    FloatIfExact }

pub fn num(n: &Nat, sp: Spell) -> J {
    match sp {
        Spell::Auto => if *n < Nat::pow2(53) { J::Num(n.to_dec()) } else { J::Str(format!("0x{}", n.to_hex())) },
        Spell::JsonInt => J::Num(n.to_dec()),
        Spell::Dec => J::Str(n.to_dec()),
        Spell::Hex => J::Str(format!("0x{}", n.to_hex())),
        Spell::HexUpper => J::Str(format!("0x{}", n.to_hex().to_uppercase())),
        Spell::Float => J::Num(format!("{}.0", n.to_dec())),
        Spell::JsonIntIfU64 => if *n < Nat::pow2(64) { J::Num(n.to_dec()) } else { J::Str(format!("0x{}", n.to_hex())) },
        Spell::FloatIfExact => if *n < Nat::pow2(53) { J::Num(format!("{}.0", n.to_dec())) } else { J::Str(n.to_dec()) },
    }
}
pub fn addr(a: &[u8; 20]) -> J { J::Str(format!("0x{}", hex(a))) }
pub fn access_list(al: &[([u8; 20], Vec<[u8; 32]>)]) -> J {
    J::Arr(al.iter().map(|(a, slots)| J::Arr(vec![addr(a), J::Arr(slots.iter().map(|s| J::Str(format!("0x{}", hex(s)))).collect())])).collect())
}
/// fields in a fixed key order; `to` absent when None
pub fn tx_fields(tx: &Tx, sp: Spell) -> Vec<(String, J)> {
    let mut f: Vec<(String, J)> = Vec::new();
    if let Some(c) = &tx.chain_id { f.push(("chainId".into(), num(c, sp))); }
    f.push(("nonce".into(), num(&tx.nonce, sp)));
    match tx.kind {
        Kind::Eip1559 => { f.push(("maxPriorityFeePerGas".into(), num(&tx.max_priority, sp))); f.push(("maxFeePerGas".into(), num(&tx.max_fee, sp))); }
        _ => f.push(("gasPrice".into(), num(&tx.gas_price, sp))),
    }
    f.push(("gas".into(), num(&tx.gas, sp)));
    if let Some(a) = &tx.to { f.push(("to".into(), addr(a))); }
    f.push(("value".into(), num(&tx.value, sp)));
    f.push(("data".into(), J::Str(format!("0x{}", hex(&tx.data)))));
    if tx.kind == Kind::Eip2930 || (tx.kind == Kind::Eip1559 && !tx.access_list.is_empty()) { f.push(("accessList".into(), access_list(&tx.access_list))); }
    f
}
pub fn tx_json(tx: &Tx, sp: Spell) -> J { J::Obj(tx_fields(tx, sp)) }
pub fn set(fields: &mut Vec<(String, J)>, key: &str, v: Option<J>) {
    fields.retain(|(k, _)| k != key);
    if let Some(v) = v { fields.push((key.to_string(), v)); }
}
/// a template with pairwise distinct small field values, so that swapped fields are visible
pub fn template(kind: Kind, with_chain: bool) -> Tx {
    let n = |v: u64| Nat::from_u64(v);
    Tx { kind, chain_id: if with_chain || kind != Kind::Legacy { Some(n(5)) } else { None }, nonce: n(1), gas_price: n(2), max_priority: n(6), max_fee: n(7), gas: n(3),
        to: Some([0xa1, 0xa2, 0xa3, 0xa4, 0xa5, 0xa6, 0xa7, 0xa8, 0xa9, 0xaa, 0xab, 0xac, 0xad, 0xae, 0xaf, 0xb0, 0xb1, 0xb2, 0xb3, 0xb4]), value: n(4), data: vec![], access_list: vec![] }
}

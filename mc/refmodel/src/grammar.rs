//! Textual grammars stated by the properties: HD paths, signatures, hex text, vanity prefixes.
use crate::json::Class;
use crate::secp::{half_n, n, U256};

pub const HARD: u32 = 0x8000_0000;

/// one path component -> full 32-bit index
pub fn classify_component(c: &str) -> Class<u32> {
    // blanks around a component are an exotic but unambiguous spelling (also around a hardened marker)
    let ct = c.trim_matches(|x: char| matches!(x, ' ' | '\t' | '\n' | '\r' | '\u{b}' | '\u{c}'));
    if ct.len() != c.len() { return match classify_component_trimmed(ct) { Class::Accept(v) | Class::Unc(v) => Class::Unc(v), Class::Reject => Class::Reject }; }
    classify_component_trimmed(c)
}
fn classify_component_trimmed(c: &str) -> Class<u32> {
    let (body, hard, exotic_mark) = if let Some(b) = c.strip_suffix('\'') { (b, true, false) }
        else if let Some(b) = c.strip_suffix('h').or_else(|| c.strip_suffix('H')) { (b, true, true) } else { (c, false, false) };
    let strict = !body.is_empty() && body.bytes().all(|b| b.is_ascii_digit()) && (body == "0" || !body.starts_with('0'));
    let val: Option<u128> = if strict { if body.len() > 30 { Some(u128::MAX) } else { body.parse::<u128>().ok() } } else { None };
    let mk = |v: u128| -> Class<u32> { if v < HARD as u128 { Class::Accept(v as u32 | if hard { HARD } else { 0 }) } else { Class::Reject } };
    match val {
        Some(v) if !exotic_mark => mk(v),
        Some(v) => mk(v).and_then(Class::Unc),
        None => {
            // exotic but unambiguous spellings: sign '+', leading zeros, surrounding blanks, 0x hex
            let t = body.trim(); let t = t.strip_prefix('+').unwrap_or(t);
            let v = if let Some(h) = t.strip_prefix("0x") { u128::from_str_radix(h, 16).ok() } else if !t.is_empty() && t.bytes().all(|b| b.is_ascii_digit()) { let z = t.trim_start_matches('0'); if z.len() > 30 { Some(u128::MAX) } else if z.is_empty() { Some(0) } else { z.parse::<u128>().ok() } } else { None };
            match v { Some(v) => mk(v).and_then(Class::Unc), None => Class::Reject }
        }
    }
}
/// whole path text -> full indices
pub fn classify_path(s: &str) -> Class<Vec<u32>> {
    let o = classify_path_raw(s);
    crate::trace::rec("classify_path", 10000, || (crate::trace::q(s), match &o { Class::Reject => "\"reject\"".into(), Class::Accept(v) | Class::Unc(v) => format!("[\"{}\",[{}]]", o.name(), v.iter().map(|x| x.to_string()).collect::<Vec<_>>().join(",")) }));
    o
}
fn classify_path_raw(s: &str) -> Class<Vec<u32>> {
    let (rest, root_exotic) = if let Some(r) = s.strip_prefix("m/") { (r, false) }
        else if s == "m" { return Class::Unc(vec![]); }
        else if let Some(r) = s.strip_prefix("M/").or_else(|| s.strip_prefix(" m/")) { (r, true) }
        else { return Class::Reject; };
    let mut out = Vec::new(); let mut unc = root_exotic;
    for c in rest.split('/') {
        match classify_component(c) { Class::Accept(v) => out.push(v), Class::Unc(v) => { unc = true; out.push(v) } Class::Reject => return Class::Reject }
    }
    if unc { Class::Unc(out) } else { Class::Accept(out) }
}
pub fn path_text(p: &[u32]) -> String {
    let mut s = String::from("m");
    for i in p { s += &format!("/{}{}", i & !HARD, if i & HARD != 0 { "'" } else { "" }); }
    s
}

/// textual signature -> (r, s, y_parity)
pub fn classify_signature(t: &str) -> Class<(U256, U256, bool)> {
    let o = classify_signature_raw(t);
    crate::trace::rec("classify_signature", 4000, || (crate::trace::q(t), match &o { Class::Reject => "\"reject\"".into(), Class::Accept(v) | Class::Unc(v) => format!("[\"{}\",\"{}\",\"{}\",{}]", o.name(), v.0.to_hex64(), v.1.to_hex64(), v.2) }));
    o
}
fn classify_signature_raw(t: &str) -> Class<(U256, U256, bool)> {
    let body = t.strip_prefix("0x").unwrap_or(t);
    if body.len() != 130 || !body.bytes().all(|b| b.is_ascii_hexdigit()) { return Class::Reject; }
    let upper = body.bytes().any(|b| b.is_ascii_uppercase());
    let bytes = crate::eth::unhex(body).unwrap();
    let r = U256::from_be(bytes[..32].try_into().unwrap()); let s = U256::from_be(bytes[32..64].try_into().unwrap());
    let odd = match bytes[64] { 27 => false, 28 => true, _ => return Class::Reject };
    if r.is_zero() || s.is_zero() || r >= n() || s >= n() { return Class::Reject; }
    if upper || s > half_n() { Class::Unc((r, s, odd)) } else { Class::Accept((r, s, odd)) }
}

fn is_ascii_layout_ws(c: char) -> bool { matches!(c, ' ' | '\t' | '\n' | '\r') }
/// `hex decode` input -> bytes (whitespace anywhere, either digit case, optional 0x)
pub fn classify_hex_text(t: &str) -> Class<Vec<u8>> {
    let o = classify_hex_text_raw(t);
    if t.len() <= 400 { crate::trace::rec("classify_hex_text", 2500, || (crate::trace::q(t), match &o { Class::Reject => "\"reject\"".into(), Class::Accept(v) | Class::Unc(v) => format!("[\"{}\",{}]", o.name(), crate::trace::h(v)) })); }
    o
}
fn classify_hex_text_raw(t: &str) -> Class<Vec<u8>> {
    let mut unc = t.chars().any(|c| c.is_whitespace() && !is_ascii_layout_ws(c));
    let stripped: String = t.chars().filter(|c| !c.is_whitespace()).collect();
    let body = if let Some(b) = stripped.strip_prefix("0x") { b } else if let Some(b) = stripped.strip_prefix("0X") { unc = true; b } else { &stripped };
    match crate::eth::unhex(body) { None => Class::Reject, Some(v) => if unc { Class::Unc(v) } else { Class::Accept(v) } }
}
/// vanity prefix -> nibbles
pub fn classify_prefix(t: &str) -> Class<Vec<u8>> {
    let body = match t.strip_prefix("0x") { Some(b) => b, None => return Class::Reject };
    if !body.bytes().all(|b| b.is_ascii_hexdigit()) { return Class::Reject; }
    let nib: Vec<u8> = body.chars().map(|c| c.to_digit(16).unwrap() as u8).collect();
    if nib.is_empty() { Class::Unc(nib) } else { Class::Accept(nib) }
}
pub fn address_has_prefix(addr: &[u8; 20], nibbles: &[u8]) -> bool {
    nibbles.len() <= 40 && nibbles.iter().enumerate().all(|(i, nb)| (if i % 2 == 0 { addr[i / 2] >> 4 } else { addr[i / 2] & 0xf }) == *nb)
}

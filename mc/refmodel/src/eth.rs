//! Ethereum conventions: address, EIP-55, EIP-191, hex helpers.
use crate::hash::keccak256;
use crate::secp::{Curve, U256};

pub fn hex(b: &[u8]) -> String { b.iter().map(|x| format!("{:02x}", x)).collect() }
pub fn unhex(s: &str) -> Option<Vec<u8>> {
    if s.len() % 2 != 0 || !s.bytes().all(|b| b.is_ascii_hexdigit()) { return None; }
    Some((0..s.len() / 2).map(|i| u8::from_str_radix(&s[2 * i..2 * i + 2], 16).unwrap()).collect())
}
pub fn address_of_point(pt: &(U256, U256)) -> [u8; 20] {
    let mut xy = pt.0.to_be().to_vec(); xy.extend_from_slice(&pt.1.to_be());
    keccak256(&xy)[12..].try_into().unwrap()
}
pub fn address_of_secret(curve: &Curve, d: &U256) -> [u8; 20] { address_of_point(&curve.mul_g(d).unwrap()) }
pub fn eip55(addr: &[u8; 20]) -> String { let o = eip55_raw(addr); crate::trace::rec("eip55", 300, || (crate::trace::h(addr), crate::trace::q(&o))); o }
fn eip55_raw(addr: &[u8; 20]) -> String {
    let lower = hex(addr); let h = keccak256(lower.as_bytes());
    let mut out = String::from("0x");
    for (i, ch) in lower.chars().enumerate() {
        let nib = if i % 2 == 0 { h[i / 2] >> 4 } else { h[i / 2] & 0xf };
        out.push(if ch.is_ascii_alphabetic() && nib >= 8 { ch.to_ascii_uppercase() } else { ch });
    }
    out
}
pub fn eip191_digest(msg: &[u8]) -> [u8; 32] { let o = eip191_raw(msg); if msg.len() <= 2000 { crate::trace::rec("eip191", 400, || (crate::trace::h(msg), crate::trace::h(&o))); } o }
fn eip191_raw(msg: &[u8]) -> [u8; 32] {
    let mut m = b"\x19Ethereum Signed Message:\n".to_vec();
    m.extend_from_slice(msg.len().to_string().as_bytes()); m.extend_from_slice(msg);
    keccak256(&m)
}
/// textual signature: 0x r(64) s(64) v(2) with v = 27 + parity
pub fn sig_text(r: &U256, s: &U256, odd: bool) -> String { format!("0x{}{}{:02x}", r.to_hex64(), s.to_hex64(), 27 + odd as u8) }

use refmodel::eip712::*;
use refmodel::json::J;
#[test]
fn lenient() {
    println!("{:?}", lenient_canonical("uint08"));
    println!("{:?}", lenient_canonical("uint8[01]"));
    println!("{:?}", lenient_canonical("uint08[01]"));
    let sv = |v: Vec<(&str, &str)>| v.into_iter().map(|(a, b)| (a.to_string(), b.to_string())).collect::<Vec<_>>();
    let doc = Doc { types: vec![("EIP712Domain".into(), sv(vec![("name", "string")])), ("Msg".into(), sv(vec![("x", "uint08")]))], primary: "Msg".into(), domain: J::obj(vec![("name", J::s("n"))]), message: J::obj(vec![("x", J::n("1"))]) };
    println!("{:?}", evaluate(&doc));
}

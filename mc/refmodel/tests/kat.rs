#[test]
fn known_answers() { let n = refmodel::selftest::run().unwrap(); assert!(n > 60); }

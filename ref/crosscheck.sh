#!/bin/sh
# Cross-validates the Rust reference model against the independent Python reference: records (function, input, output)
# triples of the reference while the union sweep (C17, library layer) runs, then recomputes every triple in Python.
set -e
V=$(cd "$(dirname "$0")/.." && pwd)
mkdir -p "$V/target/scratch"
T="$V/target/scratch/ref-trace.jsonl"
rm -f "$T"
VERIF_REF_TRACE="$T" VERIF_PART="$V/target/scratch/ref-trace.part.json" VERIF_TIER=quick "$V/target/release/hdw-mc" C17 >/dev/null 2>&1 || true
test -s "$T" || { echo "ENGINE-ERROR no reference trace was produced"; exit 2; }
python3 "$V/ref/pyref.py" "$T"

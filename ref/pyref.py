#!/usr/bin/env python3
"""Second, independent reference for hdwallet's standards, on Python's hashlib / hmac / unicodedata / big integers.

Usage: pyref.py <trace.jsonl>
Every line of the trace is a (function, input, output) triple recorded from the Rust reference model
(mc/refmodel, VERIF_REF_TRACE); each is recomputed here from the standards and compared. A disagreement means
one of the two references is wrong: the framework refuses to give verdicts (ENGINE-ERROR) until it is resolved.
"""
import hashlib, hmac, json, re, sys, unicodedata
from decimal import Decimal
from fractions import Fraction

# ---------------------------------------------------------------- Keccak-256 (FIPS 202 permutation, pad 0x01)
RC = [0x0000000000000001, 0x0000000000008082, 0x800000000000808A, 0x8000000080008000, 0x000000000000808B, 0x0000000080000001, 0x8000000080008081, 0x8000000000008009, 0x000000000000008A, 0x0000000000000088, 0x0000000080008009, 0x000000008000000A,
      0x000000008000808B, 0x800000000000008B, 0x8000000000008089, 0x8000000000008003, 0x8000000000008002, 0x8000000000000080, 0x000000000000800A, 0x800000008000000A, 0x8000000080008081, 0x8000000000008080, 0x0000000080000001, 0x8000000080008008]
M64 = (1 << 64) - 1
def rol(x, n): n %= 64; return ((x << n) | (x >> (64 - n))) & M64 if n else x
# rho offsets by the standard's (t+1)(t+2)/2 rule, lanes indexed x + 5*y
ROT = [0] * 25
_x, _y = 1, 0
for _t in range(24): ROT[_x + 5 * _y] = ((_t + 1) * (_t + 2) // 2) % 64; _x, _y = _y, (2 * _x + 3 * _y) % 5
def keccak_f(A):
    for rnd in range(24):
        C = [A[x] ^ A[x + 5] ^ A[x + 10] ^ A[x + 15] ^ A[x + 20] for x in range(5)]
        D = [C[(x - 1) % 5] ^ rol(C[(x + 1) % 5], 1) for x in range(5)]
        A = [A[i] ^ D[i % 5] for i in range(25)]
        B = [0] * 25
        for x in range(5):
            for y in range(5): B[y + 5 * ((2 * x + 3 * y) % 5)] = rol(A[x + 5 * y], ROT[x + 5 * y])
        A = [B[i] ^ ((~B[(i % 5 + 1) % 5 + 5 * (i // 5)]) & M64 & B[(i % 5 + 2) % 5 + 5 * (i // 5)]) for i in range(25)]
        A[0] ^= RC[rnd]
    return A
def keccak256(data: bytes) -> bytes:
    rate = 136; p = bytearray(data); p.append(0x01)
    while len(p) % rate: p.append(0)
    p[-1] |= 0x80
    A = [0] * 25
    for off in range(0, len(p), rate):
        for i in range(rate // 8): A[i] ^= int.from_bytes(p[off + 8 * i: off + 8 * i + 8], 'little')
        A = keccak_f(A)
    return b''.join(A[i].to_bytes(8, 'little') for i in range(4))

# ---------------------------------------------------------------- secp256k1
P = 2**256 - 2**32 - 977
N = 0xFFFFFFFFFFFFFFFFFFFFFFFFFFFFFFFEBAAEDCE6AF48A03BBFD25E8CD0364141
G = (0x79BE667EF9DCBBAC55A06295CE870B07029BFCDB2DCE28D959F2815B16F81798, 0x483ADA7726A3C4655DA4FBFC0E1108A8FD17B448A68554199C47D08FFB10D4B8)
def padd(a, b):
    if a is None: return b
    if b is None: return a
    if a[0] == b[0]:
        if (a[1] + b[1]) % P == 0: return None
        l = 3 * a[0] * a[0] * pow(2 * a[1], -1, P) % P
    else: l = (b[1] - a[1]) * pow(b[0] - a[0], -1, P) % P
    x = (l * l - a[0] - b[0]) % P
    return (x, (l * (a[0] - x) - a[1]) % P)
def pmul(k, pt):
    r = None
    while k:
        if k & 1: r = padd(r, pt)
        pt = padd(pt, pt); k >>= 1
    return r
def lift_x(x, odd):
    if x >= P: return None
    y2 = (pow(x, 3, P) + 7) % P; y = pow(y2, (P + 1) // 4, P)
    if y * y % P != y2: return None
    return (x, y if (y & 1) == odd else P - y)
def verify(z, r, s, q):
    if not (0 < r < N and 0 < s < N) or q is None: return False
    w = pow(s, -1, N); pt = padd(pmul(z % N * w % N, G), pmul(r * w % N, q))
    return pt is not None and pt[0] % N == r
def recover(z, r, s, odd):
    if not (0 < r < N and 0 < s < N): return None
    R = lift_x(r, odd)
    if R is None: return None
    ri = pow(r, -1, N)
    return padd(pmul((-(z % N) * ri) % N, G), pmul(s * ri % N, R))
def rfc6979(d, h32):
    z = int.from_bytes(h32, 'big') % N; x = d.to_bytes(32, 'big'); h1 = z.to_bytes(32, 'big')
    V = b'\x01' * 32; K = b'\x00' * 32
    K = hmac.new(K, V + b'\x00' + x + h1, 'sha256').digest(); V = hmac.new(K, V, 'sha256').digest()
    K = hmac.new(K, V + b'\x01' + x + h1, 'sha256').digest(); V = hmac.new(K, V, 'sha256').digest()
    while True:
        V = hmac.new(K, V, 'sha256').digest(); k = int.from_bytes(V, 'big')
        if 0 < k < N:
            R = pmul(k, G); r = R[0] % N; s = pow(k, -1, N) * (z + r * d) % N
            if r and s:
                odd = R[1] & 1
                if s > N // 2: s = N - s; odd ^= 1
                return r, s, bool(odd)
        K = hmac.new(K, V + b'\x00', 'sha256').digest(); V = hmac.new(K, V, 'sha256').digest()
hx = lambda b: b.hex()
h64 = lambda n: '%064x' % n
ptj = lambda p: None if p is None else [h64(p[0]), h64(p[1])]

# ---------------------------------------------------------------- BIP-39 / BIP-32 / Ethereum
WORDS = open(__file__.rsplit('/', 2)[0] + '/mc/refmodel/src/english.txt').read().split('\n')[:2048]
assert hashlib.sha256(('\n'.join(WORDS) + '\n').encode()).hexdigest() == '2f5eed53a4727b4bf8880d8f3f199efc90e58503646d9ff8eff3a2ed3b24dbda'
WIDX = {w: i for i, w in enumerate(WORDS)}
def entropy_to_phrase(e):
    cs = len(e) * 8 // 32; v = (int.from_bytes(e, 'big') << cs) | (hashlib.sha256(e).digest()[0] >> (8 - cs)); n = (len(e) * 8 + cs) // 11
    return ' '.join(WORDS[(v >> (11 * (n - 1 - i))) & 2047] for i in range(n))
def tokens_to_entropy(text):
    t = text.split(' ') if text else []
    if len(t) not in (12, 15, 18, 21, 24): return 'reject:count'
    v = 0
    for w in t:
        if w not in WIDX: return 'reject:word'
        v = (v << 11) | WIDX[w]
    cs = len(t) // 3; e = (v >> cs).to_bytes(len(t) * 4 // 3, 'big')
    return e.hex() if hashlib.sha256(e).digest()[0] >> (8 - cs) == v & ((1 << cs) - 1) else 'reject:checksum'
def ckd(k, c, i):
    data = (b'\x00' + k.to_bytes(32, 'big') if i >= 2**31 else compress(pmul(k, G))) + i.to_bytes(4, 'big')
    I = hmac.new(c, data, 'sha512').digest(); il = int.from_bytes(I[:32], 'big')
    if il >= N or (il + k) % N == 0: return None
    return [h64((il + k) % N), I[32:].hex()]
compress = lambda p: bytes([2 + (p[1] & 1)]) + p[0].to_bytes(32, 'big')
def eip55(a):
    lo = a.hex(); h = keccak256(lo.encode()).hex()
    return '0x' + ''.join(c.upper() if c.isalpha() and int(h[i], 16) >= 8 else c for i, c in enumerate(lo))

# ---------------------------------------------------------------- RLP / transactions
def rlp_len(n, off): return bytes([off + n]) if n < 56 else (lambda b: bytes([off + 55 + len(b)]) + b)(n.to_bytes((n.bit_length() + 7) // 8, 'big'))
def rlp(x):
    if isinstance(x, list): body = b''.join(rlp(i) for i in x); return rlp_len(len(body), 0xc0) + body
    if isinstance(x, int): x = x.to_bytes((x.bit_length() + 7) // 8, 'big')
    return x if len(x) == 1 and x[0] < 0x80 else rlp_len(len(x), 0x80) + x
class Bad(Exception): pass
def rlp_dec(b, top=True):
    if not b: raise Bad()
    f = b[0]
    if f < 0x80: item, used = b[:1], 1
    else:
        lst = f >= 0xc0; base = 0xc0 if lst else 0x80
        if f - base < 56: off, ln = 1, f - base
        else:
            lol = f - base - 55
            if len(b) < 1 + lol or b[1] == 0: raise Bad()
            ln = int.from_bytes(b[1:1 + lol], 'big'); off = 1 + lol
            if ln < 56: raise Bad()
        if len(b) < off + ln: raise Bad()
        body = b[off:off + ln]; used = off + ln
        if lst:
            item = []; p = 0
            while p < len(body): it, u = rlp_dec(body[p:], False); item.append(it); p += u
        else:
            if ln == 1 and body[0] < 0x80: raise Bad()
            item = body
    if top and used != len(b): raise Bad()
    return (item, used) if not top else item
def tx_fields(t):
    i = lambda k: int(t[k]); to = bytes.fromhex(t['to']) if t['to'] is not None else b''
    al = [[bytes.fromhex(a), [bytes.fromhex(s) for s in ss]] for a, ss in t['accessList']]; data = bytes.fromhex(t['data'])
    if t['kind'] == 0: return [i('nonce'), i('gasPrice'), i('gas'), to, i('value'), data]
    if t['kind'] == 1: return [i('chainId'), i('nonce'), i('gasPrice'), i('gas'), to, i('value'), data, al]
    return [i('chainId'), i('nonce'), i('maxPriorityFeePerGas'), i('maxFeePerGas'), i('gas'), to, i('value'), data, al]
def tx_wrap(t, f): return (b'' if t['kind'] == 0 else bytes([t['kind']])) + rlp(f)
def tx_unsigned(t):
    f = tx_fields(t)
    if t['kind'] == 0 and t['chainId'] is not None: f += [int(t['chainId']), 0, 0]
    return tx_wrap(t, f)
def tx_signed(t, odd, r, s):
    v = int(odd) if t['kind'] else (27 + odd if t['chainId'] is None else 35 + 2 * int(t['chainId']) + odd)
    return tx_wrap(t, tx_fields(t) + [v, int(r), int(s)])

# ---------------------------------------------------------------- exact JSON numbers and the three-valued classification
NUM = re.compile(r'-?(0|[1-9][0-9]*)(\.[0-9]+)?([eE][+-]?[0-9]+)?\Z')
class Lit(str): pass
def num_value(lit):
    """(neg, Fraction magnitude, plain) or None"""
    if not NUM.match(lit): return None
    m = re.match(r'(-?)([0-9]+)(?:\.([0-9]+))?(?:[eE]([+-]?[0-9]+))?\Z', lit); neg, ip, fp, ex = m.group(1) == '-', m.group(2), m.group(3) or '', int(m.group(4) or 0)
    digits = int(ip + fp); scale = ex - len(fp)
    if digits == 0: return (neg, Fraction(0), not (m.group(3) or m.group(4) is not None))
    if scale > 400: return (neg, 'huge', False)
    if scale < -5000: return (neg, 'frac', False)
    return (neg, Fraction(digits) * Fraction(10) ** scale, not (m.group(3) or m.group(4) is not None))
def lenient(s):
    t = ''.join(c for c in s if not c.isspace() and c != '_'); neg = t.startswith('-')
    t = t[1:] if neg else (t[1:] if t.startswith('+') else t); lo = t.lower()
    try:
        if lo.startswith('0x'): v = int(lo[2:], 16) if re.fullmatch(r'[0-9a-f]+', lo[2:]) else None
        elif lo.startswith('0b'): v = int(lo[2:], 2) if re.fullmatch(r'[01]+', lo[2:]) else None
        elif lo.startswith('0o'): v = int(lo[2:], 8) if re.fullmatch(r'[0-7]+', lo[2:]) else None
        elif re.fullmatch(r'[0-9]+', lo): v = int(lo)
        else:
            z = lo.lstrip('0'); canon = '0' + z if (z == '' or z[0] in '.e') else z; nv = num_value(canon)
            v = int(nv[1]) if nv and isinstance(nv[1], Fraction) and nv[1].denominator == 1 else None
    except ValueError: v = None
    if v is None: return None
    return (neg and v != 0, v)
def classify_integer(j):
    """returns 'reject' or (class, neg, magnitude)"""
    if isinstance(j, Lit):
        nv = num_value(j)
        if nv is None or nv[1] == 'frac' or (isinstance(nv[1], Fraction) and nv[1].denominator != 1): return 'reject'
        neg, mag, plain = nv
        if mag == 'huge': return ('unconstrained', neg, 'huge')
        mag = int(mag)
        if mag == 0: return ('unconstrained', False, 0) if neg else ('must-accept', False, 0)
        if plain: ok = (not neg and mag < 2**64) or (neg and mag <= 2**63)
        else: ok = mag < 2**53
        return ('must-accept' if ok else 'unconstrained', neg, mag)
    if isinstance(j, str):
        neg = j.startswith('-'); body = j[1:] if neg else j; strict = None
        # canonical hex: no leading zero digit (0x0 is zero); padded spellings such as 0x0001 are exotic but unambiguous
        if body.startswith('0x'): strict = int(body[2:], 16) if re.fullmatch(r'0|[1-9a-fA-F][0-9a-fA-F]{0,63}', body[2:]) else None
        elif body == '0' or (body and not body.startswith('0')): strict = int(body) if re.fullmatch(r'[0-9]+', body) else None
        if strict is not None: return ('unconstrained', False, 0) if neg and strict == 0 else ('must-accept', neg, strict)
        l = lenient(j)
        return 'reject' if l is None else ('unconstrained', l[0], l[1])
    return 'reject'
def ranged(j, bits, signed):
    c = classify_integer(j)
    if c == 'reject' or c[2] == 'huge': return 'reject'
    cls, neg, mag = c
    ok = (mag <= 2**(bits - 1) if neg else mag < 2**(bits - 1)) if signed else ((not neg or mag == 0) and mag < 2**bits)
    return (cls, -mag if neg else mag) if ok else 'reject'

# ---------------------------------------------------------------- EIP-712
class Rej(Exception): pass
def parse_type(t):
    if t.endswith('[]'): return ('array', parse_type(t[:-2]), None)
    m = re.fullmatch(r'(.*)\[(0|[1-9][0-9]*)\]', t, re.S)
    if m and int(m.group(2)) < 2**64: return ('array', parse_type(m.group(1)), int(m.group(2)))
    if t in ('bool', 'address', 'string', 'bytes'): return (t,)
    for pre, ok in (('bytes', lambda n: 1 <= n <= 32), ('uint', lambda n: n % 8 == 0 and 8 <= n <= 256), ('int', lambda n: n % 8 == 0 and 8 <= n <= 256)):
        m = re.fullmatch(pre + r'([1-9][0-9]*)', t)
        if m and ok(int(m.group(1))): return (pre + 'N', int(m.group(1)))
    return ('struct', t)
def sref(ty): return ty[1] if ty[0] == 'struct' else (sref(ty[1]) if ty[0] == 'array' else None)
class E712:
    def __init__(self, doc): self.types = dict(doc['types']); self.unc = False
    def members(self, n):
        if n not in self.types: raise Rej('undefined ' + n)
        return [(m['name'], m['type']) for m in self.types[n]]
    def deps(self, n, seen):
        for _, mt in self.members(n):
            r = sref(parse_type(mt))
            if r is not None and r not in seen: seen.add(r); self.deps(r, seen)
    def encode_type(self, n):
        seen = set(); self.deps(n, seen); seen.discard(n)
        one = lambda k: k + '(' + ','.join(f'{t} {m}' for m, t in self.members(k)) + ')'
        return one(n) + ''.join(one(k) for k in sorted(seen, key=lambda s: s.encode()))
    def hexbytes(self, v):
        if not isinstance(v, str) or isinstance(v, Lit): raise Rej('hex kind')
        if v.startswith('0x'): b = v[2:]
        else: self.unc = True; b = v[2:] if v.startswith('0X') else v
        if len(b) % 2 or not re.fullmatch(r'[0-9a-fA-F]*', b): raise Rej('hex')
        return bytes.fromhex(b)
    def enc(self, ty, v):
        k = ty[0]
        if k == 'bool':
            if v is True or v is False: return int(v).to_bytes(32, 'big')
            raise Rej('bool')
        if k == 'string':
            if isinstance(v, str) and not isinstance(v, Lit): return keccak256(v.encode())
            raise Rej('string')
        if k == 'bytes': return keccak256(self.hexbytes(v))
        if k == 'bytesN':
            b = self.hexbytes(v)
            if len(b) != ty[1]: raise Rej('bytesN length')
            return b + b'\x00' * (32 - len(b))
        if k == 'address':
            if not isinstance(v, str) or isinstance(v, Lit): raise Rej('address kind')
            if v.startswith('0x'): body = v[2:]
            else: self.unc = True; body = v[2:] if v.startswith('0X') else v
            if len(body) != 40 or not re.fullmatch(r'[0-9a-fA-F]*', body): raise Rej('address')
            a = bytes.fromhex(body)
            if body != a.hex() and '0x' + body != eip55(a): self.unc = True
            return b'\x00' * 12 + a
        if k in ('uintN', 'intN'):
            r = ranged(v, ty[1], k == 'intN')
            if isinstance(v, Lit) and any(c in v for c in '.eE'): self.unc = True
            if r == 'reject': raise Rej('integer')
            if r[0] == 'unconstrained': self.unc = True
            return (r[1] % 2**256).to_bytes(32, 'big')
        if k == 'struct':
            if not isinstance(v, Obj): raise Rej('struct kind')
            return self.hash_struct(ty[1], v)
        if k == 'array':
            if not isinstance(v, list): raise Rej('array kind')
            if ty[2] is not None and len(v) != ty[2]: raise Rej('array size')
            return keccak256(b''.join(self.enc(ty[1], e) for e in v))
    def hash_struct(self, n, v):
        ms = self.members(n)
        if not isinstance(v, Obj): raise Rej('object')
        buf = keccak256(self.encode_type(n).encode())
        if len({m for m, _ in ms}) != len(ms): self.unc = True  # a member name declared twice: refusal and double encoding both defensible
        for mn, mt in ms:
            hits = [val for key, val in v.pairs if key == mn]
            if not hits: raise Rej('missing ' + mn)
            if len(hits) > 1: self.unc = True
            buf += self.enc(parse_type(mt), hits[0])
        if any(key not in [m for m, _ in ms] for key, _ in v.pairs): raise Rej('undeclared member')
        return keccak256(buf)
class Obj:
    def __init__(self, pairs): self.pairs = pairs
    def __getitem__(self, k): return [v for kk, v in self.pairs if kk == k][-1]
DOMAIN = [('name', 'string'), ('version', 'string'), ('chainId', 'uint256'), ('verifyingContract', 'address'), ('salt', 'bytes32')]
def eip712(text):
    doc = json.loads(text, object_pairs_hook=Obj, parse_int=Lit, parse_float=Lit)
    types = {k: [{'name': m['name'], 'type': m['type']} for m in v] for k, v in doc['types'].pairs}
    e = E712({'types': types})
    try:
        if 'EIP712Domain' not in types: raise Rej('no domain type')
        nxt = 0; dm = e.members('EIP712Domain')
        if not dm: raise Rej('empty domain')
        for mn, mt in dm:
            pos = [i for i, (n, _) in enumerate(DOMAIN) if n == mn]
            if not pos or pos[0] < nxt or DOMAIN[pos[0]][1] != mt: raise Rej('malformed domain')
            nxt = pos[0] + 1
        ds = e.hash_struct('EIP712Domain', doc['domain']); mh = e.hash_struct(doc['primaryType'], doc['message'])
    except Rej: return 'reject'
    return ['unconstrained' if e.unc else 'must-accept', ds.hex(), mh.hex(), keccak256(b'\x19\x01' + ds + mh).hex()]

# ---------------------------------------------------------------- textual grammars
HARD = 2**31
def classify_component(c):
    ct = c.strip(' \t\n\r\x0b\x0c')
    if len(ct) != len(c):
        r = classify_component_trimmed(ct); return r if r == 'reject' else ('unc', r[1])
    return classify_component_trimmed(c)
def classify_component_trimmed(c):
    hard = exotic = False
    if c.endswith("'"): body, hard = c[:-1], True
    elif c.endswith('h') or c.endswith('H'): body, hard, exotic = c[:-1], True, True
    else: body = c
    def mk(v): return ('ok', v | (HARD if hard else 0)) if v < HARD else 'reject'
    if re.fullmatch(r'0|[1-9][0-9]*', body):
        r = mk(int(body)); return r if r == 'reject' else (('unc' if exotic else 'acc'), r[1])
    t = body.strip(' \t\n\r\x0b\x0c\x85\xa0'); t = t[1:] if t.startswith('+') else t
    if t.startswith('0x') and re.fullmatch(r'\+?[0-9a-fA-F]+', t[2:]): v = int(t[2:], 16)
    elif re.fullmatch(r'[0-9]+', t): v = int(t)
    else: return 'reject'
    r = mk(v); return r if r == 'reject' else ('unc', r[1])
def classify_path(s):
    unc = False
    if s.startswith('m/'): rest = s[2:]
    elif s == 'm': return ['unconstrained', []]
    elif s.startswith('M/'): rest, unc = s[2:], True
    elif s.startswith(' m/'): rest, unc = s[3:], True
    else: return 'reject'
    out = []
    for c in rest.split('/'):
        r = classify_component(c)
        if r == 'reject': return 'reject'
        unc |= r[0] == 'unc'; out.append(r[1])
    return ['unconstrained' if unc else 'must-accept', out]
def classify_signature(t):
    body = t[2:] if t.startswith('0x') else t
    if len(body) != 130 or not re.fullmatch(r'[0-9a-fA-F]*', body): return 'reject'
    b = bytes.fromhex(body); r, s, v = int.from_bytes(b[:32], 'big'), int.from_bytes(b[32:64], 'big'), b[64]
    if v not in (27, 28) or not (0 < r < N and 0 < s < N): return 'reject'
    return ['unconstrained' if (any(c.isupper() for c in body) or s > N // 2) else 'must-accept', h64(r), h64(s), v == 28]
def classify_hex_text(t):
    unc = any(c.isspace() and c not in ' \t\n\r' for c in t); s = ''.join(c for c in t if not c.isspace())
    if s.startswith('0x'): s = s[2:]
    elif s.startswith('0X'): s, unc = s[2:], True
    if len(s) % 2 or not re.fullmatch(r'[0-9a-fA-F]*', s): return 'reject'
    return ['unconstrained' if unc else 'must-accept', s.lower()]

# ---------------------------------------------------------------- dispatch
def compute(fn, i):
    b = bytes.fromhex
    if fn == 'sha256': return hashlib.sha256(b(i)).hexdigest()
    if fn == 'sha512': return hashlib.sha512(b(i)).hexdigest()
    if fn == 'keccak256': return keccak256(b(i)).hex()
    if fn == 'hmac_sha256': return hmac.new(b(i[0]), b(i[1]), 'sha256').hexdigest()
    if fn == 'hmac_sha512': return hmac.new(b(i[0]), b(i[1]), 'sha512').hexdigest()
    if fn == 'nfkd': return unicodedata.normalize('NFKD', i)
    if fn == 'bip39_seed': return hashlib.pbkdf2_hmac('sha512', i[0].encode(), ('mnemonic' + unicodedata.normalize('NFKD', i[1])).encode(), 2048).hex()
    if fn == 'entropy_to_phrase': return entropy_to_phrase(b(i))
    if fn == 'tokens_to_entropy': return tokens_to_entropy(i)
    if fn == 'mul_g': return ptj(pmul(int(i, 16) % N, G)) if int(i, 16) % N else None
    if fn == 'verify': return verify(int(i[0], 16), int(i[1], 16), int(i[2], 16), None if i[3] is None else (int(i[3][0], 16), int(i[3][1], 16)))
    if fn == 'recover': return ptj(recover(int(i[0], 16), int(i[1], 16), int(i[2], 16), i[3]))
    if fn == 'sign_rfc6979': r, s, odd = rfc6979(int(i[0], 16), b(i[1])); return [h64(r), h64(s), odd]
    if fn == 'master':
        I = hmac.new(b'Bitcoin seed', b(i), 'sha512').digest(); k = int.from_bytes(I[:32], 'big'); return None if k == 0 or k >= N else [h64(k), I[32:].hex()]
    if fn == 'ckd': return ckd(int(i[0], 16), b(i[1]), i[2])
    if fn == 'eip55': return eip55(b(i))
    if fn == 'eip191': m = b(i); return keccak256(b'\x19Ethereum Signed Message:\n' + str(len(m)).encode() + m).hex()
    if fn == 'tx_unsigned': return tx_unsigned(i).hex()
    if fn == 'tx_signed': return tx_signed(i[0], i[1], i[2], i[3]).hex()
    if fn == 'rlp_decode':
        try: return rlp(rlp_dec(b(i))).hex()
        except Bad: return 'error'
    if fn == 'eip712': return eip712(i)
    if fn == 'classify_integer':
        c = classify_integer(json.loads(i, parse_int=Lit, parse_float=Lit, object_pairs_hook=Obj))
        return 'reject' if c == 'reject' else [c[0], ('-' if c[1] else '') + ('huge' if c[2] == 'huge' or c[2].bit_length() > 256 else str(c[2]))]
    if fn == 'classify_path': return classify_path(i)
    if fn == 'classify_signature': return classify_signature(i)
    if fn == 'classify_hex_text': return classify_hex_text(i)
    return NotImplemented

def work(lines):
    counts, msgs = {}, []
    for line in lines:
        t = json.loads(line); fn = t['fn']
        got = compute(fn, t['in'])
        if got is NotImplemented: counts.setdefault('(skipped) ' + fn, [0, 0])[0] += 1; continue
        c = counts.setdefault(fn, [0, 0]); c[0] += 1
        if got != t['out']:
            c[1] += 1
            if len(msgs) < 5: msgs.append(f'DISAGREEMENT {fn}: input {json.dumps(t["in"], ensure_ascii=False)[:600]}\n  rust reference: {json.dumps(t["out"])[:300]}\n  python reference: {json.dumps(got)[:300]}')
    return counts, msgs

def main():
    import multiprocessing, os
    lines = [l for l in open(sys.argv[1], encoding='utf-8') if l.strip()]
    n = min(os.cpu_count() or 4, 16); chunks = [lines[i::n * 8] for i in range(n * 8)]
    with multiprocessing.Pool(n) as pool: results = pool.map(work, chunks)
    counts, bad = {}, 0
    for cs, msgs in results:
        for k, v in cs.items(): c = counts.setdefault(k, [0, 0]); c[0] += v[0]; c[1] += v[1]
        for m in msgs[:3]: print(m)
    bad = sum(v[1] for v in counts.values()); total = sum(c[0] for c in counts.values())
    print('cross-validation: ' + ', '.join(f'{k} {v[0]}' + (f' ({v[1]} BAD)' if v[1] else '') for k, v in sorted(counts.items())))
    print(f'cross-validation: {total} triples recomputed by the Python reference, {bad} disagreements')
    return 1 if bad or total < 1000 else 0

if __name__ == '__main__':
    sys.exit(main())

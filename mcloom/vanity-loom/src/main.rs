//! hdw-loom: exhaustive schedule exploration (loom, DPOR with a preemption bound) of the REAL vanity search
//! `cmd::new::run`, compiled unmodified from /repo/src/cmd (symlinked) against a `std` whose thread/sync are loom's.
//! The entropy source is a script indexed by a loom atomic, so which worker receives which answer is a scheduling
//! choice; when the script is exhausted the source fails (horizon and fault injection at once).
#![allow(dead_code)]
mod cmd;

use clap::Parser as _;
use refmodel::grammar::{address_has_prefix, HARD};
use refmodel::secp::Curve;
use refmodel::{bip32, bip39, eth};
use std::real as rs;
use rs::cell::RefCell;
use rs::collections::BTreeMap;
use rs::io::Write as _;
use rs::sync::atomic::{AtomicU64, Ordering};

// ---- entropy source owned by the harness -------------------------------------------------------------------------
rs::thread_local! {
    static COUNTER: RefCell<Option<rs::sync::Arc<loom::sync::atomic::AtomicUsize>>> = RefCell::new(None);
    static SCRIPT: RefCell<Vec<Option<Vec<u8>>>> = RefCell::new(Vec::new());
    static PADS: RefCell<Vec<Vec<u8>>> = RefCell::new(Vec::new());
    static FAILURES: rs::cell::Cell<usize> = rs::cell::Cell::new(0);
    static CURSORS: RefCell<rs::collections::HashMap<String, (usize, usize)>> = RefCell::new(rs::collections::HashMap::new());
}
extern "C" { fn __errno_location() -> *mut i32; fn memfd_create(name: *const u8, flags: u32) -> i32; fn dup(fd: i32) -> i32; fn dup2(a: i32, b: i32) -> i32; fn ftruncate(fd: i32, len: i64) -> i32; fn lseek(fd: i32, off: i64, whence: i32) -> i64; fn pread(fd: i32, buf: *mut u8, n: usize, off: i64) -> isize; }
/// Entropy is scripted PER MNEMONIC, not per request: a thread that starts gathering entropy takes the next answer of
/// the script (one fetch-and-add on a loom atomic = one scheduling point, so which worker gets which answer is a
/// scheduling choice) and is served from that 16-byte answer until it is used up, however many requests it makes.
/// # Safety: called through the subject's FFI declaration with a valid buffer
#[no_mangle]
pub unsafe extern "C" fn getentropy(buf: *mut u8, len: usize) -> i32 {
    let ctr = COUNTER.with(|c| c.borrow().clone()); // take the handle first: no RefCell borrow may be held across a scheduling point
    let Some(ctr) = ctr else { *__errno_location() = 5; return -1; };
    let me = format!("{:?}", loom::thread::current().id());
    let mut written = 0usize;
    while written < len {
        let cur = CURSORS.with(|c| c.borrow().get(&me).cloned());
        let (idx, off) = match cur { Some((i, o)) if o < 16 => (i, o), _ => { let i = ctr.fetch_add(1, loom::sync::atomic::Ordering::SeqCst); (i, 0) } };
        // the horizon (end of the script) and an injected failure apply to a request that STARTS there; a request that began
        // inside the script and needs more bytes than one answer (an implementation that fetches entropy in blocks) is
        // completed with further answers, and beyond the script with answers whose accounts do not match
        let answer = match SCRIPT.with(|s| s.borrow().get(idx).cloned()) { Some(Some(b)) => Some(b), _ if written == 0 => None, _ => PADS.with(|p| { let p = p.borrow(); if p.is_empty() { None } else { Some(p[idx % p.len()].clone()) } }) };

        match answer {
            None => { CURSORS.with(|c| c.borrow_mut().insert(me.clone(), (idx, 16))); FAILURES.with(|f| f.set(f.get() + 1)); *__errno_location() = 5; return -1; }
            Some(b) => { let n = (16 - off).min(len - written); for k in 0..n { *buf.add(written + k) = b[off + k]; } written += n; CURSORS.with(|c| c.borrow_mut().insert(me.clone(), (idx, off + n))); }
        }
    }
    0
}
extern "C" { fn syscall(num: i64, ...) -> i64; }
/// getrandom(2) through libc is the same source (flags 0); hash-map seeding of the runtime (GRND_NONBLOCK / GRND_INSECURE) goes to the kernel
/// # Safety: called with a valid buffer
#[no_mangle]
pub unsafe extern "C" fn getrandom(buf: *mut u8, len: usize, flags: u32) -> isize {
    if flags & 0x5 != 0 || COUNTER.with(|c| c.borrow().is_none()) { return syscall(318, buf, len, flags) as isize; }
    if getentropy(buf, len) == 0 { len as isize } else { -1 }
}
// ---- stdout capture at file-descriptor level (println! of the subject goes to fd 1) --------------------------------
static mut CAP_FD: i32 = -1;
fn capture_init() { unsafe { let fd = memfd_create(b"hdw-loom-stdout\0".as_ptr(), 0); assert!(fd >= 0, "memfd_create"); assert!(dup2(fd, 1) >= 0); CAP_FD = fd; } }
fn capture_take() -> String { unsafe { let _ = rs::io::stdout().flush(); let n = lseek(CAP_FD, 0, 2).max(0) as usize; let mut b = vec![0u8; n]; if n > 0 { pread(CAP_FD, b.as_mut_ptr(), n, 0); } ftruncate(CAP_FD, 0); lseek(CAP_FD, 0, 0); String::from_utf8_lossy(&b).into_owned() } }

// ---- scenarios -------------------------------------------------------------------------------------------------------
#[derive(Clone, Debug)]
struct Scenario { name: &'static str, workers: usize, bound: usize, script: &'static str, extra: &'static [&'static str], max_schedules: usize, expect_two_outcomes: bool }
// script letters: n = an answer whose account does NOT have the prefix, M = one that has, F = this one request fails;
// after the last letter the source fails for good
fn scenarios(thorough: bool) -> Vec<Scenario> {
    let mut v = vec![
        Scenario { name: "A-one-match-2w-b2", workers: 2, bound: 2, script: "nnMnnn", extra: &[], max_schedules: 60_000, expect_two_outcomes: true },
        Scenario { name: "B-two-matches-2w-b2", workers: 2, bound: 2, script: "nnMnMnn", extra: &[], max_schedules: 60_000, expect_two_outcomes: true },
        Scenario { name: "C-fail-at-first-request", workers: 2, bound: 2, script: "", extra: &[], max_schedules: 60_000, expect_two_outcomes: false },
        Scenario { name: "C-fail-at-second-request", workers: 2, bound: 2, script: "n", extra: &[], max_schedules: 60_000, expect_two_outcomes: false },
        Scenario { name: "D-minimal-2w-b3", workers: 2, bound: 3, script: "nMn", extra: &[], max_schedules: 60_000, expect_two_outcomes: true },
        Scenario { name: "E-initial-phrase-matches-2w-b3", workers: 2, bound: 3, script: "Mn", extra: &[], max_schedules: 60_000, expect_two_outcomes: false },
        Scenario { name: "F-bad-account-selector-2w-b3", workers: 2, bound: 3, script: "nMn", extra: &["--vanity-hd-path", "m/x"], max_schedules: 60_000, expect_two_outcomes: false },
        Scenario { name: "G-one-worker-b3", workers: 1, bound: 3, script: "nnMn", extra: &[], max_schedules: 60_000, expect_two_outcomes: false },
        Scenario { name: "I-one-shot-failure-2w-b2", workers: 2, bound: 2, script: "nFnnMn", extra: &[], max_schedules: 60_000, expect_two_outcomes: true },
        Scenario { name: "H-selector-password-2w-b2", workers: 2, bound: 2, script: "nMnn", extra: &["--vanity-password", "TREZOR", "--vanity-account-index", "3"], max_schedules: 60_000, expect_two_outcomes: true },
    ];
    if thorough {
        v.push(Scenario { name: "I-one-shot-failure-2w-b3", workers: 2, bound: 3, script: "nFnnMn", extra: &[], max_schedules: 150_000, expect_two_outcomes: true });
        v.push(Scenario { name: "I-one-shot-failure-3w-b2", workers: 3, bound: 2, script: "nnFnMnn", extra: &[], max_schedules: 150_000, expect_two_outcomes: true });
        v.push(Scenario { name: "A-one-match-2w-b3", workers: 2, bound: 3, script: "nnMnnn", extra: &[], max_schedules: 150_000, expect_two_outcomes: true });
        v.push(Scenario { name: "B-two-matches-2w-b3", workers: 2, bound: 3, script: "nnMnMnn", extra: &[], max_schedules: 150_000, expect_two_outcomes: true });
        v.push(Scenario { name: "A-one-match-3w-b2", workers: 3, bound: 2, script: "nnMnnn", extra: &[], max_schedules: 150_000, expect_two_outcomes: true });
        v.push(Scenario { name: "D-minimal-2w-b4", workers: 2, bound: 4, script: "nMn", extra: &[], max_schedules: 150_000, expect_two_outcomes: true });
        v.push(Scenario { name: "D-minimal-3w-b3", workers: 3, bound: 3, script: "nMn", extra: &[], max_schedules: 150_000, expect_two_outcomes: true });
    }
    v
}
const PREFIX: &str = "0x5";
struct Plan { script: Vec<Option<Vec<u8>>>, good: Vec<String>, all: Vec<String>, pads: Vec<Vec<u8>> }
/// picks concrete entropies for the letters of the script using the reference model only
fn plan(sc: &Scenario) -> Plan {
    let curve = Curve::new();
    let (pass, path): (&str, Vec<u32>) = if sc.extra.contains(&"--vanity-password") { ("TREZOR", vec![44 | HARD, 60 | HARD, HARD, 0, 3]) } else { ("", vec![44 | HARD, 60 | HARD, HARD, 0, 0]) };
    let (mut hits, mut misses) = (Vec::new(), Vec::new()); let mut k = 0u64;
    while hits.len() < 4 || misses.len() < 28 {
        let e: Vec<u8> = (0..16).map(|i| (k as u8).wrapping_mul(31).wrapping_add(i as u8 * 7).wrapping_add((k >> 8) as u8)).collect(); k += 1;
        let phrase = bip39::entropy_to_phrase(&e); let seed = bip39::seed(&phrase, pass);
        let key = bip32::derive(&curve, &seed, &path).unwrap().k;
        if address_has_prefix(&eth::address_of_secret(&curve, &key), &[5]) { hits.push(e) } else { misses.push(e) }
    }
    let (mut hi, mut mi) = (0, 0); let mut script = Vec::new(); let mut good = Vec::new(); let mut all = Vec::new();
    for ch in sc.script.chars() { if ch == 'F' { all.push("<failure>".into()); script.push(None); continue; } let e = if ch == 'M' { hi += 1; good.push(bip39::entropy_to_phrase(&hits[hi - 1])); hits[hi - 1].clone() } else { mi += 1; misses[mi - 1].clone() }; all.push(bip39::entropy_to_phrase(&e)); script.push(Some(e)); }
    let pads: Vec<Vec<u8>> = misses[mi..].to_vec(); for e in &pads { all.push(bip39::entropy_to_phrase(e)); }
    Plan { script, good, all, pads }
}
fn options(sc: &Scenario) -> Result<cmd::new::Options, String> {
    let j = sc.workers.to_string(); let mut a = vec!["new", "-n", "12", "--vanity-prefix", PREFIX, "-j", &j]; a.extend_from_slice(sc.extra);
    // parsed through a wrapper with `flatten`, which works whether Options derives clap's Parser or only Args
    #[derive(clap::Parser)] struct Wrap { #[clap(flatten)] options: cmd::new::Options }
    // a selector that is refused while the arguments are parsed is an ordinary refusal (nothing runs, nothing is printed)
    Wrap::try_parse_from(a).map(|w| w.options).map_err(|e| e.kind().to_string())
}

/// the message of the first panic in a child's stderr (loom reports a deadlock by panicking; the process may then abort in a destructor)
fn first_panic(stderr: &str) -> Option<String> { let mut it = stderr.lines(); while let Some(l) = it.next() { if l.contains("panicked at") { return it.find(|x| !x.trim().is_empty()).map(|x| x.trim().chars().take(300).collect()); } } None }
fn esc(s: &str) -> String { s.replace('\\', "\\\\").replace('"', "\\\"").replace('\n', "\\n") }

/// child: explores one scenario, writes a JSON result file
fn explore(sc: &Scenario, result_path: &str, checkpoint: &str, replay: bool) {
    capture_init();
    let pl = rs::sync::Arc::new(plan(sc)); let sc2 = sc.clone();
    static SCHEDULES: AtomicU64 = AtomicU64::new(0);
    let outcomes: rs::sync::Arc<rs::sync::Mutex<BTreeMap<String, u64>>> = Default::default();
    let violation: rs::sync::Arc<rs::sync::Mutex<Option<String>>> = Default::default();
    let (o2, v2, p2) = (outcomes.clone(), violation.clone(), pl.clone());
    let mut b = loom::model::Builder::new();
    b.preemption_bound = Some(sc.bound); b.max_threads = sc.workers + 1; b.max_branches = 100_000; b.checkpoint_file = Some(checkpoint.into()); b.checkpoint_interval = 1;
    b.max_permutations = Some(if replay { 2 } else { sc.max_schedules }); // the cap is tested before an execution starts: 2 = exactly one execution
    if !replay { let _ = rs::fs::remove_file(checkpoint); }
    let start = rs::time::Instant::now();
    let res = rs::panic::catch_unwind(rs::panic::AssertUnwindSafe(|| b.check(move || {
        SCHEDULES.fetch_add(1, Ordering::Relaxed);
        COUNTER.with(|c| *c.borrow_mut() = Some(rs::sync::Arc::new(loom::sync::atomic::AtomicUsize::new(0))));
        SCRIPT.with(|s| *s.borrow_mut() = p2.script.clone()); PADS.with(|s| *s.borrow_mut() = p2.pads.clone()); std::sync::once_lock::new_execution();
        std::sync::mpsc::SEND_LOG.with(|l| l.borrow_mut().clear()); FAILURES.with(|f| f.set(0)); CURSORS.with(|c| c.borrow_mut().clear());
        std::sync::mpsc::SEND_HOOK.with(|h| h.set(Some(|m: &dyn rs::any::Any| m.downcast_ref::<anyhow::Result<hdwallet::mnemonic::Mnemonic>>().map(|r| match r { Ok(m) => format!("ok:{m}"), Err(_) => "err".to_string() }))));
        let r = match options(&sc2) { Ok(o) => cmd::new::run(o), Err(kind) => Err(anyhow::anyhow!("refused while parsing the arguments: {kind}")) };
        let out = capture_take();
        // "whichever worker finishes first": the first message put on the channel decides the outcome
        let first = std::sync::mpsc::SEND_LOG.with(|l| l.borrow().first().cloned());
        let outcome = match (&r, out.as_str()) {
            (Err(_), "") => "error, nothing printed".to_string(),
            (Ok(()), o) if o.ends_with('\n') && !o[..o.len() - 1].contains('\n') => { let ph = &o[..o.len() - 1]; match p2.all.iter().position(|x| x == ph) { Some(k) if p2.good.iter().any(|g| g == ph) => format!("printed the matching phrase of answer #{k}"), Some(k) => format!("VIOLATION printed the phrase of answer #{k} whose account does not have the prefix"), None => format!("VIOLATION printed a phrase that is not one of the scripted answers: {ph}") } }
            (Ok(()), o) => format!("VIOLATION ok with stdout {:?}", o), (Err(e), o) => format!("VIOLATION error ({e}) but stdout {:?}", o),
        };
        let outcome = if outcome.starts_with("VIOLATION") { outcome } else { match (&first, &r) {
            (Some(f), Ok(())) if f.starts_with("ok:") && format!("{}\n", &f[3..]) == out => outcome,
            (Some(f), Err(_)) if f == "err" => outcome,
            // an error although the first finisher had a match: conforming as long as some failure really happened before
            // (a stricter "any reported failure is fatal" policy satisfies C12 and C18 alike)
            (Some(_), Err(_)) if FAILURES.with(|f| f.get()) > 0 || std::sync::mpsc::SEND_LOG.with(|l| l.borrow().iter().any(|m| m == "err")) => outcome,
            (None, _) => outcome, // nothing was sent: the search ended before any worker finished (failure in the main thread)
            (Some(f), _) => format!("VIOLATION the first worker to finish sent {:?} but the command {}", if f == "err" { "an error".to_string() } else { format!("the phrase '{}'", &f[3..]) }, if r.is_ok() { format!("printed {:?}", out) } else { "failed".to_string() }),
        } };
        *o2.lock().unwrap().entry(outcome.clone()).or_insert(0) += 1;
        if outcome.starts_with("VIOLATION") { *v2.lock().unwrap() = Some(outcome.clone()); panic!("{outcome}"); }
    })));
    let n = SCHEDULES.load(Ordering::Relaxed);
    let mut viol = violation.lock().unwrap().clone();
    if let Err(p) = res { let msg = p.downcast_ref::<String>().cloned().or_else(|| p.downcast_ref::<&str>().map(|s| s.to_string())).unwrap_or_else(|| "panic".into()); if viol.is_none() { viol = Some(format!("VIOLATION schedule exploration stopped: {msg}")); } }
    let oc = outcomes.lock().unwrap();
    let capped = n as usize >= sc.max_schedules && !replay;
    let json = format!("{{\"scenario\":\"{}\",\"workers\":{},\"preemption_bound\":{},\"script\":\"{}\",\"extra\":\"{}\",\"schedules\":{},\"capped\":{},\"wall_s\":{:.2},\"outcomes\":{{{}}},\"violation\":{}}}",
        sc.name, sc.workers, sc.bound, sc.script, esc(&sc.extra.join(" ")), n, capped, start.elapsed().as_secs_f64(), oc.iter().map(|(k, v)| format!("\"{}\":{}", esc(k), v)).collect::<Vec<_>>().join(","), match &viol { Some(v) => format!("\"{}\"", esc(v)), None => "null".into() });
    rs::fs::write(result_path, json).expect("write result");
}

fn main() {
    let args: Vec<String> = rs::env::args().skip(1).collect();
    if args.first().map(|s| s.as_str()) == Some("--child") {
        // --child <scenario> <tier> <result> <checkpoint> [replay]
        let sc = scenarios(args[2] == "thorough").into_iter().find(|s| s.name == args[1]).expect("scenario");
        explore(&sc, &args[3], &args[4], args.get(5).map(|s| s == "replay").unwrap_or(false));
        return;
    }
    // orchestrator: hdw-loom C18 --tier T [--only scenario:0]
    let tier = args.iter().position(|a| a == "--tier").map(|i| args[i + 1].clone()).or_else(|| rs::env::var("VERIF_TIER").ok()).unwrap_or_else(|| "quick".into());
    let only: Option<String> = args.iter().position(|a| a == "--only").map(|i| args[i + 1].rsplit_once(':').map(|x| x.0.to_string()).unwrap_or_default());
    let scratch = rs::env::var("VERIF_SCRATCH").unwrap_or_else(|_| "/verif/target/scratch".into()); let _ = rs::fs::create_dir_all(&scratch);
    let ckdir_s = format!("{}/replays/{}", rs::env::var("VERIF_ROOT").unwrap_or_else(|_| "/verif".into()), args.first().cloned().filter(|a| a.starts_with('C')).unwrap_or_else(|| "C18".into())); let ckdir: &'static str = Box::leak(ckdir_s.into_boxed_str()); let _ = rs::fs::create_dir_all(ckdir);
    let exe = rs::env::current_exe().unwrap(); let start = rs::time::Instant::now();
    let pid = args.first().cloned().filter(|a| a.starts_with('C')).unwrap_or_else(|| "C18".into());
    // C12 (entropy failure is an error) uses the scenarios with an injected failure; C18 uses all of them
    let scs: Vec<Scenario> = scenarios(tier == "thorough").into_iter().filter(|s| only.as_ref().map_or(true, |o| o == s.name)).filter(|s| pid != "C12" || s.name.starts_with("C-") || s.name.starts_with("I-") || s.name.starts_with("A-one-match-2w"))
        // C17 (no deadlock, no panic) repeats the bound-2 scenarios in its quick tier; C18 owns the deeper ones
        .filter(|s| pid != "C17" || (s.bound <= 2 && s.workers <= 2) || (tier == "thorough" && s.bound <= 3 && s.workers <= 2)).collect();
    let handles: Vec<_> = scs.iter().map(|sc| { let (exe, scratch, tier, sc, replay) = (exe.clone(), scratch.clone(), tier.clone(), sc.clone(), only.is_some());
        rs::thread::spawn(move || {
            let res = format!("{scratch}/loom-{}.json", sc.name); let _ = rs::fs::remove_file(&res);
            let ck = if replay { format!("{ckdir}/loom-{}.ckpt", sc.name) } else { format!("{scratch}/loom-{}.ckpt", sc.name) };
            let mut c = rs::process::Command::new(&exe); c.args(["--child", sc.name, &tier, &res, &ck]); if replay { c.arg("replay"); }
            // a child must not outlive the orchestrator (a driver time-out would otherwise leave explorations running)
            unsafe { use rs::os::unix::process::CommandExt; c.pre_exec(|| { extern "C" { fn prctl(option: i32, arg2: u64, arg3: u64, arg4: u64, arg5: u64) -> i32; } prctl(1, 9, 0, 0, 0); Ok(()) }); }
            let out = c.stdout(rs::process::Stdio::null()).stderr(rs::process::Stdio::piped()).output().expect("spawn child");
            let text = rs::fs::read_to_string(&res).ok();
            if text.as_ref().map_or(true, |t| t.contains("\"violation\":\"")) && !replay { let _ = rs::fs::copy(&ck, format!("{ckdir}/loom-{}.ckpt", sc.name)); }
            (sc, text, out.status.code(), String::from_utf8_lossy(&out.stderr).into_owned())
        }) }).collect();
    let (mut sweeps, mut viols, mut classes, mut samples, mut guards, mut errors) = (Vec::new(), Vec::new(), Vec::new(), Vec::new(), Vec::new(), Vec::new());
    let (mut states, mut evals) = (0u64, 0u64); let mut notes: Vec<String> = vec!["states/transitions for the loom layer = complete schedules (executions) explored; every schedule runs the real cmd::new::run to completion".to_string()];
    for h in handles {
        let (sc, text, code, stderr) = h.join().unwrap();
        match text.and_then(|t| serde_json::from_str::<serde_json::Value>(&t).ok()) {
            None if stderr.contains("already borrowed") || stderr.contains("already mutably borrowed") => { notes.push(format!("scenario {} given up: the implementation keeps thread-local state that loom's threads share; not explored", sc.name)); }
            None => { // the child died without a result: loom aborts the process on some failures (double panic while unwinding)
                let tail: String = stderr.lines().rev().take(12).collect::<Vec<_>>().into_iter().rev().collect::<Vec<_>>().join(" | ");
                let first = first_panic(&stderr).unwrap_or_default(); let kind = if first.starts_with("deadlock") { "deadlock" } else { "aborted" };
                viols.push(serde_json::json!({"sig": if kind == "deadlock" { format!("{pid}:schedules:deadlock") } else { format!("{pid}:schedules:{}:aborted", sc.name) }, "what": format!("scenario {} (workers {}, preemption bound {}, script {}): schedule exploration of the real vanity search stopped: {first} (child status {code:?}; {tail})", sc.name, sc.workers, sc.bound, sc.script), "replay": {"sweep": sc.name, "index": 0, "kind": "loom", "checkpoint": format!("{ckdir}/loom-{}.ckpt", sc.name)}})); }
            Some(v) => {
                // thread-local state of the implementation is per OS thread, and loom runs all its threads on one: a RefCell in a
                // thread_local! that is borrowed across a scheduling point (the entropy request) looks "already borrowed" to the
                // next loom thread. An artefact of the explorer, not a behaviour of the implementation: the scenario is given up.
                let artefact = v["violation"].as_str().map_or(false, |w| w.contains("already borrowed") || w.contains("already mutably borrowed") || w.contains("Is the model fully deterministic"));
                if artefact { notes.push(format!("scenario {} given up: the implementation keeps thread-local state that loom's threads (coroutines of one OS thread) share; not explored", sc.name)); continue; }
                let n = v["schedules"].as_u64().unwrap_or(0); states += n; evals += n;
                let oc = v["outcomes"].as_object().cloned().unwrap_or_default();
                for k in oc.keys() { classes.push(format!("{}:{}", sc.name, k)); }
                sweeps.push(serde_json::json!({"name": sc.name, "cases": n, "bound": format!("loom DPOR, {} workers + main, preemption bound {}, entropy script '{}' then failure{}; {} schedules", sc.workers, sc.bound, sc.script, if sc.extra.is_empty() { String::new() } else { format!(", extra args {:?}", sc.extra) }, n), "exhaustive": !v["capped"].as_bool().unwrap_or(false), "cap": if v["capped"].as_bool().unwrap_or(false) { serde_json::json!(format!("stopped at {} schedules", n)) } else { serde_json::Value::Null }}));
                samples.push(serde_json::json!({"sweep": sc.name, "case": {"workers": sc.workers, "preemption_bound": sc.bound, "script": sc.script, "schedules": n, "outcome_histogram": oc, "wall_s": v["wall_s"]}}));
                // non-vacuity: several workers must have been interleaved in more than one way. Whether the schedules lead to different
                // winners depends on the implementation's policy (first finisher decides / remaining workers go on after a failure), so the
                // number of distinct outcomes is recorded, not required
                if sc.expect_two_outcomes && only.is_none() { guards.push(serde_json::json!({"name": format!("{}: several schedules explored", sc.name), "ok": n >= 2, "detail": format!("{} schedules, {} distinct outcomes", n, oc.len())})); if n < 2 && v["violation"].is_null() { errors.push(format!("vacuity guard failed: {} explored a single schedule", sc.name)); } }
                if let Some(what) = v["violation"].as_str() { let kind = if what.contains("deadlock") { "deadlock" } else if what.contains("does not have the prefix") { "wrong-phrase" } else if what.contains("not one of the scripted") { "foreign-phrase" } else if what.contains("first worker to finish") { "not-first-finisher" } else if what.contains("stopped") { "panic" } else { "wrong-output" };
                    viols.push(serde_json::json!({"sig": format!("{pid}:schedules:{kind}"), "what": format!("scenario {} (workers {}, preemption bound {}, script {}), after {} schedules: {}", sc.name, sc.workers, sc.bound, sc.script, n, what), "replay": {"sweep": sc.name, "index": 0, "kind": "loom", "checkpoint": format!("{ckdir}/loom-{}.ckpt", sc.name)}})); }
            }
        }
    }
    // C17 is about panics, aborts and hangs (deadlocks) only
    if pid == "C17" { viols.retain(|v| { let s = v["sig"].as_str().unwrap_or(""); s.ends_with(":panic") || s.ends_with(":deadlock") || s.ends_with(":aborted") }); }
    let nv = viols.len();
    let part = serde_json::json!({"property": pid, "layer": "loom", "tier": tier, "seed": 0, "threads": scs.len(), "wall_s": start.elapsed().as_secs_f64(), "sweeps": sweeps, "evaluations": evals, "states": states, "transitions": states, "traces": states,
        "classes": classes, "samples": samples, "violations": viols, "violations_total": nv, "guards": guards, "engine_errors": errors, "notes": notes, "extra": {}, "replay_only": only});
    match rs::env::var("VERIF_PART") { Ok(p) => rs::fs::write(p, part.to_string()).unwrap(), Err(_) => { let mut e = rs::io::stderr(); let _ = writeln!(e, "{}", part); } }
    rs::process::exit(if !errors.is_empty() { 2 } else if nv > 0 { 1 } else { 0 });
}

//! A crate whose library name is `std`: it re-exports the real standard library but maps `thread` and `sync`
//! to loom, so that source files compiled against it (the unmodified /repo/src/cmd/*.rs) are explored by loom's
//! scheduler. This is the conventional `cfg(loom)` switch, performed from outside the repository.
#![allow(ambiguous_glob_reexports, hidden_glob_reexports)]
pub use ::std::*;

/// escape hatch for harness code that needs the real library
pub mod real { pub use ::std::*; }

pub mod thread {
    pub use loom::thread::{current, park, spawn, yield_now, Builder, JoinHandle, Thread};
}
pub mod sync {
    pub use ::std::sync::{LockResult, Once, OnceLock, PoisonError, TryLockError, TryLockResult, Weak};
    pub use loom::sync::{Arc, Condvar, Mutex, MutexGuard, RwLock, RwLockReadGuard, RwLockWriteGuard};
    pub mod atomic { pub use loom::sync::atomic::*; }
    /// An unbounded channel with std's disconnect semantics, written on loom's Mutex and Condvar.
    /// (loom's own mpsc stub has no disconnection and aborts when a message is left in the queue.)
    pub mod mpsc {
        use loom::sync::{Condvar, Mutex};
        use ::std::collections::VecDeque;
        use ::std::sync::Arc as RealArc;
        pub use ::std::sync::mpsc::{RecvError, SendError, TryRecvError};
        struct State<T> { queue: VecDeque<T>, senders: usize, receiver: bool }
        struct Inner<T> { st: Mutex<State<T>>, cv: Condvar }
        pub struct Sender<T> { inner: RealArc<Inner<T>> }
        pub struct Receiver<T> { inner: RealArc<Inner<T>> }
        pub fn channel<T>() -> (Sender<T>, Receiver<T>) {
            let inner = RealArc::new(Inner { st: Mutex::new(State { queue: VecDeque::new(), senders: 1, receiver: true }), cv: Condvar::new() });
            (Sender { inner: inner.clone() }, Receiver { inner })
        }
        ::std::thread_local! {
            /// harness hook: describes a message as it is sent, so that "whichever worker finishes first" is observable
            pub static SEND_HOOK: ::std::cell::Cell<Option<fn(&dyn ::std::any::Any) -> Option<::std::string::String>>> = ::std::cell::Cell::new(None);
            pub static SEND_LOG: ::std::cell::RefCell<::std::vec::Vec<::std::string::String>> = ::std::cell::RefCell::new(::std::vec::Vec::new());
        }
        impl<T: 'static> Sender<T> {
            pub fn send(&self, t: T) -> Result<(), SendError<T>> {
                let mut g = self.inner.st.lock().unwrap();
                // logged in queue order (under the channel lock), whether or not a receiver is left
                if let Some(h) = SEND_HOOK.with(|h| h.get()) { if let Some(d) = h(&t as &dyn ::std::any::Any) { SEND_LOG.with(|l| l.borrow_mut().push(d)); } }
                if !g.receiver { return Err(SendError(t)); }
                g.queue.push_back(t); drop(g); self.inner.cv.notify_one(); Ok(())
            }
        }
        impl<T> Clone for Sender<T> { fn clone(&self) -> Self { self.inner.st.lock().unwrap().senders += 1; Sender { inner: self.inner.clone() } } }
        impl<T> Drop for Sender<T> { fn drop(&mut self) { let mut g = self.inner.st.lock().unwrap(); g.senders -= 1; let last = g.senders == 0; drop(g); if last { self.inner.cv.notify_all(); } } }
        impl<T> Receiver<T> {
            pub fn recv(&self) -> Result<T, RecvError> {
                let mut g = self.inner.st.lock().unwrap();
                loop {
                    if let Some(t) = g.queue.pop_front() { return Ok(t); }
                    if g.senders == 0 { return Err(RecvError); }
                    g = self.inner.cv.wait(g).unwrap();
                }
            }
            pub fn try_recv(&self) -> Result<T, TryRecvError> {
                let mut g = self.inner.st.lock().unwrap();
                match g.queue.pop_front() { Some(t) => Ok(t), None => if g.senders == 0 { Err(TryRecvError::Disconnected) } else { Err(TryRecvError::Empty) } }
            }
        }
        impl<T> Drop for Receiver<T> { fn drop(&mut self) { let mut g = self.inner.st.lock().unwrap(); g.receiver = false; g.queue.clear(); } }
    }
}


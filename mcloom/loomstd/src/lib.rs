//! A crate whose library name is `std`: it re-exports the real standard library but maps `thread` and `sync`
//! to loom, so that source files compiled against it (the unmodified /repo/src/cmd/*.rs) are explored by loom's
//! scheduler. This is the conventional `cfg(loom)` switch, performed from outside the repository.
#![allow(ambiguous_glob_reexports, hidden_glob_reexports)]
pub use ::std::*;

/// escape hatch for harness code that needs the real library
pub mod real { pub use ::std::*; }

pub mod thread {
    //! loom threads, plus std's scoped-thread API and Builder written on top of `loom::thread::spawn`
    //! (loom 0.7 has no scoped threads): the closure's lifetime is erased and every scoped thread is joined before
    //! `scope` returns, which is exactly the guarantee std gives.
    pub use loom::thread::{current, park, spawn, yield_now, JoinHandle, Thread};
    use ::std::marker::PhantomData;
    use ::std::sync::{Arc as RealArc, Mutex as RealMutex};
    type Shared = RealArc<RealMutex<Option<loom::thread::JoinHandle<()>>>>;
    pub struct Scope<'scope, 'env: 'scope> { handles: RealMutex<::std::vec::Vec<Shared>>, _m: PhantomData<(&'scope mut &'scope (), &'env mut &'env ())> }
    pub struct ScopedJoinHandle<'scope, T> { handle: Shared, result: RealArc<RealMutex<Option<T>>>, _m: PhantomData<&'scope ()> }
    pub fn scope<'env, F, T>(f: F) -> T where F: for<'scope> FnOnce(&'scope Scope<'scope, 'env>) -> T {
        let scope = Scope { handles: RealMutex::new(::std::vec::Vec::new()), _m: PhantomData };
        let r = f(unsafe { &*(&scope as *const Scope<'_, 'env>) });
        loop { // join whatever has not been joined through its handle (the real lock is never held across the join)
            let next = scope.handles.lock().unwrap().pop();
            match next { None => break, Some(h) => { let jh = h.lock().unwrap().take(); if let Some(jh) = jh { jh.join().expect("a scoped thread panicked"); } } }
        }
        r
    }
    impl<'scope, 'env> Scope<'scope, 'env> {
        pub fn spawn<F, T>(&'scope self, f: F) -> ScopedJoinHandle<'scope, T> where F: FnOnce() -> T + Send + 'scope, T: Send + 'scope { self.spawn_named(None, f) }
        fn spawn_named<F, T>(&'scope self, name: Option<::std::string::String>, f: F) -> ScopedJoinHandle<'scope, T> where F: FnOnce() -> T + Send + 'scope, T: Send + 'scope {
            let result: RealArc<RealMutex<Option<T>>> = RealArc::new(RealMutex::new(None)); let r2 = result.clone();
            let job: ::std::boxed::Box<dyn FnOnce() + Send + 'scope> = ::std::boxed::Box::new(move || { let v = f(); *r2.lock().unwrap() = Some(v); });
            let job: ::std::boxed::Box<dyn FnOnce() + Send + 'static> = unsafe { ::std::mem::transmute(job) };
            let mut b = loom::thread::Builder::new(); if let Some(n) = name { b = b.name(n); }
            let jh = b.spawn(move || job()).expect("spawn");
            let shared: Shared = RealArc::new(RealMutex::new(Some(jh)));
            self.handles.lock().unwrap().push(shared.clone());
            ScopedJoinHandle { handle: shared, result, _m: PhantomData }
        }
    }
    impl<'scope, T> ScopedJoinHandle<'scope, T> {
        pub fn join(self) -> ::std::thread::Result<T> {
            let jh = self.handle.lock().unwrap().take();
            if let Some(jh) = jh { jh.join()?; }
            Ok(self.result.lock().unwrap().take().expect("scoped thread result"))
        }
        pub fn is_finished(&self) -> bool { self.result.lock().unwrap().is_some() }
    }
    /// std::thread::Builder with spawn_scoped
    #[derive(Default)]
    pub struct Builder { name: Option<::std::string::String>, stack: Option<usize> }
    impl Builder {
        pub fn new() -> Builder { Builder::default() }
        pub fn name(mut self, name: ::std::string::String) -> Builder { self.name = Some(name); self }
        pub fn stack_size(mut self, size: usize) -> Builder { self.stack = Some(size); self }
        pub fn spawn<F, T>(self, f: F) -> ::std::io::Result<JoinHandle<T>> where F: FnOnce() -> T + Send + 'static, T: Send + 'static { let mut b = loom::thread::Builder::new(); if let Some(n) = self.name { b = b.name(n); } b.spawn(f) }
        pub fn spawn_scoped<'scope, 'env, F, T>(self, scope: &'scope Scope<'scope, 'env>, f: F) -> ::std::io::Result<ScopedJoinHandle<'scope, T>> where F: FnOnce() -> T + Send + 'scope, T: Send + 'scope { Ok(scope.spawn_named(self.name, f)) }
    }
}
/// Run-time support for synchronisation objects that must be constructible in `const` context (statics) and yet be
/// explored by loom: the object itself is plain storage; the loom primitive that gives it its blocking / ordering
/// semantics is created lazily, per execution, in a registry keyed by the object's address. Objects that live in the
/// program's data segment (statics) are put back to the bytes they had when they were first seen before every
/// execution, so every execution starts from the initial state (whatever they own at that time is leaked).
pub mod rt {
    use ::std::any::Any;
    use ::std::cell::{Cell, RefCell};
    use ::std::collections::HashMap;
    use ::std::rc::Rc;
    struct Entry { size: usize, snapshot: ::std::boxed::Box<[u8]>, prim: Option<Rc<dyn Any>>, joined: ::std::vec::Vec<::std::string::String>,
        /// how to drop what the object currently owns (address of the value, monomorphised drop) before its bytes are put back
        dropper: Option<(usize, unsafe fn(usize))> }
    ::std::thread_local! { static REG: RefCell<HashMap<usize, Entry>> = RefCell::new(HashMap::new()); static ACTIVE: Cell<bool> = Cell::new(false);
        /// a loom mutex created by the model's first thread before anything is spawned: the creator of a lazily created
        /// primitive holds it while creating, and every other thread passes through it once before its first use of that
        /// primitive, so that the creation happens-before every use (as the initialisation of a static or the `new` of a
        /// shared object does in the real program) - without it loom reports the first use from another thread as racing
        /// with the creation
        static GATE: RefCell<Option<Rc<loom::sync::Mutex<()>>>> = RefCell::new(None); }
    extern "C" { static __data_start: u8; static _end: u8; }
    fn is_static(addr: usize) -> bool { unsafe { addr >= &__data_start as *const u8 as usize && addr < &_end as *const u8 as usize } }
    /// to be called at the start of every loom execution, on the model's first thread
    pub fn new_execution() {
        // 1. forget everything that is not a static (it belonged to the previous execution; its memory may be gone)
        let droppers: ::std::vec::Vec<(usize, unsafe fn(usize))> = REG.with(|r| { let mut r = r.borrow_mut(); r.retain(|addr, _| is_static(*addr)); for e in r.values_mut() { e.prim = None; e.joined.clear(); } r.values().filter_map(|e| e.dropper).collect() });
        // 2. drop what the statics own now (no registry borrow is held: a value may own further registered objects) ...
        for (addr, f) in droppers { unsafe { f(addr) } }
        // 3. ... and put their initial bytes back (const-evaluated initial values own nothing)
        REG.with(|r| for (addr, e) in r.borrow_mut().iter_mut() { unsafe { ::std::ptr::copy_nonoverlapping(e.snapshot.as_ptr(), *addr as *mut u8, e.size) }; });
        GATE.with(|g| *g.borrow_mut() = Some(Rc::new(loom::sync::Mutex::new(()))));
        ACTIVE.with(|a| a.set(true));
    }
    /// to be called when an execution is over (loom objects must not be touched outside one)
    pub fn end_execution() { ACTIVE.with(|a| a.set(false)); REG.with(|r| for e in r.borrow_mut().values_mut() { e.prim = None; e.joined.clear(); }); GATE.with(|g| *g.borrow_mut() = None); }
    pub fn active() -> bool { ACTIVE.with(|a| a.get()) }
    fn me() -> ::std::string::String { ::std::format!("{:?}", loom::thread::current().id()) }
    /// the loom primitive of the object at `addr` (created on first use in this execution); None outside an execution
    pub fn prim<P: 'static>(addr: usize, size: usize, make: impl FnOnce() -> P) -> Option<Rc<P>> { prim_owning(addr, size, None, make) }
    /// # Safety of the dropper: it is called with the given address while no thread runs, before the object's bytes are reset
    pub unsafe fn drop_at<T>(addr: usize) { ::std::ptr::drop_in_place(addr as *mut T) }
    pub fn prim_owning<P: 'static>(addr: usize, size: usize, dropper: Option<(usize, unsafe fn(usize))>, make: impl FnOnce() -> P) -> Option<Rc<P>> {
        if !active() { return None; }
        let me = me();
        let existing = REG.with(|r| r.borrow().get(&addr).and_then(|e| e.prim.clone().map(|p| (p, e.joined.iter().any(|t| *t == me)))));
        if let Some((p, joined)) = existing { if let Ok(p) = p.downcast::<P>() {
            if !joined { // first use by this thread: pass through the gate once (no registry borrow is held across it)
                let gate = GATE.with(|g| g.borrow().clone()); if let Some(g) = gate { drop(g.lock().unwrap()); }
                REG.with(|r| if let Some(e) = r.borrow_mut().get_mut(&addr) { e.joined.push(me); }); }
            return Some(p); } }
        let gate = GATE.with(|g| g.borrow().clone());
        let guard = gate.as_ref().map(|g| g.lock().unwrap());
        // another thread may have created it while this one waited at the gate
        let raced = REG.with(|r| r.borrow().get(&addr).and_then(|e| e.prim.clone()));
        if let Some(p) = raced { if let Ok(p) = p.downcast::<P>() { REG.with(|r| if let Some(e) = r.borrow_mut().get_mut(&addr) { e.joined.push(me); }); drop(guard); return Some(p); } }
        let p: Rc<P> = Rc::new(make());
        REG.with(|r| { let mut r = r.borrow_mut();
            let e = r.entry(addr).or_insert_with(|| Entry { size, snapshot: unsafe { ::std::slice::from_raw_parts(addr as *const u8, size) }.to_vec().into_boxed_slice(), prim: None, joined: ::std::vec::Vec::new(), dropper: None });
            if e.dropper.is_none() { e.dropper = dropper; }
            e.prim = Some(p.clone() as Rc<dyn Any>); e.joined.clear(); e.joined.push(me); });
        drop(guard);
        Some(p)
    }
    /// records the initial bytes of a static region that has no primitive of its own (reset with the others)
    pub fn snapshot(addr: usize, size: usize) {
        if !active() || !is_static(addr) { return; }
        REG.with(|r| { r.borrow_mut().entry(addr).or_insert_with(|| Entry { size, snapshot: unsafe { ::std::slice::from_raw_parts(addr as *const u8, size) }.to_vec().into_boxed_slice(), prim: None, joined: ::std::vec::Vec::new(), dropper: None }); });
    }
    pub fn unregister(addr: usize) { let _ = REG.try_with(|r| { if let Ok(mut r) = r.try_borrow_mut() { r.remove(&addr); } }); }
}
pub mod sync {
    pub use ::std::sync::{LockResult, PoisonError, TryLockError, TryLockResult, Weak};
    pub use self::once_lock::OnceLock;
    pub use self::locks::{Condvar, LazyLock, Mutex, MutexGuard, Once, RwLock, RwLockReadGuard, RwLockWriteGuard};
    pub use loom::sync::Arc;
    pub use loom::sync::WaitTimeoutResult;
    pub mod atomic {
        //! atomics with `const fn new` whose operations are loom's (see `rt`)
        pub use loom::sync::atomic::{fence, AtomicPtr, Ordering};
        pub use ::std::sync::atomic::compiler_fence;
        use ::std::cell::UnsafeCell;
        macro_rules! atomic_common { ($name:ident, $t:ty, $loom:ty) => {
            pub struct $name { v: UnsafeCell<$t> }
            unsafe impl Sync for $name {} unsafe impl Send for $name {}
            impl ::std::panic::RefUnwindSafe for $name {}
            impl $name {
                pub const fn new(v: $t) -> Self { $name { v: UnsafeCell::new(v) } }
                fn p(&self) -> Option<::std::rc::Rc<$loom>> { let init = unsafe { *self.v.get() }; crate::rt::prim(self as *const _ as usize, ::std::mem::size_of::<Self>(), || <$loom>::new(init)) }
                pub fn load(&self, o: Ordering) -> $t { match self.p() { Some(p) => p.load(o), None => unsafe { *self.v.get() } } }
                pub fn store(&self, val: $t, o: Ordering) { match self.p() { Some(p) => p.store(val, o), None => unsafe { *self.v.get() = val } } }
                pub fn swap(&self, val: $t, o: Ordering) -> $t { match self.p() { Some(p) => p.swap(val, o), None => unsafe { ::std::mem::replace(&mut *self.v.get(), val) } } }
                pub fn compare_exchange(&self, cur: $t, new: $t, s: Ordering, f: Ordering) -> Result<$t, $t> { match self.p() { Some(p) => p.compare_exchange(cur, new, s, f), None => unsafe { let x = &mut *self.v.get(); if *x == cur { *x = new; Ok(cur) } else { Err(*x) } } } }
                pub fn compare_exchange_weak(&self, cur: $t, new: $t, s: Ordering, f: Ordering) -> Result<$t, $t> { match self.p() { Some(p) => p.compare_exchange_weak(cur, new, s, f), None => self.compare_exchange(cur, new, s, f) } }
                pub fn fetch_update<F: FnMut($t) -> Option<$t>>(&self, s: Ordering, f: Ordering, mut g: F) -> Result<$t, $t> { match self.p() { Some(p) => p.fetch_update(s, f, g), None => unsafe { let x = &mut *self.v.get(); match g(*x) { Some(n) => { let old = *x; *x = n; Ok(old) } None => Err(*x) } } } }
                fn sync_back(&mut self) { if let Some(p) = self.p() { let v = unsafe { p.unsync_load() }; *self.v.get_mut() = v; crate::rt::unregister(self as *const _ as usize); } }
                pub fn get_mut(&mut self) -> &mut $t { self.sync_back(); self.v.get_mut() }
                pub fn into_inner(mut self) -> $t { self.sync_back(); *self.v.get_mut() }
            }
            impl Drop for $name { fn drop(&mut self) { crate::rt::unregister(self as *const _ as usize); } }
            impl Default for $name { fn default() -> Self { Self::new(Default::default()) } }
            impl From<$t> for $name { fn from(v: $t) -> Self { Self::new(v) } }
            impl ::std::fmt::Debug for $name { fn fmt(&self, f: &mut ::std::fmt::Formatter<'_>) -> ::std::fmt::Result { f.write_str(stringify!($name)) } }
        } }
        macro_rules! atomic_int { ($name:ident, $t:ty) => {
            atomic_common!($name, $t, loom::sync::atomic::$name);
            impl $name {
                pub fn fetch_add(&self, val: $t, o: Ordering) -> $t { match self.p() { Some(p) => p.fetch_add(val, o), None => unsafe { let x = &mut *self.v.get(); let old = *x; *x = old.wrapping_add(val); old } } }
                pub fn fetch_sub(&self, val: $t, o: Ordering) -> $t { match self.p() { Some(p) => p.fetch_sub(val, o), None => unsafe { let x = &mut *self.v.get(); let old = *x; *x = old.wrapping_sub(val); old } } }
                pub fn fetch_and(&self, val: $t, o: Ordering) -> $t { match self.p() { Some(p) => p.fetch_and(val, o), None => unsafe { let x = &mut *self.v.get(); let old = *x; *x = old & val; old } } }
                pub fn fetch_nand(&self, val: $t, o: Ordering) -> $t { match self.p() { Some(p) => p.fetch_nand(val, o), None => unsafe { let x = &mut *self.v.get(); let old = *x; *x = !(old & val); old } } }
                pub fn fetch_or(&self, val: $t, o: Ordering) -> $t { match self.p() { Some(p) => p.fetch_or(val, o), None => unsafe { let x = &mut *self.v.get(); let old = *x; *x = old | val; old } } }
                pub fn fetch_xor(&self, val: $t, o: Ordering) -> $t { match self.p() { Some(p) => p.fetch_xor(val, o), None => unsafe { let x = &mut *self.v.get(); let old = *x; *x = old ^ val; old } } }
                pub fn fetch_max(&self, val: $t, o: Ordering) -> $t { match self.p() { Some(p) => p.fetch_max(val, o), None => unsafe { let x = &mut *self.v.get(); let old = *x; *x = old.max(val); old } } }
                pub fn fetch_min(&self, val: $t, o: Ordering) -> $t { match self.p() { Some(p) => p.fetch_min(val, o), None => unsafe { let x = &mut *self.v.get(); let old = *x; *x = old.min(val); old } } }
            }
        } }
        atomic_int!(AtomicU8, u8); atomic_int!(AtomicU16, u16); atomic_int!(AtomicU32, u32); atomic_int!(AtomicU64, u64); atomic_int!(AtomicUsize, usize);
        atomic_int!(AtomicI8, i8); atomic_int!(AtomicI16, i16); atomic_int!(AtomicI32, i32); atomic_int!(AtomicI64, i64); atomic_int!(AtomicIsize, isize);
        atomic_common!(AtomicBool, bool, loom::sync::atomic::AtomicBool);
        impl AtomicBool {
            pub fn fetch_and(&self, val: bool, o: Ordering) -> bool { match self.p() { Some(p) => p.fetch_and(val, o), None => unsafe { let x = &mut *self.v.get(); let old = *x; *x = old & val; old } } }
            pub fn fetch_nand(&self, val: bool, o: Ordering) -> bool { match self.p() { Some(p) => p.fetch_nand(val, o), None => unsafe { let x = &mut *self.v.get(); let old = *x; *x = !(old & val); old } } }
            pub fn fetch_or(&self, val: bool, o: Ordering) -> bool { match self.p() { Some(p) => p.fetch_or(val, o), None => unsafe { let x = &mut *self.v.get(); let old = *x; *x = old | val; old } } }
            pub fn fetch_xor(&self, val: bool, o: Ordering) -> bool { match self.p() { Some(p) => p.fetch_xor(val, o), None => unsafe { let x = &mut *self.v.get(); let old = *x; *x = old ^ val; old } } }
        }
    }
    pub mod locks {
        //! Mutex / RwLock / Condvar / Once / LazyLock with `const fn new`: plain storage plus a lazily created loom primitive
        use ::std::cell::{Cell, UnsafeCell};
        use ::std::ops::{Deref, DerefMut};
        use ::std::rc::Rc;
        use ::std::sync::{LockResult, TryLockError, TryLockResult};
        type LG = loom::sync::MutexGuard<'static, ()>;
        pub struct Mutex<T> { data: UnsafeCell<T> }
        unsafe impl<T: Send> Send for Mutex<T> {} unsafe impl<T: Send> Sync for Mutex<T> {}
        impl<T> ::std::panic::UnwindSafe for Mutex<T> {} impl<T> ::std::panic::RefUnwindSafe for Mutex<T> {}
        // field order = drop order: the loom guard goes before the primitive it borrows from
        pub struct MutexGuard<'a, T> { lock: &'a Mutex<T>, g: Option<LG>, p: Option<Rc<loom::sync::Mutex<()>>> }
        impl<T> Mutex<T> {
            pub const fn new(t: T) -> Self { Mutex { data: UnsafeCell::new(t) } }
            fn p(&self) -> Option<Rc<loom::sync::Mutex<()>>> { crate::rt::prim_owning(self as *const _ as usize, ::std::mem::size_of::<Self>(), Some((self.data.get() as usize, crate::rt::drop_at::<T> as unsafe fn(usize))), || loom::sync::Mutex::new(())) }
            pub fn lock(&self) -> LockResult<MutexGuard<'_, T>> { let p = self.p(); let g = p.as_ref().map(|p| unsafe { ::std::mem::transmute::<loom::sync::MutexGuard<'_, ()>, LG>(p.lock().unwrap()) }); Ok(MutexGuard { lock: self, g, p }) }
            pub fn try_lock(&self) -> TryLockResult<MutexGuard<'_, T>> { let p = self.p(); let g = match p.as_ref() { Some(p) => match p.try_lock() { Ok(g) => Some(unsafe { ::std::mem::transmute::<loom::sync::MutexGuard<'_, ()>, LG>(g) }), Err(_) => return Err(TryLockError::WouldBlock) }, None => None }; Ok(MutexGuard { lock: self, g, p }) }
            pub fn is_poisoned(&self) -> bool { false }
            pub fn clear_poison(&self) {}
            pub fn get_mut(&mut self) -> LockResult<&mut T> { Ok(self.data.get_mut()) }
            pub fn into_inner(self) -> LockResult<T> { crate::rt::unregister(&self as *const _ as usize); let me = ::std::mem::ManuallyDrop::new(self); Ok(unsafe { ::std::ptr::read(me.data.get()) }) }
        }
        impl<T> Drop for Mutex<T> { fn drop(&mut self) { crate::rt::unregister(self as *const _ as usize); } }
        impl<T: Default> Default for Mutex<T> { fn default() -> Self { Mutex::new(T::default()) } }
        impl<T> From<T> for Mutex<T> { fn from(t: T) -> Self { Mutex::new(t) } }
        impl<T> ::std::fmt::Debug for Mutex<T> { fn fmt(&self, f: &mut ::std::fmt::Formatter<'_>) -> ::std::fmt::Result { f.write_str("Mutex { .. }") } }
        impl<T> Deref for MutexGuard<'_, T> { type Target = T; fn deref(&self) -> &T { unsafe { &*self.lock.data.get() } } }
        impl<T> DerefMut for MutexGuard<'_, T> { fn deref_mut(&mut self) -> &mut T { unsafe { &mut *self.lock.data.get() } } }
        impl<T: ::std::fmt::Debug> ::std::fmt::Debug for MutexGuard<'_, T> { fn fmt(&self, f: &mut ::std::fmt::Formatter<'_>) -> ::std::fmt::Result { (**self).fmt(f) } }

        pub struct Condvar { _pad: u8 }
        impl Condvar {
            pub const fn new() -> Self { Condvar { _pad: 0 } }
            fn p(&self) -> Option<Rc<loom::sync::Condvar>> { crate::rt::prim(self as *const _ as usize, ::std::mem::size_of::<Self>(), loom::sync::Condvar::new) }
            pub fn wait<'a, T>(&self, guard: MutexGuard<'a, T>) -> LockResult<MutexGuard<'a, T>> {
                let MutexGuard { lock, g, p } = guard;
                let g = match (self.p(), g) { (Some(cv), Some(g)) => Some(cv.wait(g).unwrap()), (_, g) => g };
                Ok(MutexGuard { lock, g, p })
            }
            pub fn wait_while<'a, T, F: FnMut(&mut T) -> bool>(&self, mut guard: MutexGuard<'a, T>, mut cond: F) -> LockResult<MutexGuard<'a, T>> { while cond(&mut *guard) { guard = self.wait(guard)?; } Ok(guard) }
            pub fn wait_timeout<'a, T>(&self, guard: MutexGuard<'a, T>, dur: ::std::time::Duration) -> LockResult<(MutexGuard<'a, T>, loom::sync::WaitTimeoutResult)> {
                let MutexGuard { lock, g, p } = guard;
                match (self.p(), g) { (Some(cv), Some(g)) => { let (g, r) = cv.wait_timeout(g, dur).unwrap(); Ok((MutexGuard { lock, g: Some(g), p }, r)) }
                    _ => panic!("Condvar::wait_timeout outside a loom execution") }
            }
            pub fn notify_one(&self) { if let Some(cv) = self.p() { cv.notify_one() } }
            pub fn notify_all(&self) { if let Some(cv) = self.p() { cv.notify_all() } }
        }
        impl Drop for Condvar { fn drop(&mut self) { crate::rt::unregister(self as *const _ as usize); } }
        impl Default for Condvar { fn default() -> Self { Condvar::new() } }
        impl ::std::fmt::Debug for Condvar { fn fmt(&self, f: &mut ::std::fmt::Formatter<'_>) -> ::std::fmt::Result { f.write_str("Condvar { .. }") } }

        type RG = loom::sync::RwLockReadGuard<'static, ()>; type WG = loom::sync::RwLockWriteGuard<'static, ()>;
        pub struct RwLock<T> { data: UnsafeCell<T> }
        unsafe impl<T: Send> Send for RwLock<T> {} unsafe impl<T: Send + Sync> Sync for RwLock<T> {}
        impl<T> ::std::panic::UnwindSafe for RwLock<T> {} impl<T> ::std::panic::RefUnwindSafe for RwLock<T> {}
        pub struct RwLockReadGuard<'a, T> { lock: &'a RwLock<T>, _g: Option<RG>, _p: Option<Rc<loom::sync::RwLock<()>>> }
        pub struct RwLockWriteGuard<'a, T> { lock: &'a RwLock<T>, _g: Option<WG>, _p: Option<Rc<loom::sync::RwLock<()>>> }
        impl<T> RwLock<T> {
            pub const fn new(t: T) -> Self { RwLock { data: UnsafeCell::new(t) } }
            fn p(&self) -> Option<Rc<loom::sync::RwLock<()>>> { crate::rt::prim_owning(self as *const _ as usize, ::std::mem::size_of::<Self>(), Some((self.data.get() as usize, crate::rt::drop_at::<T> as unsafe fn(usize))), || loom::sync::RwLock::new(())) }
            pub fn read(&self) -> LockResult<RwLockReadGuard<'_, T>> { let p = self.p(); let g = p.as_ref().map(|p| unsafe { ::std::mem::transmute::<loom::sync::RwLockReadGuard<'_, ()>, RG>(p.read().unwrap()) }); Ok(RwLockReadGuard { lock: self, _g: g, _p: p }) }
            pub fn write(&self) -> LockResult<RwLockWriteGuard<'_, T>> { let p = self.p(); let g = p.as_ref().map(|p| unsafe { ::std::mem::transmute::<loom::sync::RwLockWriteGuard<'_, ()>, WG>(p.write().unwrap()) }); Ok(RwLockWriteGuard { lock: self, _g: g, _p: p }) }
            pub fn try_read(&self) -> TryLockResult<RwLockReadGuard<'_, T>> { let p = self.p(); let g = match p.as_ref() { Some(p) => match p.try_read() { Ok(g) => Some(unsafe { ::std::mem::transmute::<loom::sync::RwLockReadGuard<'_, ()>, RG>(g) }), Err(_) => return Err(TryLockError::WouldBlock) }, None => None }; Ok(RwLockReadGuard { lock: self, _g: g, _p: p }) }
            pub fn try_write(&self) -> TryLockResult<RwLockWriteGuard<'_, T>> { let p = self.p(); let g = match p.as_ref() { Some(p) => match p.try_write() { Ok(g) => Some(unsafe { ::std::mem::transmute::<loom::sync::RwLockWriteGuard<'_, ()>, WG>(g) }), Err(_) => return Err(TryLockError::WouldBlock) }, None => None }; Ok(RwLockWriteGuard { lock: self, _g: g, _p: p }) }
            pub fn is_poisoned(&self) -> bool { false }
            pub fn get_mut(&mut self) -> LockResult<&mut T> { Ok(self.data.get_mut()) }
            pub fn into_inner(self) -> LockResult<T> { crate::rt::unregister(&self as *const _ as usize); let me = ::std::mem::ManuallyDrop::new(self); Ok(unsafe { ::std::ptr::read(me.data.get()) }) }
        }
        impl<T> Drop for RwLock<T> { fn drop(&mut self) { crate::rt::unregister(self as *const _ as usize); } }
        impl<T: Default> Default for RwLock<T> { fn default() -> Self { RwLock::new(T::default()) } }
        impl<T> From<T> for RwLock<T> { fn from(t: T) -> Self { RwLock::new(t) } }
        impl<T> ::std::fmt::Debug for RwLock<T> { fn fmt(&self, f: &mut ::std::fmt::Formatter<'_>) -> ::std::fmt::Result { f.write_str("RwLock { .. }") } }
        impl<T> Deref for RwLockReadGuard<'_, T> { type Target = T; fn deref(&self) -> &T { unsafe { &*self.lock.data.get() } } }
        impl<T> Deref for RwLockWriteGuard<'_, T> { type Target = T; fn deref(&self) -> &T { unsafe { &*self.lock.data.get() } } }
        impl<T> DerefMut for RwLockWriteGuard<'_, T> { fn deref_mut(&mut self) -> &mut T { unsafe { &mut *self.lock.data.get() } } }

        /// std::sync::Once on top of OnceLock
        pub struct Once { cell: super::once_lock::OnceLock<()> }
        impl Once {
            pub const fn new() -> Self { Once { cell: super::once_lock::OnceLock::new() } }
            pub fn call_once<F: FnOnce()>(&self, f: F) { self.cell.get_or_init(f); }
            pub fn is_completed(&self) -> bool { self.cell.get().is_some() }
        }
        /// std::sync::LazyLock on top of OnceLock
        pub struct LazyLock<T, F = fn() -> T> { cell: super::once_lock::OnceLock<T>, init: Cell<Option<F>> }
        unsafe impl<T: Sync + Send, F: Send> Sync for LazyLock<T, F> {}
        impl<T, F: FnOnce() -> T> LazyLock<T, F> {
            pub const fn new(f: F) -> Self { LazyLock { cell: super::once_lock::OnceLock::new(), init: Cell::new(Some(f)) } }
            pub fn force(this: &Self) -> &T {
                // the initialiser is part of the static's initial state: snapshot the whole object before it is taken
                crate::rt::snapshot(this as *const Self as usize, ::std::mem::size_of::<Self>());
                this.cell.get_or_init(|| (this.init.take().expect("LazyLock initialiser already taken"))())
            }
        }
        impl<T, F: FnOnce() -> T> Deref for LazyLock<T, F> { type Target = T; fn deref(&self) -> &T { LazyLock::force(self) } }
    }
    /// OnceLock with `const fn new`: plain storage; initialisation runs under a loom mutex (other callers block, as with
    /// std), every `get` is a scheduling point. Outside an execution it is unsynchronised single-threaded behaviour.
    pub mod once_lock {
        use ::std::cell::UnsafeCell;
        /// kept for harnesses written against the earlier interface
        pub fn new_execution() { crate::rt::new_execution() }
        pub struct OnceLock<T> { v: UnsafeCell<Option<T>> }
        unsafe impl<T: Send + Sync> Sync for OnceLock<T> {} unsafe impl<T: Send> Send for OnceLock<T> {}
        impl<T> ::std::panic::UnwindSafe for OnceLock<T> {} impl<T> ::std::panic::RefUnwindSafe for OnceLock<T> {}
        impl<T> OnceLock<T> {
            pub const fn new() -> OnceLock<T> { OnceLock { v: UnsafeCell::new(None) } }
            fn p(&self) -> Option<::std::rc::Rc<loom::sync::Mutex<()>>> { crate::rt::prim_owning(self as *const _ as usize, ::std::mem::size_of::<Self>(), Some((self.v.get() as usize, crate::rt::drop_at::<Option<T>> as unsafe fn(usize))), || loom::sync::Mutex::new(())) }
            pub fn get(&self) -> Option<&T> { let p = self.p(); let _g = p.as_ref().map(|p| p.lock().unwrap()); unsafe { (*self.v.get()).as_ref() } }
            pub fn get_mut(&mut self) -> Option<&mut T> { self.v.get_mut().as_mut() }
            pub fn set(&self, value: T) -> Result<(), T> { let p = self.p(); let _g = p.as_ref().map(|p| p.lock().unwrap()); let slot = unsafe { &mut *self.v.get() }; if slot.is_some() { Err(value) } else { *slot = Some(value); Ok(()) } }
            pub fn get_or_init<F: FnOnce() -> T>(&self, f: F) -> &T {
                let p = self.p(); let _g = p.as_ref().map(|p| p.lock().unwrap());
                if unsafe { (*self.v.get()).is_none() } { let val = f(); unsafe { *self.v.get() = Some(val); } }
                unsafe { (*self.v.get()).as_ref().unwrap() }
            }
            pub fn into_inner(self) -> Option<T> { crate::rt::unregister(&self as *const _ as usize); let me = ::std::mem::ManuallyDrop::new(self); unsafe { ::std::ptr::read(me.v.get()) } }
            pub fn take(&mut self) -> Option<T> { self.v.get_mut().take() }
        }
        impl<T> Drop for OnceLock<T> { fn drop(&mut self) { crate::rt::unregister(self as *const _ as usize); } }
        impl<T> Default for OnceLock<T> { fn default() -> Self { Self::new() } }
        impl<T> From<T> for OnceLock<T> { fn from(t: T) -> Self { OnceLock { v: UnsafeCell::new(Some(t)) } } }
        impl<T: ::std::fmt::Debug> ::std::fmt::Debug for OnceLock<T> { fn fmt(&self, f: &mut ::std::fmt::Formatter<'_>) -> ::std::fmt::Result { f.write_str("OnceLock { .. }") } }
    }
    /// An unbounded channel with std's disconnect semantics, written on loom's Mutex and Condvar.
    /// (loom's own mpsc stub has no disconnection and aborts when a message is left in the queue.)
    pub mod mpsc {
        use loom::sync::{Condvar, Mutex};
        use ::std::collections::VecDeque;
        use ::std::sync::Arc as RealArc;
        pub use ::std::sync::mpsc::{RecvError, SendError, TryRecvError};
        struct State<T> { queue: VecDeque<T>, senders: usize, receiver: bool }
        struct Inner<T> { st: Mutex<State<T>>, cv: Condvar }
        pub struct Sender<T> { inner: RealArc<Inner<T>> }
        pub struct Receiver<T> { inner: RealArc<Inner<T>> }
        pub fn channel<T>() -> (Sender<T>, Receiver<T>) {
            let inner = RealArc::new(Inner { st: Mutex::new(State { queue: VecDeque::new(), senders: 1, receiver: true }), cv: Condvar::new() });
            (Sender { inner: inner.clone() }, Receiver { inner })
        }
        ::std::thread_local! {
            /// harness hook: describes a message as it is sent, so that "whichever worker finishes first" is observable
            pub static SEND_HOOK: ::std::cell::Cell<Option<fn(&dyn ::std::any::Any) -> Option<::std::string::String>>> = ::std::cell::Cell::new(None);
            pub static SEND_LOG: ::std::cell::RefCell<::std::vec::Vec<::std::string::String>> = ::std::cell::RefCell::new(::std::vec::Vec::new());
        }
        impl<T: 'static> Sender<T> {
            pub fn send(&self, t: T) -> Result<(), SendError<T>> {
                let mut g = self.inner.st.lock().unwrap();
                // logged in queue order (under the channel lock), whether or not a receiver is left
                if let Some(h) = SEND_HOOK.with(|h| h.get()) { if let Some(d) = h(&t as &dyn ::std::any::Any) { SEND_LOG.with(|l| l.borrow_mut().push(d)); } }
                if !g.receiver { return Err(SendError(t)); }
                g.queue.push_back(t); drop(g); self.inner.cv.notify_one(); Ok(())
            }
        }
        impl<T> Clone for Sender<T> { fn clone(&self) -> Self { self.inner.st.lock().unwrap().senders += 1; Sender { inner: self.inner.clone() } } }
        impl<T> Drop for Sender<T> { fn drop(&mut self) { let mut g = self.inner.st.lock().unwrap(); g.senders -= 1; let last = g.senders == 0; drop(g); if last { self.inner.cv.notify_all(); } } }
        impl<T> Receiver<T> {
            pub fn recv(&self) -> Result<T, RecvError> {
                let mut g = self.inner.st.lock().unwrap();
                loop {
                    if let Some(t) = g.queue.pop_front() { return Ok(t); }
                    if g.senders == 0 { return Err(RecvError); }
                    g = self.inner.cv.wait(g).unwrap();
                }
            }
            pub fn try_recv(&self) -> Result<T, TryRecvError> {
                let mut g = self.inner.st.lock().unwrap();
                match g.queue.pop_front() { Some(t) => Ok(t), None => if g.senders == 0 { Err(TryRecvError::Disconnected) } else { Err(TryRecvError::Empty) } }
            }
        }
        impl<T> Drop for Receiver<T> { fn drop(&mut self) { let mut g = self.inner.st.lock().unwrap(); g.receiver = false; g.queue.clear(); } }
    }
}


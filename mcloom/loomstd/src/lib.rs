//! A crate whose library name is `std`: it re-exports the real standard library but maps `thread` and `sync`
//! to loom, so that source files compiled against it (the unmodified /repo/src/cmd/*.rs) are explored by loom's
//! scheduler. This is the conventional `cfg(loom)` switch, performed from outside the repository.
#![allow(ambiguous_glob_reexports, hidden_glob_reexports)]
pub use ::std::*;

/// escape hatch for harness code that needs the real library
pub mod real { pub use ::std::*; }

pub mod thread {
    //! loom threads, plus std's scoped-thread API and Builder written on top of `loom::thread::spawn`
    //! (loom 0.7 has no scoped threads): the closure's lifetime is erased and every scoped thread is joined before
    //! `scope` returns, which is exactly the guarantee std gives.
    pub use loom::thread::{current, park, spawn, yield_now, JoinHandle, Thread};
    use ::std::marker::PhantomData;
    use ::std::sync::{Arc as RealArc, Mutex as RealMutex};
    type Shared = RealArc<RealMutex<Option<loom::thread::JoinHandle<()>>>>;
    pub struct Scope<'scope, 'env: 'scope> { handles: RealMutex<::std::vec::Vec<Shared>>, _m: PhantomData<(&'scope mut &'scope (), &'env mut &'env ())> }
    pub struct ScopedJoinHandle<'scope, T> { handle: Shared, result: RealArc<RealMutex<Option<T>>>, _m: PhantomData<&'scope ()> }
    pub fn scope<'env, F, T>(f: F) -> T where F: for<'scope> FnOnce(&'scope Scope<'scope, 'env>) -> T {
        let scope = Scope { handles: RealMutex::new(::std::vec::Vec::new()), _m: PhantomData };
        let r = f(unsafe { &*(&scope as *const Scope<'_, 'env>) });
        loop { // join whatever has not been joined through its handle (the real lock is never held across the join)
            let next = scope.handles.lock().unwrap().pop();
            match next { None => break, Some(h) => { let jh = h.lock().unwrap().take(); if let Some(jh) = jh { jh.join().expect("a scoped thread panicked"); } } }
        }
        r
    }
    impl<'scope, 'env> Scope<'scope, 'env> {
        pub fn spawn<F, T>(&'scope self, f: F) -> ScopedJoinHandle<'scope, T> where F: FnOnce() -> T + Send + 'scope, T: Send + 'scope { self.spawn_named(None, f) }
        fn spawn_named<F, T>(&'scope self, name: Option<::std::string::String>, f: F) -> ScopedJoinHandle<'scope, T> where F: FnOnce() -> T + Send + 'scope, T: Send + 'scope {
            let result: RealArc<RealMutex<Option<T>>> = RealArc::new(RealMutex::new(None)); let r2 = result.clone();
            let job: ::std::boxed::Box<dyn FnOnce() + Send + 'scope> = ::std::boxed::Box::new(move || { let v = f(); *r2.lock().unwrap() = Some(v); });
            let job: ::std::boxed::Box<dyn FnOnce() + Send + 'static> = unsafe { ::std::mem::transmute(job) };
            let mut b = loom::thread::Builder::new(); if let Some(n) = name { b = b.name(n); }
            let jh = b.spawn(move || job()).expect("spawn");
            let shared: Shared = RealArc::new(RealMutex::new(Some(jh)));
            self.handles.lock().unwrap().push(shared.clone());
            ScopedJoinHandle { handle: shared, result, _m: PhantomData }
        }
    }
    impl<'scope, T> ScopedJoinHandle<'scope, T> {
        pub fn join(self) -> ::std::thread::Result<T> {
            let jh = self.handle.lock().unwrap().take();
            if let Some(jh) = jh { jh.join()?; }
            Ok(self.result.lock().unwrap().take().expect("scoped thread result"))
        }
        pub fn is_finished(&self) -> bool { self.result.lock().unwrap().is_some() }
    }
    /// std::thread::Builder with spawn_scoped
    #[derive(Default)]
    pub struct Builder { name: Option<::std::string::String>, stack: Option<usize> }
    impl Builder {
        pub fn new() -> Builder { Builder::default() }
        pub fn name(mut self, name: ::std::string::String) -> Builder { self.name = Some(name); self }
        pub fn stack_size(mut self, size: usize) -> Builder { self.stack = Some(size); self }
        pub fn spawn<F, T>(self, f: F) -> ::std::io::Result<JoinHandle<T>> where F: FnOnce() -> T + Send + 'static, T: Send + 'static { let mut b = loom::thread::Builder::new(); if let Some(n) = self.name { b = b.name(n); } b.spawn(f) }
        pub fn spawn_scoped<'scope, 'env, F, T>(self, scope: &'scope Scope<'scope, 'env>, f: F) -> ::std::io::Result<ScopedJoinHandle<'scope, T>> where F: FnOnce() -> T + Send + 'scope, T: Send + 'scope { Ok(scope.spawn_named(self.name, f)) }
    }
}
pub mod sync {
    pub use ::std::sync::{LockResult, Once, PoisonError, TryLockError, TryLockResult, Weak};
    pub use self::once_lock::OnceLock;
    pub use loom::sync::{Arc, Condvar, Mutex, MutexGuard, RwLock, RwLockReadGuard, RwLockWriteGuard};
    pub mod atomic { pub use loom::sync::atomic::*; }
    /// std's OnceLock with a loom scheduling point on every access. The storage is std's (so `new` stays `const`, which
    /// clap's generated statics need); the scheduling point is an operation on a loom atomic that the harness creates
    /// afresh for every execution (`new_execution`). Outside an execution it is plain std behaviour.
    pub mod once_lock {
        use ::std::cell::RefCell;
        use ::std::sync::Arc as RealArc;
        ::std::thread_local! { static POINT: RefCell<Option<RealArc<loom::sync::atomic::AtomicUsize>>> = RefCell::new(None); }
        pub fn new_execution() { POINT.with(|p| *p.borrow_mut() = Some(RealArc::new(loom::sync::atomic::AtomicUsize::new(0)))); }
        fn point() { let a = POINT.with(|p| p.borrow().clone()); if let Some(a) = a { a.fetch_add(1, loom::sync::atomic::Ordering::SeqCst); } }
        pub struct OnceLock<T>(::std::sync::OnceLock<T>);
        impl<T> OnceLock<T> {
            pub const fn new() -> OnceLock<T> { OnceLock(::std::sync::OnceLock::new()) }
            pub fn get(&self) -> Option<&T> { point(); self.0.get() }
            pub fn get_mut(&mut self) -> Option<&mut T> { self.0.get_mut() }
            pub fn set(&self, value: T) -> Result<(), T> { point(); self.0.set(value) }
            pub fn get_or_init<F: FnOnce() -> T>(&self, f: F) -> &T { point(); self.0.get_or_init(f) }
            pub fn into_inner(self) -> Option<T> { self.0.into_inner() }
            pub fn take(&mut self) -> Option<T> { self.0.take() }
        }
        impl<T> Default for OnceLock<T> { fn default() -> Self { Self::new() } }
        impl<T: ::std::fmt::Debug> ::std::fmt::Debug for OnceLock<T> { fn fmt(&self, f: &mut ::std::fmt::Formatter<'_>) -> ::std::fmt::Result { self.0.fmt(f) } }
    }
    /// An unbounded channel with std's disconnect semantics, written on loom's Mutex and Condvar.
    /// (loom's own mpsc stub has no disconnection and aborts when a message is left in the queue.)
    pub mod mpsc {
        use loom::sync::{Condvar, Mutex};
        use ::std::collections::VecDeque;
        use ::std::sync::Arc as RealArc;
        pub use ::std::sync::mpsc::{RecvError, SendError, TryRecvError};
        struct State<T> { queue: VecDeque<T>, senders: usize, receiver: bool }
        struct Inner<T> { st: Mutex<State<T>>, cv: Condvar }
        pub struct Sender<T> { inner: RealArc<Inner<T>> }
        pub struct Receiver<T> { inner: RealArc<Inner<T>> }
        pub fn channel<T>() -> (Sender<T>, Receiver<T>) {
            let inner = RealArc::new(Inner { st: Mutex::new(State { queue: VecDeque::new(), senders: 1, receiver: true }), cv: Condvar::new() });
            (Sender { inner: inner.clone() }, Receiver { inner })
        }
        ::std::thread_local! {
            /// harness hook: describes a message as it is sent, so that "whichever worker finishes first" is observable
            pub static SEND_HOOK: ::std::cell::Cell<Option<fn(&dyn ::std::any::Any) -> Option<::std::string::String>>> = ::std::cell::Cell::new(None);
            pub static SEND_LOG: ::std::cell::RefCell<::std::vec::Vec<::std::string::String>> = ::std::cell::RefCell::new(::std::vec::Vec::new());
        }
        impl<T: 'static> Sender<T> {
            pub fn send(&self, t: T) -> Result<(), SendError<T>> {
                let mut g = self.inner.st.lock().unwrap();
                // logged in queue order (under the channel lock), whether or not a receiver is left
                if let Some(h) = SEND_HOOK.with(|h| h.get()) { if let Some(d) = h(&t as &dyn ::std::any::Any) { SEND_LOG.with(|l| l.borrow_mut().push(d)); } }
                if !g.receiver { return Err(SendError(t)); }
                g.queue.push_back(t); drop(g); self.inner.cv.notify_one(); Ok(())
            }
        }
        impl<T> Clone for Sender<T> { fn clone(&self) -> Self { self.inner.st.lock().unwrap().senders += 1; Sender { inner: self.inner.clone() } } }
        impl<T> Drop for Sender<T> { fn drop(&mut self) { let mut g = self.inner.st.lock().unwrap(); g.senders -= 1; let last = g.senders == 0; drop(g); if last { self.inner.cv.notify_all(); } } }
        impl<T> Receiver<T> {
            pub fn recv(&self) -> Result<T, RecvError> {
                let mut g = self.inner.st.lock().unwrap();
                loop {
                    if let Some(t) = g.queue.pop_front() { return Ok(t); }
                    if g.senders == 0 { return Err(RecvError); }
                    g = self.inner.cv.wait(g).unwrap();
                }
            }
            pub fn try_recv(&self) -> Result<T, TryRecvError> {
                let mut g = self.inner.st.lock().unwrap();
                match g.queue.pop_front() { Some(t) => Ok(t), None => if g.senders == 0 { Err(TryRecvError::Disconnected) } else { Err(TryRecvError::Empty) } }
            }
        }
        impl<T> Drop for Receiver<T> { fn drop(&mut self) { let mut g = self.inner.st.lock().unwrap(); g.receiver = false; g.queue.clear(); } }
    }
}


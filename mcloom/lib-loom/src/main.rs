//! hdw-libloom: exhaustive schedule exploration (loom, DPOR with a preemption bound) of CONCURRENT CALLS INTO THE REAL
//! LIBRARY. The library sources of /repo are compiled unmodified (crate hdwallet-loomed, src -> /repo/src) against a
//! `std` whose thread / sync are loom's, so every lock, atomic, once-cell or channel the library uses is a scheduling
//! point, and statics are put back to their initial bytes before every execution (the first use of a lazily built global
//! is explored in every schedule). Each scenario runs 2-3 threads with 1-2 calls each whose arguments are chosen to
//! collide; the oracle for every call is the reference model's answer for that call's own arguments.
use refmodel::secp::{Curve, U256};
use refmodel::{bip32, bip39, eip712, eth, grammar::HARD, json::Class, json::J, nfkd, tx::Kind, txjson};
use std::cell::RefCell;
use std::collections::BTreeMap;
use std::io::Write as _;
use std::sync::atomic::{AtomicU64, Ordering};
use std::sync::{Arc, Mutex};

// ---- entropy source owned by the harness (Mnemonic::random) ----------------------------------------------------------
// Every loom thread is served from a byte stream of its own (distinct pseudo-random bytes, so a run of 16 bytes identifies
// its position), continuing across requests however many an implementation makes per generation; every request is a
// scheduling point (one operation on a loom atomic). A stream ends after STREAM_LEN bytes: the source then fails.
const STREAM_LEN: usize = 2048;
thread_local! {
    static POINT: RefCell<Option<Arc<loom::sync::atomic::AtomicUsize>>> = RefCell::new(None);
    static CURSORS: RefCell<std::collections::HashMap<String, usize>> = RefCell::new(std::collections::HashMap::new());
    static STREAM_IDS: RefCell<Vec<String>> = RefCell::new(Vec::new());
}
fn stream_of(k: usize) -> Vec<u8> { let mut x = 0x9E37_79B9_7F4A_7C15u64 ^ ((k as u64 + 1) << 32); (0..STREAM_LEN).map(|_| { x ^= x << 13; x ^= x >> 7; x ^= x << 17; (x >> 24) as u8 }).collect() }
extern "C" { fn __errno_location() -> *mut i32; fn syscall(num: i64, ...) -> i64; }
/// # Safety: called through the subject's FFI declaration with a valid buffer
#[no_mangle]
pub unsafe extern "C" fn getentropy(buf: *mut u8, len: usize) -> i32 {
    let point = POINT.with(|c| c.borrow().clone()); // no RefCell borrow of the harness is held across the scheduling point
    let Some(point) = point else { *__errno_location() = 5; return -1; };
    point.fetch_add(1, loom::sync::atomic::Ordering::SeqCst);
    let me = format!("{:?}", loom::thread::current().id());
    let k = STREAM_IDS.with(|s| { let mut s = s.borrow_mut(); match s.iter().position(|x| *x == me) { Some(k) => k, None => { s.push(me.clone()); s.len() - 1 } } });
    let pos = CURSORS.with(|c| *c.borrow().get(&me).unwrap_or(&0));
    if pos + len > STREAM_LEN { *__errno_location() = 5; return -1; }
    let st = stream_of(k); for i in 0..len { *buf.add(i) = st[pos + i]; }
    CURSORS.with(|c| { c.borrow_mut().insert(me, pos + len); });
    0
}
/// # Safety: called with a valid buffer
#[no_mangle]
pub unsafe extern "C" fn getrandom(buf: *mut u8, len: usize, flags: u32) -> isize {
    if flags & 0x5 != 0 || POINT.with(|c| c.borrow().is_none()) { return syscall(318, buf, len, flags) as isize; }
    if getentropy(buf, len) == 0 { len as isize } else { -1 }
}

// ---- operations --------------------------------------------------------------------------------------------------------
#[derive(Clone, Debug)]
enum Op {
    Parse { text: String, want: Option<String> },
    Seed { phrase: String, pass: String, want: Vec<u8> },
    Derive { seed: Vec<u8>, path: String, want: Option<[u8; 32]> },
    Sign { key: [u8; 32], digest: [u8; 32], want: String },
    Address { key: [u8; 32], want: String },
    Typed { json: String, want: Option<[u8; 32]> },
    Tx { json: String, key: [u8; 32], want: Vec<u8> },
    Random { words: usize },
    Message { bytes: Vec<u8>, want: [u8; 32] },
    PathText { text: String, want: Option<String> },
    SigText { text: String, want: Option<String> },
}
impl Op {
    fn label(&self) -> String {
        match self { Op::Parse { text, .. } => format!("parse '{}…'", &text[..text.len().min(24)]), Op::Seed { pass, phrase, .. } => format!("seed('{}…', {pass:?})", &phrase[..phrase.len().min(16)]), Op::Derive { path, seed, .. } => format!("derive(seed {}…, {path})", eth::hex(&seed[..4])),
            Op::Sign { key, digest, .. } => format!("sign(key {}…, digest {}…)", eth::hex(&key[..4]), eth::hex(&digest[..4])), Op::Address { key, .. } => format!("address(key {}…)", eth::hex(&key[..4])), Op::Typed { json, .. } => format!("typed data ({} bytes)", json.len()), Op::Tx { json, .. } => format!("transaction ({} bytes)", json.len()), Op::Random { words } => format!("random({words})"), Op::Message { bytes, .. } => format!("personal message ({} bytes)", bytes.len()), Op::PathText { text, .. } => format!("path '{text}'"), Op::SigText { text, .. } => format!("signature text '{}…'", &text[..text.len().min(12)]) }
    }
    /// runs the real library; Ok(outcome class) if it agrees with the reference, Err(description) otherwise
    fn run(&self) -> Result<String, String> {
        use hdwallet::{account::PrivateKey, hdk, mnemonic::Mnemonic, transaction::Transaction, typeddata::TypedData};
        match self {
            Op::Parse { text, want } => match (Mnemonic::from_phrase(text).ok().map(|m| m.to_phrase()), want) { (Some(g), Some(w)) if g == *w => Ok("accepted".into()), (None, None) => Ok("rejected".into()), (g, w) => Err(format!("parsing gives {g:?}, reference {w:?}")) },
            Op::Seed { phrase, pass, want } => match Mnemonic::from_phrase(phrase) { Err(e) => Err(format!("valid phrase rejected: {e}")), Ok(m) => { let s = m.seed(pass); if s[..] == want[..] { Ok("seed".into()) } else { Err(format!("seed {} instead of {}", eth::hex(&s[..]), eth::hex(want))) } } },
            Op::Derive { seed, path, want } => { let got = path.parse::<hdk::Path>().ok().and_then(|p| hdk::derive(seed, &p).ok()).map(|k| k.secret()); match (got, want) { (Some(g), Some(w)) if g == *w => Ok("key".into()), (None, None) => Ok("error".into()), (g, w) => Err(format!("derived {:?}, reference {:?}", g.map(|x| eth::hex(&x)), w.map(|x| eth::hex(&x)))) } }
            Op::Sign { key, digest, want } => { let s = PrivateKey::new(key).map_err(|e| format!("valid key rejected: {e}"))?.sign(ethdigest::Digest(*digest)); let t = s.to_string(); if t == *want { Ok("signature".into()) } else { Err(format!("signature {t} instead of {want}")) } }
            Op::Address { key, want } => { let a = PrivateKey::new(key).map_err(|e| format!("valid key rejected: {e}"))?.address().to_string(); if a == *want { Ok("address".into()) } else { Err(format!("address {a} instead of {want}")) } }
            Op::Typed { json, want } => match (serde_json::from_str::<TypedData>(json).ok().map(|t| t.signing_message().0), want) { (Some(g), Some(w)) if g == *w => Ok("digest".into()), (None, None) => Ok("refused".into()), (g, w) => Err(format!("typed-data digest {:?}, reference {:?}", g.map(|x| eth::hex(&x)), w.map(|x| eth::hex(&x)))) },
            Op::Tx { json, key, want } => { let tx = serde_json::from_str::<Transaction>(json).map_err(|e| format!("transaction rejected: {e}"))?; let k = PrivateKey::new(key).map_err(|e| format!("valid key rejected: {e}"))?; let enc = tx.encode(k.sign(tx.signing_message())); if enc == *want { Ok("encoded".into()) } else { Err(format!("signed transaction {} instead of {}", eth::hex(&enc), eth::hex(want))) } }
            Op::Message { bytes, want } => { let d = hdwallet::message::EthereumMessage(&bytes[..]).signing_message().0; if d == *want { Ok("digest".into()) } else { Err(format!("message digest {} instead of {}", eth::hex(&d), eth::hex(want))) } }
            Op::PathText { text, want } => match (text.parse::<hdk::Path>().ok().map(|p| p.to_string()), want) { (Some(g), Some(w)) if g == *w => Ok("path".into()), (None, None) => Ok("refused".into()), (g, w) => Err(format!("path text gives {g:?}, reference {w:?}")) },
            Op::SigText { text, want } => match (text.parse::<hdwallet::account::Signature>().ok().map(|x| x.to_string()), want) { (Some(g), Some(w)) if g == *w => Ok("signature".into()), (None, None) => Ok("refused".into()), (g, w) => Err(format!("signature text gives {g:?}, reference {w:?}")) },
            Op::Random { words } => { let r = Mnemonic::random(hdwallet::mnemonic::Language::English, *words); match r { Err(_) => Ok("error".into()), Ok(m) => Ok(format!("phrase:{}", m.to_phrase())) } }
        }
    }
}

#[derive(Clone)]
struct Scenario { name: &'static str, pid: &'static str, bound: usize, threads: Vec<Vec<Op>>, max_schedules: usize,
    /// calls made one after the other before the threads start (caches and lazily built tables are warm, lists are in some order)
    warmup: Vec<Op> }

fn scenarios(thorough: bool) -> Vec<Scenario> {
    let curve = Curve::new();
    let e2p = |b: u8, n: usize| bip39::entropy_to_phrase(&(0..n).map(|i| b.wrapping_mul(29).wrapping_add(i as u8 * 13)).collect::<Vec<u8>>());
    let (pa, pb, pc) = (e2p(1, 16), e2p(2, 16), e2p(3, 32));
    let bad = { let mut w: Vec<&str> = pa.split(' ').collect(); let last = w[11]; w[11] = if last == "abandon" { "zoo" } else { "abandon" }; let t = w.join(" "); if bip39::tokens_to_entropy(&t.split(' ').collect::<Vec<_>>()).is_ok() { format!("{pa} zoo") } else { t } };
    let parse = |t: &str| Op::Parse { text: t.to_string(), want: bip39::tokens_to_entropy(&t.split_whitespace().collect::<Vec<_>>()).ok().map(|_| t.split_whitespace().collect::<Vec<_>>().join(" ")) };
    let seed = |p: &str, pass: &str| Op::Seed { phrase: p.to_string(), pass: pass.to_string(), want: bip39::seed(p, nfkd::nfkd(pass)).to_vec() };
    let sd: Vec<Vec<u8>> = vec![bip39::seed(&pa, "").to_vec(), bip39::seed(&pb, "").to_vec()];
    let derive = |s: usize, path: &[u32]| Op::Derive { seed: sd[s].clone(), path: refmodel::grammar::path_text(path), want: bip32::derive(&curve, &sd[s], path).map(|x| x.k.to_be()) };
    let acct = |i: u32| vec![44 | HARD, 60 | HARD, HARD, 0, i];
    let keys: Vec<U256> = vec![U256::from_hex("4f3edf983ac636a65a842ce7c78d9aa706d3b113bce9c46f30d7d21715b23b1d"), U256::from_be(&[0x46; 32]), U256::ONE];
    let sign = |k: usize, d: u8| { let dg = [d; 32]; let (r, s, odd, _) = curve.sign_rfc6979(&keys[k], &dg); Op::Sign { key: keys[k].to_be(), digest: dg, want: eth::sig_text(&r, &s, odd) } };
    let addr = |k: usize| Op::Address { key: keys[k].to_be(), want: eth::eip55(&eth::address_of_secret(&curve, &keys[k])) };
    let sv = |v: &[(&str, &str)]| v.iter().map(|(a, b)| (a.to_string(), b.to_string())).collect::<Vec<_>>();
    let doc = |person_member: &str, name_value: J| eip712::Doc { types: vec![("EIP712Domain".into(), sv(&[("name", "string"), ("chainId", "uint256")])), ("Mail".into(), sv(&[("from", "Person"), ("n", "uint256")])), ("Person".into(), sv(&[("name", person_member)]))], primary: "Mail".into(),
        domain: J::obj(vec![("name", J::s("hdwallet")), ("chainId", J::n("1"))]), message: J::obj(vec![("from", J::obj(vec![("name", name_value)])), ("n", J::n("300"))]) };
    let typed = |d: &eip712::Doc| Op::Typed { json: d.to_json().to_text(), want: match eip712::evaluate(d).0 { Class::Accept(x) => Some(x.digest), _ => None } };
    let (d1, d2) = (doc("string", J::s("Cow")), doc("bytes", J::s("0x436f77")));
    let txop = |kind: Kind, k: usize| { let t = txjson::template(kind, true); let d = t.signing_hash(); let (r, s, odd, _) = curve.sign_rfc6979(&keys[k], &d); Op::Tx { json: txjson::tx_json(&t, txjson::Spell::Auto).to_text(), key: keys[k].to_be(), want: t.signed_payload(odd, &r.to_nat(), &s.to_nat()) } };
    let msg = |b: &[u8]| Op::Message { bytes: b.to_vec(), want: eth::eip191_digest(b) };
    let path = |t: &str| Op::PathText { text: t.to_string(), want: match refmodel::grammar::classify_path(t) { Class::Accept(p) => Some(refmodel::grammar::path_text(&p)), _ => None } };
    let sigt = |k: usize, d: u8, mangle: bool| { let (r, s2, odd, _) = curve.sign_rfc6979(&keys[k], &[d; 32]); let t = eth::sig_text(&r, &s2, odd); if mangle { Op::SigText { text: format!("{}1d", &t[..130]), want: None } } else { Op::SigText { text: t.clone(), want: Some(t) } } };
    let sigraw = |r: u64, s2: u64, v: u8| { let t = format!("0x{}{}{:02x}", U256::from_u64(r).to_hex64(), U256::from_u64(s2).to_hex64(), v); let ok = r != 0 && s2 != 0 && (v == 27 || v == 28); Op::SigText { text: t.clone(), want: if ok { Some(t) } else { None } } };
    let d3 = { let mut d = d1.clone(); d.types[0] = ("EIP712Domain".into(), sv(&[("chainId", "uint256"), ("name", "string")])); d }; // reordered domain type: refused
    let d4 = { let mut d = d1.clone(); d.types[1] = ("Mail".into(), sv(&[("from", "Person"), ("n", "uint8")])); d };                       // 300 out of range for uint8: refused
    let txal = |kind: Kind, k: usize, al: Vec<([u8; 20], Vec<[u8; 32]>)>| { let mut t = txjson::template(kind, true); t.access_list = al; let d = t.signing_hash(); let (r, s, odd, _) = curve.sign_rfc6979(&keys[k], &d); Op::Tx { json: txjson::tx_json(&t, txjson::Spell::Auto).to_text(), key: keys[k].to_be(), want: t.signed_payload(odd, &r.to_nat(), &s.to_nat()) } };
    let (lx, ly, lz) = (vec![([0xc1u8; 20], vec![[1u8; 32]])], vec![([0xc2u8; 20], vec![[2u8; 32], [3u8; 32]])], vec![([0xc3u8; 20], vec![])]);
    let dg = { let mut d = d1.clone(); d.domain = J::obj(vec![("name", J::s("hdwallet")), ("chainId", J::n("5"))]); d };   // same types, another chain
    let dh = { let mut d = d1.clone(); d.domain = J::obj(vec![("name", J::s("other")), ("chainId", J::n("1"))]); d };      // same types, another name
    // a document that declares 36 distinct member types (a bounded table of parsed types is flooded by one call)
    let dflood = { let tys: Vec<String> = (2..=32).map(|k| format!("uint{}", k * 8)).chain((2..=6).map(|k| format!("int{}", k * 8))).collect();
        let members: Vec<(String, String)> = tys.iter().enumerate().map(|(i, t)| (format!("m{i}"), t.clone())).collect();
        eip712::Doc { types: vec![("EIP712Domain".into(), sv(&[("name", "string"), ("chainId", "uint256")])), ("Mail".into(), members.clone())], primary: "Mail".into(), domain: J::obj(vec![("name", J::s("hdwallet")), ("chainId", J::n("1"))]), message: J::Obj(members.iter().map(|(n, _)| (n.clone(), J::n("300"))).collect()) } };
    let mut v = vec![
        // warm state first, then overlapping calls (a cache that is hit, re-ordered or re-keyed while another thread is between its look-up and its use)
        Scenario { name: "warm-parse-then-two-phrases-2t", pid: "C01", bound: 2, warmup: vec![parse(&pa), parse(&pc)], threads: vec![vec![parse(&pb), parse(&pa)], vec![parse(&pa), parse(&pb)]], max_schedules: 50_000 },
        Scenario { name: "seed-one-call-against-two-2t", pid: "C02", bound: 2, warmup: vec![], threads: vec![vec![seed(&pa, "TREZOR")], vec![seed(&pb, ""), seed(&pb, "TREZOR")]], max_schedules: 50_000 },
        Scenario { name: "warm-seed-then-other-words-2t", pid: "C02", bound: 2, warmup: vec![seed(&pa, ""), seed(&pb, "")], threads: vec![vec![seed(&pa, "TREZOR"), seed(&pa, "")], vec![seed(&pb, "TREZOR"), seed(&pb, "")]], max_schedules: 50_000 },
        Scenario { name: "warm-derive-then-siblings-2t", pid: "C03", bound: 2, warmup: vec![derive(0, &acct(0)), derive(0, &[44 | HARD, 60 | HARD, HARD, 1, 0])], threads: vec![vec![derive(0, &acct(1))], vec![derive(0, &acct(2))]], max_schedules: 50_000 },
        Scenario { name: "warm-derive-then-other-seed-2t", pid: "C03", bound: 2, warmup: vec![derive(0, &acct(0)), derive(1, &acct(0))], threads: vec![vec![derive(0, &acct(1)), derive(1, &acct(1))], vec![derive(1, &acct(2)), derive(0, &acct(2))]], max_schedules: 50_000 },
        Scenario { name: "warm-address-then-other-keys-2t", pid: "C04", bound: 2, warmup: vec![addr(0), addr(1)], threads: vec![vec![addr(0), addr(2)], vec![addr(2), addr(1)]], max_schedules: 50_000 },
        Scenario { name: "warm-sign-then-other-keys-2t", pid: "C05", bound: 2, warmup: vec![sign(0, 0x11), sign(1, 0x11)], threads: vec![vec![sign(1, 0x22), sign(0, 0x22)], vec![sign(2, 0x11), sign(1, 0x11)]], max_schedules: 50_000 },
        Scenario { name: "warm-access-list-then-another-2t", pid: "C06", bound: 2, warmup: vec![txal(Kind::Eip2930, 0, lx.clone()), txal(Kind::Eip2930, 0, lz.clone())], threads: vec![vec![txal(Kind::Eip2930, 0, lx.clone())], vec![txal(Kind::Eip1559, 1, ly.clone())]], max_schedules: 50_000 },
        Scenario { name: "warm-access-lists-two-each-2t", pid: "C07", bound: 2, warmup: vec![txal(Kind::Eip2930, 0, lx.clone()), txal(Kind::Eip2930, 0, ly.clone())], threads: vec![vec![txal(Kind::Eip1559, 0, lx.clone()), txal(Kind::Eip1559, 0, ly.clone())], vec![txal(Kind::Eip1559, 1, ly.clone()), txal(Kind::Eip1559, 1, lx.clone())]], max_schedules: 50_000 },
        Scenario { name: "warm-two-domains-then-the-first-again-2t", pid: "C08", bound: 2, warmup: vec![typed(&d1), typed(&dg)], threads: vec![vec![typed(&d1), typed(&dg)], vec![typed(&d1), typed(&dh)]], max_schedules: 50_000 },
        Scenario { name: "warm-typed-data-then-redefinition-2t", pid: "C08", bound: 2, warmup: vec![typed(&d1)], threads: vec![vec![typed(&d2), typed(&d1)], vec![typed(&d1), typed(&d2)]], max_schedules: 50_000 },
        Scenario { name: "warm-messages-then-the-first-again-2t", pid: "C10", bound: 2, warmup: vec![msg(b"a"), msg(b"ab")], threads: vec![vec![msg(b"a"), msg(b"abc")], vec![msg(b"ab"), msg(b"a")]], max_schedules: 50_000 },
        Scenario { name: "warm-paths-then-the-first-again-2t", pid: "C14", bound: 2, warmup: vec![path("m/44'/60'/0'/0/0"), path("m/44'/60'/0'/0/1")], threads: vec![vec![path("m/44'/60'/0'/0/0"), path("m/0")], vec![path("m/44'/60'/0'/0/1"), path("m/44'/60'/0'/0/0")]], max_schedules: 50_000 },
        // one call against the same call twice (X | Y, Y) and the same call twice against one call (X, X | Y), X and Y colliding: a slot that
        // is claimed at look-up and filled later ends up with one call's key and the other call's value, and the repeated call reads it
        Scenario { name: "one-parse-against-the-same-parse-twice-2t", pid: "C01", bound: 2, warmup: vec![], threads: vec![vec![parse(&pa)], vec![parse(&bad), parse(&bad)]], max_schedules: 50_000 },
        Scenario { name: "one-derive-against-the-same-derive-twice-2t", pid: "C03", bound: 2, warmup: vec![], threads: vec![vec![derive(0, &acct(0))], vec![derive(1, &acct(0)), derive(1, &acct(0))]], max_schedules: 50_000 },
        Scenario { name: "one-address-against-the-same-address-twice-2t", pid: "C04", bound: 2, warmup: vec![], threads: vec![vec![addr(0)], vec![addr(1), addr(1)]], max_schedules: 50_000 },
        Scenario { name: "one-signature-against-the-same-signature-twice-2t", pid: "C05", bound: 2, warmup: vec![], threads: vec![vec![sign(0, 0x11)], vec![sign(1, 0x11), sign(1, 0x11)]], max_schedules: 50_000 },
        Scenario { name: "same-signature-twice-against-another-digest-2t", pid: "C05", bound: 2, warmup: vec![], threads: vec![vec![sign(0, 0x11), sign(0, 0x11)], vec![sign(0, 0x51)]], max_schedules: 50_000 },
        Scenario { name: "one-transaction-against-the-same-transaction-twice-2t", pid: "C06", bound: 2, warmup: vec![], threads: vec![vec![txal(Kind::Eip2930, 0, lx.clone())], vec![txal(Kind::Eip2930, 0, ly.clone()), txal(Kind::Eip2930, 0, ly.clone())]], max_schedules: 50_000 },
        Scenario { name: "one-document-against-the-same-document-twice-2t", pid: "C08", bound: 2, warmup: vec![], threads: vec![vec![typed(&d1)], vec![typed(&d2), typed(&d2)]], max_schedules: 50_000 },
        Scenario { name: "valid-document-against-an-out-of-range-one-twice-2t", pid: "C09", bound: 2, warmup: vec![], threads: vec![vec![typed(&d1)], vec![typed(&d4), typed(&d4)]], max_schedules: 50_000 },
        Scenario { name: "out-of-range-twice-against-a-flood-of-types-2t", pid: "C09", bound: 2, warmup: vec![], threads: vec![vec![typed(&d4), typed(&d4)], vec![typed(&dflood)]], max_schedules: 50_000 },
        Scenario { name: "messages-of-colliding-lengths-2t", pid: "C10", bound: 2, warmup: vec![], threads: vec![vec![msg(&[b'x'; 7]), msg(&[b'x'; 7])], vec![msg(&[b'y'; 15])]], max_schedules: 50_000 },
        Scenario { name: "messages-of-colliding-lengths-three-calls-2t", pid: "C10", bound: 2, warmup: vec![], threads: vec![vec![msg(&[b'x'; 9])], vec![msg(&[b'y'; 73]), msg(&[b'y'; 73]), msg(&[b'x'; 9])]], max_schedules: 50_000 },
        Scenario { name: "one-path-against-the-same-path-twice-2t", pid: "C14", bound: 2, warmup: vec![], threads: vec![vec![path("m/44'/60'/0'/0/0")], vec![path("m/2147483648"), path("m/2147483648"), path("m/44'/60'/0'/0/1")]], max_schedules: 50_000 },
        Scenario { name: "well-formed-domain-against-an-ill-formed-one-twice-2t", pid: "C20", bound: 2, warmup: vec![], threads: vec![vec![typed(&d1)], vec![typed(&d3), typed(&d3)]], max_schedules: 50_000 },
        // texts that share a part (the same r with another s, the same r and s with the other v, the same r with s = 0): whatever a
        // table indexes or hashes a signature by, two of these collide
        Scenario { name: "signature-texts-sharing-r-2t", pid: "C15", bound: 2, warmup: vec![], threads: vec![vec![sigraw(1, 1, 27), sigraw(1, 2, 27)], vec![sigraw(1, 2, 27), sigraw(1, 0, 27), sigraw(1, 1, 28)]], max_schedules: 50_000 },
        Scenario { name: "warm-signature-texts-sharing-parts-2t", pid: "C15", bound: 2, warmup: vec![sigraw(1, 1, 27), sigraw(2, 1, 27)], threads: vec![vec![sigraw(1, 2, 27), sigraw(1, 1, 27)], vec![sigraw(2, 1, 28), sigraw(1, 0, 27), sigraw(2, 1, 27)]], max_schedules: 50_000 },
        Scenario { name: "warm-signature-texts-then-the-first-again-2t", pid: "C15", bound: 2, warmup: vec![sigt(0, 0x11, false), sigt(1, 0x22, false)], threads: vec![vec![sigt(0, 0x11, false), sigt(2, 0x11, false)], vec![sigt(1, 0x22, false), sigt(0, 0x11, false)]], max_schedules: 50_000 },
        Scenario { name: "personal-messages-2t", pid: "C10", bound: 2, threads: vec![vec![msg(b"a"), msg(&[b'a'; 137])], vec![msg(b"ab"), msg(b"a")]], max_schedules: 50_000, warmup: vec![] },
        Scenario { name: "path-texts-2t", pid: "C14", bound: 2, threads: vec![vec![path("m/44'/60'/0'/0/0"), path("m/2147483648")], vec![path("m/44'/60'/0'"), path("m/0")]], max_schedules: 50_000, warmup: vec![] },
        Scenario { name: "signature-texts-2t", pid: "C15", bound: 2, threads: vec![vec![sigt(0, 0x11, false), sigt(0, 0x11, true)], vec![sigt(1, 0x22, false), sigt(0, 0x11, false)]], max_schedules: 50_000, warmup: vec![] },
        Scenario { name: "typed-data-accept-and-refuse-2t", pid: "C09", bound: 2, threads: vec![vec![typed(&d1), typed(&d4)], vec![typed(&d4), typed(&d1)]], max_schedules: 50_000, warmup: vec![] },
        Scenario { name: "typed-data-domain-types-2t", pid: "C20", bound: 2, threads: vec![vec![typed(&d1), typed(&d3)], vec![typed(&d3), typed(&d1)]], max_schedules: 50_000, warmup: vec![] },
        Scenario { name: "transactions-same-document-two-keys-2t", pid: "C07", bound: 2, threads: vec![vec![txop(Kind::Eip2930, 0), txop(Kind::Legacy, 1)], vec![txop(Kind::Eip2930, 1), txop(Kind::Legacy, 0)]], max_schedules: 50_000, warmup: vec![] },
        Scenario { name: "first-use-of-the-word-list-2t", pid: "C01", bound: 3, threads: vec![vec![parse(&pa)], vec![parse(&pb)]], max_schedules: 50_000, warmup: vec![] },
        Scenario { name: "parse-valid-invalid-long-2t", pid: "C01", bound: 2, threads: vec![vec![parse(&pa), parse(&bad)], vec![parse(&pc), parse(&pa)]], max_schedules: 50_000, warmup: vec![] },
        Scenario { name: "seed-same-words-other-passphrase-2t", pid: "C02", bound: 2, threads: vec![vec![seed(&pa, "")], vec![seed(&pa, "TREZOR")]], max_schedules: 50_000, warmup: vec![] },
        Scenario { name: "seed-other-words-2t", pid: "C02", bound: 2, threads: vec![vec![seed(&pa, "TREZOR"), seed(&pb, "")], vec![seed(&pb, "TREZOR")]], max_schedules: 50_000, warmup: vec![] },
        Scenario { name: "derive-prefix-chain-two-seeds-2t", pid: "C03", bound: 2, threads: vec![vec![derive(0, &acct(0)), derive(0, &[44 | HARD])], vec![derive(1, &acct(0)), derive(0, &[44 | HARD, 60 | HARD, HARD])]], max_schedules: 50_000, warmup: vec![] },
        Scenario { name: "derive-siblings-2t", pid: "C03", bound: 2, threads: vec![vec![derive(0, &acct(0)), derive(0, &acct(1))], vec![derive(0, &acct(1)), derive(1, &acct(1))]], max_schedules: 50_000, warmup: vec![] },
        Scenario { name: "address-of-different-keys-2t", pid: "C04", bound: 2, threads: vec![vec![addr(0), addr(2)], vec![addr(1), addr(0)]], max_schedules: 50_000, warmup: vec![] },
        Scenario { name: "sign-different-keys-2t", pid: "C05", bound: 2, threads: vec![vec![sign(0, 0x11), sign(0, 0x22)], vec![sign(1, 0x11), sign(0, 0x11)]], max_schedules: 50_000, warmup: vec![] },
        Scenario { name: "sign-three-keys-3t", pid: "C05", bound: 2, threads: vec![vec![sign(0, 0x11)], vec![sign(1, 0x11)], vec![sign(2, 0x11)]], max_schedules: 50_000, warmup: vec![] },
        Scenario { name: "transactions-of-two-kinds-two-keys-2t", pid: "C06", bound: 2, threads: vec![vec![txop(Kind::Legacy, 0), txop(Kind::Eip1559, 0)], vec![txop(Kind::Eip1559, 1), txop(Kind::Eip2930, 0)]], max_schedules: 50_000, warmup: vec![] },
        Scenario { name: "typed-data-same-names-other-members-2t", pid: "C08", bound: 2, threads: vec![vec![typed(&d1), typed(&d2)], vec![typed(&d2), typed(&d1)]], max_schedules: 50_000, warmup: vec![] },
        Scenario { name: "generate-2t", pid: "C12", bound: 3, threads: vec![vec![Op::Random { words: 12 }], vec![Op::Random { words: 24 }]], max_schedules: 50_000, warmup: vec![] },
        Scenario { name: "generate-then-parse-2t", pid: "C12", bound: 2, threads: vec![vec![Op::Random { words: 12 }, Op::Random { words: 12 }], vec![Op::Random { words: 12 }, parse(&pa)]], max_schedules: 50_000, warmup: vec![] },
    ];
    if thorough {
        v.push(Scenario { name: "first-use-of-the-word-list-3t", pid: "C01", bound: 3, threads: vec![vec![parse(&pa)], vec![parse(&pb)], vec![parse(&bad)]], max_schedules: 400_000, warmup: vec![] });
        v.push(Scenario { name: "sign-different-keys-2t-b4", pid: "C05", bound: 4, threads: vec![vec![sign(0, 0x11), sign(0, 0x22)], vec![sign(1, 0x11), sign(0, 0x11)]], max_schedules: 400_000, warmup: vec![] });
        v.push(Scenario { name: "sign-three-keys-3t-b3", pid: "C05", bound: 3, threads: vec![vec![sign(0, 0x11), sign(1, 0x22)], vec![sign(1, 0x11)], vec![sign(2, 0x11), sign(0, 0x22)]], max_schedules: 400_000, warmup: vec![] });
        v.push(Scenario { name: "derive-three-threads-3t", pid: "C03", bound: 3, threads: vec![vec![derive(0, &acct(0))], vec![derive(0, &[44 | HARD])], vec![derive(1, &acct(0))]], max_schedules: 400_000, warmup: vec![] });
        v.push(Scenario { name: "generate-3t", pid: "C12", bound: 3, threads: vec![vec![Op::Random { words: 12 }], vec![Op::Random { words: 15 }], vec![Op::Random { words: 24 }]], max_schedules: 400_000, warmup: vec![] });
        v.push(Scenario { name: "mixed-3t", pid: "C17", bound: 2, threads: vec![vec![parse(&pa), sign(0, 0x11)], vec![seed(&pb, ""), typed(&d1)], vec![derive(0, &acct(0)), txop(Kind::Legacy, 1)]], max_schedules: 400_000, warmup: vec![] });
    }
    v
}

/// the message of the first panic in a child's stderr (loom reports a deadlock by panicking; the process may then abort in a destructor)
fn first_panic(stderr: &str) -> Option<String> { let mut it = stderr.lines(); while let Some(l) = it.next() { if l.contains("panicked at") { return it.find(|x| !x.trim().is_empty()).map(|x| x.trim().chars().take(300).collect()); } } None }
fn esc(s: &str) -> String { s.replace('\\', "\\\\").replace('"', "\\\"").replace('\n', "\\n") }

/// child: explores one scenario, writes a JSON result file
fn explore(sc: &Scenario, result_path: &str, checkpoint: &str, replay: bool) {
    static SCHEDULES: AtomicU64 = AtomicU64::new(0);
    let outcomes: Arc<Mutex<BTreeMap<String, u64>>> = Default::default();
    let violation: Arc<Mutex<Option<String>>> = Default::default();
    let (o2, v2, sc2) = (outcomes.clone(), violation.clone(), sc.clone());
    let mut b = loom::model::Builder::new();
    b.preemption_bound = Some(sc.bound); b.max_threads = sc.threads.len() + 3; b.max_branches = 100_000; b.checkpoint_file = Some(checkpoint.into()); b.checkpoint_interval = 1;
    b.max_permutations = Some(if replay { 2 } else { sc.max_schedules });
    if !replay { let _ = std::fs::remove_file(checkpoint); }
    let start = std::time::Instant::now();
    let res = std::panic::catch_unwind(std::panic::AssertUnwindSafe(|| b.check(move || {
        SCHEDULES.fetch_add(1, Ordering::Relaxed);
        lstd::rt::new_execution();
        POINT.with(|c| *c.borrow_mut() = Some(Arc::new(loom::sync::atomic::AtomicUsize::new(0)))); CURSORS.with(|c| c.borrow_mut().clear()); STREAM_IDS.with(|c| c.borrow_mut().clear());
        // every thread of the scenario is spawned with a large stack (elliptic-curve arithmetic overflows loom's default
        // coroutine stack); the model's own thread only spawns and joins
        // the warm-up runs on a thread of its own as well (stack size), one call after the other, before the others are spawned
        let warm = sc2.warmup.clone();
        let warm_results: Vec<Result<String, String>> = if warm.is_empty() { Vec::new() } else { loom::thread::Builder::new().stack_size(1 << 18).spawn(move || warm.iter().map(|o| o.run()).collect::<Vec<_>>()).expect("spawn").join().expect("the warm-up thread panicked") };
        let handles: Vec<_> = sc2.threads.iter().cloned().map(|ops| loom::thread::Builder::new().stack_size(1 << 18).spawn(move || ops.iter().map(|o| o.run()).collect::<Vec<_>>()).expect("spawn")).collect();
        let mut results: Vec<Vec<Result<String, String>>> = Vec::new();
        for h in handles { results.push(h.join().expect("a thread of the scenario panicked")); }
        lstd::rt::end_execution();
        // oracle: every call agrees with the reference for its own arguments; a generated phrase has the requested length and its
        // entropy is a run of the bytes of one of the streams, and no byte is used by two generations
        let n_streams = STREAM_IDS.with(|c| c.borrow().len()); let streams: Vec<Vec<u8>> = (0..n_streams).map(stream_of).collect();
        let mut outcome = String::new(); let mut used: Vec<(usize, usize, usize)> = Vec::new();
        if let Some((k, Err(m))) = warm_results.iter().enumerate().find(|(_, r)| r.is_err()) { outcome = format!("VIOLATION warm-up call {} ({}): {m}", k + 1, sc2.warmup[k].label()); }
        if outcome.is_empty() {
        'all: for (t, rs) in results.iter().enumerate() { for (k, r) in rs.iter().enumerate() {
            match r {
                Err(m) => { outcome = format!("VIOLATION thread {t} call {} ({}): {m}", k + 1, sc2.threads[t][k].label()); break 'all; }
                Ok(o) if o.starts_with("phrase:") => { let ph = &o[7..]; let words = match &sc2.threads[t][k] { Op::Random { words } => *words, _ => 0 };
                    let toks: Vec<&str> = ph.split(' ').collect();
                    let ent = match bip39::tokens_to_entropy(&toks) { Ok(e) if toks.len() == words => e, _ => { outcome = format!("VIOLATION thread {t} call {}: generated '{ph}' is not a valid phrase of {words} words", k + 1); break 'all; } };
                    let found = streams.iter().enumerate().find_map(|(si, st)| st.windows(ent.len()).position(|w| w == ent.as_slice()).map(|p| (si, p, p + ent.len())));
                    match found { None => { outcome = format!("VIOLATION thread {t} call {}: the entropy {} of the generated phrase is not a run of the bytes the entropy source returned", k + 1, eth::hex(&ent)); break 'all; }
                        Some((si, a, b)) => { if used.iter().any(|(s2, a2, b2)| *s2 == si && a < *b2 && *a2 < b) { outcome = format!("VIOLATION thread {t} call {}: bytes {a}..{b} of the entropy source's answers were used for two generations", k + 1); break 'all; } used.push((si, a, b)); } } }
                Ok(_) => {}
            } } }
        }
        if outcome.is_empty() { outcome = results.iter().map(|rs| rs.iter().map(|r| { let o = r.as_ref().unwrap(); if o.starts_with("phrase:") { "phrase".to_string() } else { o.clone() } }).collect::<Vec<_>>().join(",")).collect::<Vec<_>>().join(" | "); }
        *o2.lock().unwrap().entry(outcome.clone()).or_insert(0) += 1;
        if outcome.starts_with("VIOLATION") { *v2.lock().unwrap() = Some(outcome.clone()); panic!("{outcome}"); }
    })));
    let n = SCHEDULES.load(Ordering::Relaxed);
    let mut viol = violation.lock().unwrap().clone();
    if let Err(p) = res { let msg = p.downcast_ref::<String>().cloned().or_else(|| p.downcast_ref::<&str>().map(|s| s.to_string())).unwrap_or_else(|| "panic".into()); if viol.is_none() { viol = Some(format!("VIOLATION schedule exploration stopped: {msg}")); } }
    let oc = outcomes.lock().unwrap();
    let capped = n as usize >= sc.max_schedules && !replay;
    let json = format!("{{\"scenario\":\"{}\",\"threads\":{},\"preemption_bound\":{},\"schedules\":{},\"capped\":{},\"wall_s\":{:.2},\"outcomes\":{{{}}},\"violation\":{}}}",
        sc.name, sc.threads.len(), sc.bound, n, capped, start.elapsed().as_secs_f64(), oc.iter().map(|(k, v)| format!("\"{}\":{}", esc(k), v)).collect::<Vec<_>>().join(","), match &viol { Some(v) => format!("\"{}\"", esc(v)), None => "null".into() });
    std::fs::write(result_path, json).expect("write result");
}

fn main() {
    let args: Vec<String> = std::env::args().skip(1).collect();
    if args.first().map(|s| s.as_str()) == Some("--child") {
        let sc = scenarios(args[2] == "thorough").into_iter().find(|s| s.name == args[1]).expect("scenario");
        explore(&sc, &args[3], &args[4], args.get(5).map(|s| s == "replay").unwrap_or(false));
        return;
    }
    // orchestrator: hdw-libloom <Cxx> --tier T [--only scenario:0]
    let pid = args.first().cloned().unwrap_or_default();
    let tier = args.iter().position(|a| a == "--tier").map(|i| args[i + 1].clone()).or_else(|| std::env::var("VERIF_TIER").ok()).unwrap_or_else(|| "quick".into());
    let only: Option<String> = args.iter().position(|a| a == "--only").map(|i| args[i + 1].rsplit_once(':').map(|x| x.0.to_string()).unwrap_or_default());
    let scratch = std::env::var("VERIF_SCRATCH").unwrap_or_else(|_| "/verif/target/scratch".into()); let _ = std::fs::create_dir_all(&scratch);
    let ckdir = format!("{}/replays/{pid}", std::env::var("VERIF_ROOT").unwrap_or_else(|_| "/verif".into())); let _ = std::fs::create_dir_all(&ckdir);
    let exe = std::env::current_exe().unwrap(); let start = std::time::Instant::now();
    // C17 (no panic, no deadlock) uses every scenario; the others their own
    let scs: Vec<Scenario> = scenarios(tier == "thorough").into_iter().filter(|s| only.as_ref().map_or(true, |o| o == s.name)).filter(|s| pid == "C17" || s.pid == pid).collect();
    let handles: Vec<_> = scs.iter().map(|sc| { let (exe, scratch, tier, sc, replay, ckdir, pid) = (exe.clone(), scratch.clone(), tier.clone(), sc.clone(), only.is_some(), ckdir.clone(), pid.clone());
        std::thread::spawn(move || {
            let res = format!("{scratch}/libloom-{pid}-{}.json", sc.name); let _ = std::fs::remove_file(&res);
            let ck = if replay { format!("{ckdir}/libloom-{}.ckpt", sc.name) } else { format!("{scratch}/libloom-{pid}-{}.ckpt", sc.name) };
            let mut c = std::process::Command::new(&exe); c.args(["--child", sc.name, &tier, &res, &ck]); if replay { c.arg("replay"); }
            // a child must not outlive the orchestrator (a driver time-out would otherwise leave explorations running)
            unsafe { use std::os::unix::process::CommandExt; c.pre_exec(|| { extern "C" { fn prctl(option: i32, arg2: u64, arg3: u64, arg4: u64, arg5: u64) -> i32; } prctl(1, 9, 0, 0, 0); Ok(()) }); }
            let out = c.stdout(std::process::Stdio::null()).stderr(std::process::Stdio::piped()).output().expect("spawn child");
            let text = std::fs::read_to_string(&res).ok();
            if text.as_ref().map_or(true, |t| t.contains("\"violation\":\"")) && !replay { let _ = std::fs::copy(&ck, format!("{ckdir}/libloom-{}.ckpt", sc.name)); }
            (sc, text, out.status.code(), String::from_utf8_lossy(&out.stderr).into_owned())
        }) }).collect();
    let (mut sweeps, mut viols, mut classes, mut samples, errors) = (Vec::new(), Vec::new(), Vec::new(), Vec::new(), Vec::<String>::new()); let mut notes: Vec<String> = vec!["libloom layer: complete schedules of 2-3 threads calling the real library (compiled unmodified against loom's thread / sync; statics reset before every execution); a library without shared mutable state yields only the schedules of spawn and join, which is the finding".to_string()];
    let (mut states, mut evals) = (0u64, 0u64);
    for h in handles {
        let (sc, text, code, stderr) = h.join().unwrap();
        let mut desc: Vec<Vec<String>> = sc.threads.iter().map(|t| t.iter().map(|o| o.label()).collect()).collect(); if !sc.warmup.is_empty() { desc.insert(0, std::iter::once("warm-up, before the threads start:".to_string()).chain(sc.warmup.iter().map(|o| o.label())).collect()); }
        let replay = serde_json::json!({"sweep": sc.name, "index": 0, "kind": "libloom", "threads": desc, "checkpoint": format!("{ckdir}/libloom-{}.ckpt", sc.name)});
        match text.and_then(|t| serde_json::from_str::<serde_json::Value>(&t).ok()) {
            None if stderr.contains("already borrowed") || stderr.contains("already mutably borrowed") => { notes.push(format!("scenario {} given up: the implementation keeps thread-local state that loom's threads share; not explored", sc.name)); }
            None => { let tail: String = stderr.lines().rev().take(12).collect::<Vec<_>>().into_iter().rev().collect::<Vec<_>>().join(" | ");
                let first = first_panic(&stderr).unwrap_or_default(); let kind = if first.starts_with("deadlock") { "deadlock" } else { "aborted" };
                viols.push(serde_json::json!({"sig": format!("{pid}:lib-schedules:{}:{kind}", sc.name), "what": format!("schedule exploration of concurrent library calls stopped: {first} (child status {code:?}; {tail})"), "replay": replay})); }
            Some(v) => {
                let n = v["schedules"].as_u64().unwrap_or(0); states += n; evals += n * sc.threads.iter().map(|t| t.len() as u64).sum::<u64>();
                let oc = v["outcomes"].as_object().cloned().unwrap_or_default();
                for k in oc.keys() { classes.push(format!("{}:{}", sc.name, k)); }
                let capped = v["capped"].as_bool().unwrap_or(false);
                sweeps.push(serde_json::json!({"name": sc.name, "cases": n, "bound": format!("loom DPOR over the real library compiled against loom's thread / sync: {} threads {:?}, preemption bound {}; {} schedules, every call compared with the reference", sc.threads.len(), desc, sc.bound, n), "exhaustive": !capped, "cap": if capped { serde_json::json!(format!("stopped at {} schedules", n)) } else { serde_json::Value::Null }}));
                samples.push(serde_json::json!({"sweep": sc.name, "case": {"threads": desc, "preemption_bound": sc.bound, "schedules": n, "outcome_histogram": oc, "wall_s": v["wall_s"]}}));
                // thread-local state of the implementation is per OS thread, and loom runs all its threads on one: a RefCell in
                // a thread_local! that is borrowed across a scheduling point looks "already borrowed" to the next loom thread.
                // That is an artefact of the explorer, not a behaviour of the implementation: the scenario is given up.
                let artefact = v["violation"].as_str().map_or(false, |w| w.contains("already borrowed") || w.contains("already mutably borrowed") || w.contains("Is the model fully deterministic"));
                if artefact { notes.push(format!("scenario {} given up: the implementation keeps thread-local state that loom's threads (coroutines of one OS thread) share; not explored", sc.name)); }
                if let Some(what) = v["violation"].as_str().filter(|_| !artefact) { let kind = if what.contains("deadlock") { "deadlock" } else if what.contains("stopped") || what.contains("panicked") { "panic" } else if what.contains("entropy") || what.contains("not a valid phrase") { "entropy" } else { "differs-from-reference" };
                    let msg = format!("scenario {} ({} threads, preemption bound {}), after {} schedules: {}", sc.name, sc.threads.len(), sc.bound, n, what);
                    if kind == "panic" || kind == "deadlock" { viols.push(serde_json::json!({"sig": format!("{pid}:lib-schedules:{}:{kind}", sc.name), "what": msg, "replay": replay, "panic": true})); } else { viols.push(serde_json::json!({"sig": format!("{pid}:lib-schedules:{}:{kind}", sc.name), "what": msg, "replay": replay})); } }
            }
        }
    }
    // C17 is about panics, aborts and hangs only: a wrong result is the business of the property it belongs to
    if pid == "C17" { viols.retain(|v| { let s = v["sig"].as_str().unwrap_or(""); s.ends_with(":panic") || s.ends_with(":deadlock") || s.ends_with(":aborted") }); }
    let nv = viols.len();
    let part = serde_json::json!({"property": pid, "layer": "libloom", "tier": tier, "seed": 0, "threads": scs.len(), "wall_s": start.elapsed().as_secs_f64(), "sweeps": sweeps, "evaluations": evals, "states": states, "transitions": states, "traces": states,
        "classes": classes, "samples": samples, "violations": viols, "violations_total": nv, "guards": [], "engine_errors": errors, "notes": notes, "extra": {}, "replay_only": only});
    match std::env::var("VERIF_PART") { Ok(p) => std::fs::write(p, part.to_string()).unwrap(), Err(_) => { let mut e = std::io::stderr(); let _ = writeln!(e, "{}", part); } }
    std::process::exit(if !errors.is_empty() { 2 } else if nv > 0 { 1 } else { 0 });
}

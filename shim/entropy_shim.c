/* LD_PRELOAD shim that owns the operating system's entropy source for one process.
 *
 * Interposed: getentropy(3), getrandom(2) (libc wrapper), and open/open64/openat + read of /dev/urandom and /dev/random.
 * Requests made with GRND_INSECURE or GRND_NONBLOCK (Rust std's hash-map seeding) are served from the real source and
 * are not counted: they never carry key material.
 *
 * Control (environment):
 *   HDW_ENTROPY_MODE   "list:<file>"  one answer per line, consumed in request order: "ok <hex>" or "fail";
 *                                      after the last line every request fails (the horizon)
 *                      "stream:<seed>[:<fail_at>[:once]]"  request k (0-based) is answered with bytes derived from (seed, k);
 *                                      request number <fail_at> and all later ones fail (with ":once": only that one)
 *                      "cycle:<hex>[:<fail_at>[:once]]"  one continuous byte stream that cycles through <hex> and continues across
 *                                      requests (however many requests an implementation makes, the entropy is a prefix
 *                                      of the stream); request number <fail_at> fails (and all later ones unless ":once")
 *   HDW_READ_CHUNK     n: every read(2) of the process returns at most n bytes (short reads)
 *   HDW_ENTROPY_LOG    file; one line per scripted request: "<k> <len> <entry point> <ok|fail> <hex of the bytes returned>"
 */
#define _GNU_SOURCE
#include <dlfcn.h>
#include <errno.h>
#include <fcntl.h>
#include <pthread.h>
#include <stdarg.h>
#include <stdint.h>
#include <stdio.h>
#include <stdlib.h>
#include <string.h>
#include <sys/types.h>
#include <unistd.h>

static pthread_mutex_t mu = PTHREAD_MUTEX_INITIALIZER;
static int inited = 0, mode = 0; /* 0 passthrough, 1 list, 2 stream, 3 cycle */
static unsigned char *cycle = NULL; static size_t cycle_n = 0, cycle_pos = 0;
static char **list_lines = NULL; static long list_n = 0;
static uint64_t stream_seed = 0; static long fail_at = -1; static int fail_once = 0;
static long next_req = 0;
static FILE *logf = NULL;
static int urandom_fds[64]; static int n_urandom = 0;

static int hexval(char c) { if (c >= '0' && c <= '9') return c - '0'; if (c >= 'a' && c <= 'f') return c - 'a' + 10; if (c >= 'A' && c <= 'F') return c - 'A' + 10; return -1; }
static uint64_t mix(uint64_t seed, uint64_t a) {
    uint64_t z = seed + a * 0x9E3779B97F4A7C15ULL + 0x9E3779B97F4A7C15ULL;
    z = (z ^ (z >> 30)) * 0xBF58476D1CE4E5B9ULL; z = (z ^ (z >> 27)) * 0x94D049BB133111EBULL; return z ^ (z >> 31);
}
static void init_locked(void) {
    if (inited) return; inited = 1;
    const char *m = getenv("HDW_ENTROPY_MODE"); const char *lg = getenv("HDW_ENTROPY_LOG");
    if (lg) logf = fopen(lg, "a");
    if (!m) return;
    if (!strncmp(m, "list:", 5)) {
        mode = 1; FILE *f = fopen(m + 5, "r"); if (!f) { mode = 0; return; }
        char *line = NULL; size_t cap = 0; ssize_t n;
        while ((n = getline(&line, &cap, f)) >= 0) { while (n > 0 && (line[n - 1] == '\n' || line[n - 1] == '\r')) line[--n] = 0; if (n == 0) continue;
            list_lines = realloc(list_lines, sizeof(char *) * (list_n + 1)); list_lines[list_n++] = strdup(line); }
        free(line); fclose(f);
    } else if (!strncmp(m, "cycle:", 6)) {
        mode = 3; const char *h = m + 6; size_t n = 0; while (hexval(h[n]) >= 0) n++;
        cycle_n = n / 2; cycle = malloc(cycle_n ? cycle_n : 1); for (size_t i = 0; i < cycle_n; i++) cycle[i] = (unsigned char)(hexval(h[2 * i]) * 16 + hexval(h[2 * i + 1]));
        const char *end = h + n; if (*end == ':') { char *e2; fail_at = strtol(end + 1, &e2, 10); if (!strcmp(e2, ":once")) fail_once = 1; }
    } else if (!strncmp(m, "stream:", 7)) {
        mode = 2; char *end; stream_seed = strtoull(m + 7, &end, 10); if (*end == ':') { fail_at = strtol(end + 1, &end, 10); if (!strcmp(end, ":once")) fail_once = 1; }
    }
}
/* returns 0 ok, -1 fail; 1 = not scripted (passthrough) */
static int scripted(unsigned char *buf, size_t len, const char *entry) {
    pthread_mutex_lock(&mu); init_locked();
    if (mode == 0) { pthread_mutex_unlock(&mu); return 1; }
    long k = next_req++; int ok = 1;
    if (mode == 1) {
        if (k >= list_n || !strncmp(list_lines[k], "fail", 4)) ok = 0;
        else { const char *h = list_lines[k] + 3; size_t hl = strlen(h) / 2; if (hl == 0) { memset(buf, 0, len); } else for (size_t i = 0; i < len; i++) { size_t j = i % hl; buf[i] = (unsigned char)(hexval(h[2 * j]) * 16 + hexval(h[2 * j + 1])); } }
    } else if (mode == 3) {
        if (fail_at >= 0 && (fail_once ? k == fail_at : k >= fail_at)) ok = 0;
        else for (size_t i = 0; i < len; i++) { buf[i] = cycle_n ? cycle[cycle_pos % cycle_n] : 0; cycle_pos++; }
    } else {
        if (fail_at >= 0 && (fail_once ? k == fail_at : k >= fail_at)) ok = 0;
        else { uint64_t base = mix(stream_seed, (uint64_t)k); for (size_t i = 0; i < len; i++) buf[i] = (unsigned char)(mix(base, i / 8) >> (8 * (i % 8))); }
    }
    if (logf) { fprintf(logf, "%ld %zu %s %s ", k, len, entry, ok ? "ok" : "fail"); if (ok) for (size_t i = 0; i < len; i++) fprintf(logf, "%02x", buf[i]); fprintf(logf, "\n"); fflush(logf); }
    pthread_mutex_unlock(&mu);
    if (!ok) { errno = EIO; return -1; }
    return 0;
}
int getentropy(void *buf, size_t len) {
    if (len > 256) { errno = EIO; return -1; }
    int r = scripted(buf, len, "getentropy");
    if (r == 1) { int (*real)(void *, size_t) = dlsym(RTLD_NEXT, "getentropy"); return real(buf, len); }
    return r;
}
ssize_t getrandom(void *buf, size_t len, unsigned int flags) {
    ssize_t (*real)(void *, size_t, unsigned int) = dlsym(RTLD_NEXT, "getrandom");
    if (flags & (0x4 | 0x1)) return real(buf, len, flags); /* GRND_INSECURE | GRND_NONBLOCK: hash-map seeding, not key material */
    int r = scripted(buf, len, "getrandom");
    if (r == 1) return real(buf, len, flags);
    return r == 0 ? (ssize_t)len : -1;
}
static int is_random_path(const char *p) { return p && (!strcmp(p, "/dev/urandom") || !strcmp(p, "/dev/random")); }
static void note_fd(int fd) { pthread_mutex_lock(&mu); if (fd >= 0 && n_urandom < 64) urandom_fds[n_urandom++] = fd; pthread_mutex_unlock(&mu); }
static int is_random_fd(int fd) { int r = 0; pthread_mutex_lock(&mu); for (int i = 0; i < n_urandom; i++) if (urandom_fds[i] == fd) r = 1; pthread_mutex_unlock(&mu); return r; }
int open(const char *path, int flags, ...) { va_list ap; va_start(ap, flags); mode_t m = va_arg(ap, mode_t); va_end(ap);
    int (*real)(const char *, int, ...) = dlsym(RTLD_NEXT, "open"); int fd = real(path, flags, m); if (is_random_path(path)) note_fd(fd); return fd; }
int open64(const char *path, int flags, ...) { va_list ap; va_start(ap, flags); mode_t m = va_arg(ap, mode_t); va_end(ap);
    int (*real)(const char *, int, ...) = dlsym(RTLD_NEXT, "open64"); int fd = real(path, flags, m); if (is_random_path(path)) note_fd(fd); return fd; }
int openat(int dirfd, const char *path, int flags, ...) { va_list ap; va_start(ap, flags); mode_t m = va_arg(ap, mode_t); va_end(ap);
    int (*real)(int, const char *, int, ...) = dlsym(RTLD_NEXT, "openat"); int fd = real(dirfd, path, flags, m); if (is_random_path(path)) note_fd(fd); return fd; }
/* HDW_READ_CHUNK=<n>: every read(2) returns at most n bytes (the environment's legal "short read" answer, owned by the harness) */
static long read_chunk = -2;
ssize_t read(int fd, void *buf, size_t len) {
    ssize_t (*real)(int, void *, size_t) = dlsym(RTLD_NEXT, "read");
    if (read_chunk == -2) { const char *c = getenv("HDW_READ_CHUNK"); read_chunk = c ? strtol(c, NULL, 10) : -1; }
    if (read_chunk > 0 && len > (size_t)read_chunk) len = (size_t)read_chunk;
    if (n_urandom > 0 && is_random_fd(fd)) { int r = scripted(buf, len, "read-urandom"); if (r == 1) return real(fd, buf, len); return r == 0 ? (ssize_t)len : -1; }
    return real(fd, buf, len);
}
int close(int fd) { int (*real)(int) = dlsym(RTLD_NEXT, "close");
    pthread_mutex_lock(&mu); for (int i = 0; i < n_urandom; i++) if (urandom_fds[i] == fd) { urandom_fds[i] = urandom_fds[--n_urandom]; break; } pthread_mutex_unlock(&mu); return real(fd); }

#!/bin/bash
# confirm_seeded.sh <worktree> <A|B> : confirms a seeded change in its scratch worktree:
#   with the change: the repository's suite passes and the demonstration fails; without it: the demonstration passes
WT=$1; X=$2; M=$WT/MUTATION/$X; cd $WT || exit 9
export CARGO_NET_OFFLINE=true
git checkout -q -- . ; git clean -qfd -e MUTATION -e target
rundemo() { if [ -f $M/demo.rs ]; then cp $M/demo.rs tests/demo.rs; for f in $M/*.py $M/docs; do [ -e "$f" ] && cp -r $f tests/ 2>/dev/null; done; cargo test --offline --test demo >$M/.demo.log 2>&1; rc=$?; rm -rf tests/demo.rs; return $rc; else (cd $WT && bash $M/demo.sh >$M/.demo.log 2>&1); return $?; fi; }
git apply $M/patch.diff || { echo "$WT $X: PATCH DOES NOT APPLY"; exit 1; }
cargo test --offline --workspace --no-fail-fast >$M/.suite.log 2>&1; suite=$?
rundemo; with=$?
git checkout -q -- . ; git clean -qfd -e MUTATION -e target
rundemo; without=$?
git checkout -q -- . ; git clean -qfd -e MUTATION -e target
echo "$WT $X: suite_with_change=$suite demo_with_change=$with demo_without_change=$without  $( [ $suite = 0 ] && [ $with != 0 ] && [ $without = 0 ] && echo CONFIRMED || echo NOT-CONFIRMED)"

#!/usr/bin/env python3
"""Regenerates MANIFEST.json from lib/props_table.py (layers, levels, rules) and the per-property claim texts below."""
import json, os, sys
V = os.path.dirname(os.path.dirname(os.path.abspath(__file__)))
sys.path.insert(0, os.path.join(V, 'lib'))
from props_table import PROPS
old = json.load(open(os.path.join(V, 'MANIFEST.json')))
text = {c['property_id']: c['level_claimed']['text'] for c in old['checks']}
eng = {"L": "hdw-mc", "P": "hdw-cli-mc", "loom": "hdw-loom"}
tech = {"model_checking": "explicit-state model checking (stateright BFS over a history space, every state executed on the real code)",
        "fault_enumeration": "exhaustive fault-script enumeration at the entropy boundary (owned environment, incl. loom schedules of the real search) with a reference model oracle",
        "exploration": "bounded exhaustive enumeration of input shapes (iterative deviation bounding) against a reference model"}
checks = []
for pid in sorted(PROPS):
    info = PROPS[pid]
    checks.append({"property_id": pid, "quick_cmd": f"./check {pid} --tier quick", "thorough_cmd": f"./check {pid} --tier thorough", "evidence_file": f"/verif/evidence/{pid}.json",
                   "replay_cmd_template": f"./check {pid} --replay {{path}}", "engine": "+".join(eng[l] for l in info['layers']),
                   "level_claimed": {"category": info['level'], "text": text[pid], "design_ref": f"DESIGN.md section 4 ({pid})"},
                   "level_note": "; ".join(info['assumptions']),
                   "technique": "stateless model checking of the real code (loom DPOR, bounded preemptions) + bounded exhaustive input enumeration" if pid == "C18" else tech[info['level']]})
old['checks'] = checks
for e in old['engines']:
    for l, n in eng.items():
        if e['name'] == n: e['serves_properties'] = sorted(p for p in PROPS if l in PROPS[p]['layers'])
json.dump(old, open(os.path.join(V, 'MANIFEST.json'), 'w'), indent=1)
print('MANIFEST.json regenerated:', len(checks), 'checks')

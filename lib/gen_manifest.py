#!/usr/bin/env python3
"""Regenerates MANIFEST.json from lib/props_table.py (layers, levels, rules) and the per-property claim texts below."""
import json, os, sys
V = os.path.dirname(os.path.dirname(os.path.abspath(__file__)))
sys.path.insert(0, os.path.join(V, 'lib'))
from props_table import PROPS
old = json.load(open(os.path.join(V, 'MANIFEST.json')))
text = {c['property_id']: c['level_claimed']['text'] for c in old['checks']}
eng = {"L": "hdw-mc", "P": "hdw-cli-mc", "loom": "hdw-loom", "libloom": "hdw-libloom"}
tech = {"model_checking": "explicit-state model checking (stateright BFS over a history space, every state executed on the real code)",
        "fault_enumeration": "exhaustive fault-script enumeration at the entropy boundary (owned environment, incl. loom schedules of the real search) with a reference model oracle",
        "exploration": "bounded exhaustive enumeration of input shapes (iterative deviation bounding) against a reference model"}
HIST = {"C01", "C02", "C03", "C04", "C05", "C06", "C08", "C09", "C10", "C14", "C15", "C20"}
checks = []
for pid in sorted(PROPS):
    info = PROPS[pid]
    checks.append({"property_id": pid, "quick_cmd": f"./check {pid} --tier quick", "thorough_cmd": f"./check {pid} --tier thorough", "evidence_file": f"/verif/evidence/{pid}.json",
                   "replay_cmd_template": f"./check {pid} --replay {{path}}", "engine": "+".join(eng[l] for l in info['layers']),
                   "level_claimed": {"category": info['level'], "text": text[pid], "design_ref": f"DESIGN.md section 4 ({pid})"},
                   "level_note": "; ".join(info['assumptions']),
                   "technique": ("stateless model checking of the real code (loom DPOR, bounded preemptions) + bounded exhaustive input enumeration" if pid == "C18" else tech[info['level']])
                                + (" + exhaustive operation sequences up to depth 3-4 on one thread against the reference (non-initial states)" if pid in HIST else "")
                                + (" + stateless model checking of concurrent calls into the real library (loom DPOR, bounded preemptions, library compiled unmodified against a loom-backed std)" if "libloom" in info['layers'] else "")})
old['checks'] = checks
if not any(e['name'] == 'hdw-libloom' for e in old['engines']):
    old['engines'].insert(3, {'name': 'hdw-libloom', 'path': 'mcloom/lib-loom', 'serves_properties': [], 'kind_free_text': 'loom DPOR schedule exploration of 2-3 threads calling the real library, which is compiled unmodified (mcloom/hdwallet-loomed/src -> /repo/src) against mcloom/loomstd, a std whose thread / sync are loom-backed and const-constructible, with statics reset before every execution (E3)'})
for e in old['engines']:
    for l, n in eng.items():
        if e['name'] == n: e['serves_properties'] = sorted(p for p in PROPS if l in PROPS[p]['layers'])
json.dump(old, open(os.path.join(V, 'MANIFEST.json'), 'w'), indent=1)
print('MANIFEST.json regenerated:', len(checks), 'checks')

#!/usr/bin/env python3
"""Regenerate the as-built table of DESIGN.md section 4 from evidence/*.json (quick tier, current tree)."""
import json, os, re, sys
root = os.path.dirname(os.path.dirname(os.path.abspath(__file__)))
sys.path.insert(0, os.path.join(root, "lib"))
from props_table import PROPS
rows = ["| id | layers | level | executions | states | classes | sweeps (cases) |", "|---|---|---|---|---|---|---|"]
for pid in sorted(PROPS):
    ev = json.load(open(os.path.join(root, "evidence", pid + ".json")))
    cov = ev.get("coverage", {})
    sweeps = cov.get("sweeps", {})
    if isinstance(sweeps, dict):
        items = [(k, v.get("cases", v) if isinstance(v, dict) else v) for k, v in sweeps.items()]
    else:
        items = [(s.get("name"), s.get("cases")) for s in sweeps]
    if pid == "C17":
        txt = "union of all library sweeps above (%d sweeps) plus " % sum(1 for k, _ in items if not re.match(r"(huge|array-suffix|json-nest|dependency|type-name|path-neigh|account-index|phrase-neigh|cli-)", k or ""))
        txt += "; ".join("%s %s" % (k, n) for k, n in items if re.match(r"(huge|array-suffix|json-nest|dependency|type-name|path-neigh|account-index|phrase-neigh|cli-)", k or ""))
    else:
        txt = "; ".join("%s %s" % (k, n) for k, n in items)
    rows.append("| %s | %s | %s | %s | %s | %s | %s |" % (pid, "+".join(PROPS[pid]["layers"]), PROPS[pid]["level"],
                cov.get("evaluations", "—"), cov.get("states", "—"), cov.get("distinct_nontrivial", "—"), txt))
p = os.path.join(root, "DESIGN.md"); s = open(p).read()
a = s.index("| id | layers | level | executions |"); b = s.index("\n\n", a)
open(p, "w").write(s[:a] + "\n".join(rows) + s[b:])
print("table regenerated:", len(rows) - 2, "rows")

import json,sys
d=json.load(open(sys.argv[1]))
print({k:d[k] for k in ['evaluations','states','transitions','traces','violations_total','engine_errors']}, 'wall=%.1f'%d['wall_s'], 'classes=%d'%len(d['classes']))
for s in d['sweeps']: print('  sweep',s['name'],s['cases'])
for g in d['guards']:
    if not g['ok']: print('  GUARD FAIL',g)
sigs={}
for v in d['violations']: sigs.setdefault(v['sig'],v['what'])
for k,v in list(sigs.items())[:40]: print('  V',k,'|',v[:200])
if d.get('extra'): print('  extra',d['extra'])

#!/usr/bin/env python3
"""run_seeded.py <seeded dir> [--tier quick|thorough] [check ids...]: applies a seeded change to /repo, runs checks, undoes it."""
import json, os, subprocess, sys, time
d = os.path.abspath(sys.argv[1]); args = sys.argv[2:]
tier = 'quick'
if '--tier' in args: i = args.index('--tier'); tier = args[i + 1]; del args[i:i + 2]
meta = json.load(open(os.path.join(d, 'meta.json')))
checks = args or [meta['property']]
def git(*a): return subprocess.run(['git', '-C', '/repo'] + list(a), stdout=subprocess.PIPE, stderr=subprocess.STDOUT, text=True)
if git('status', '--porcelain').stdout.strip(): sys.exit('/repo is not clean')
r = git('apply', os.path.join(d, 'patch.diff'))
if r.returncode: sys.exit('patch does not apply: ' + r.stdout)
res = {}
try:
    for c in checks:
        t0 = time.time()
        p = subprocess.run(['./check', c, '--tier', tier], cwd='/verif', stdout=subprocess.PIPE, stderr=subprocess.DEVNULL, text=True)
        lines = [l for l in p.stdout.splitlines() if l.startswith(('VIOLATION', 'ENGINE', '  C', 'KNOWN', 'OK'))]
        res[c] = {'exit': p.returncode, 'wall_s': round(time.time() - t0, 1), 'lines': lines[:12]}
        print(f'{os.path.basename(d)} check {c} [{tier}]: exit {p.returncode} in {res[c]["wall_s"]}s'); [print('   ' + l[:260]) for l in lines[:6]]
finally:
    git('checkout', '--', '.'); git('clean', '-fdq')
meta.setdefault('detection', {}).setdefault(tier, {}).update(res)
json.dump(meta, open(os.path.join(d, 'meta.json'), 'w'), indent=1, ensure_ascii=False)

#!/bin/bash
# store_seeded.sh <worktree> <X> <key> "<needs>": confirm in the worktree, copy to seeded/<key>, run detection
WT=$1; X=$2; KEY=$3; NEEDS=$4
OUT=$(/verif/lib/confirm_seeded.sh $WT $X); echo "$OUT"
echo "$OUT" | grep -q " CONFIRMED" || { echo "NOT CONFIRMED: $KEY"; exit 1; }
mkdir -p /verif/seeded/$KEY; (cd $WT/MUTATION/$X && for f in *; do cp -r "$f" /verif/seeded/$KEY/; done)
PID=${KEY%%-*}
python3 - "$KEY" "$PID" "$NEEDS" "${ROUND_NOTE:-round 2: asked for a change that a careful reviewer and a boundary-value sweep would miss}" <<'PY'
import json,sys
key,pid,needs,note=sys.argv[1:5]
json.dump({"property":pid,"breaks":"see README.md","needs_to_manifest":needs,"origin":"independent sub-agent given only the property text and a scratch worktree ("+note+")","confirmed":{"how":"lib/confirm_seeded.sh in the scratch worktree: git apply patch.diff; cargo test --offline --workspace (33 tests) passes; demonstration fails; after git checkout the demonstration passes","result":"CONFIRMED"}},open(f"/verif/seeded/{key}/meta.json","w"),indent=1)
PY
/verif/lib/run_seeded.py /verif/seeded/$KEY 2>&1 | cut -c1-250 | head -4

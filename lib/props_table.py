"""Per-property metadata used by the driver: claimed level, enumeration rule, layers (runners), assumptions."""

COMMON = [
    "the reference model (mc/refmodel) implements the cited standards correctly; it is validated by embedded known-answer tests from the standards on every run and cross-validated against an independent Python reference in setup",
    "rustc/cargo and, for library-level checks, the serde_json/clap front ends that are part of the subject",
    "bounded exhaustive enumeration covers every input SHAPE within the stated bounds, not every value of 2^128..2^256-element domains",
]

PROPS = {
    "C01": {
        "level": "exploration", "layers": ["L"],
        "rule": "exhaustive enumeration: every word (2048) in every position of every valid length with the checksum word recomputed by the reference, all 2048 final-word candidates, word counts 0..=40 x all final words, every single-bit entropy, unknown tokens at every position, whitespace layouts at every gap; oracle = reference BIP-39 on bit strings with its own pinned word list",
        "assumptions": COMMON + ["entropy values other than the seed-rotated fillers are represented by every (position, word) and every single entropy bit; a defect needing three or more specific words together is outside the bound"],
    },
}

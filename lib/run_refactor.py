#!/usr/bin/env python3
"""run_refactor.py <patch.diff> [check ids...]: applies a behaviour-preserving refactoring to /repo, runs quick checks (all by default), undoes it.
Every check must exit 0 (or 2 with an ENGINE note when a harness cannot be built against a changed API): exit 1 would be a false alarm."""
import json, os, subprocess, sys, time
patch = os.path.abspath(sys.argv[1]); checks = sys.argv[2:] or [f"C{i:02d}" for i in range(1, 21)]
def git(*a): return subprocess.run(['git', '-C', '/repo'] + list(a), stdout=subprocess.PIPE, stderr=subprocess.STDOUT, text=True)
if git('status', '--porcelain').stdout.strip(): sys.exit('/repo is not clean')
r = git('apply', patch)
if r.returncode: sys.exit('patch does not apply: ' + r.stdout)
res = {}
try:
    for c in checks:
        t0 = time.time()
        p = subprocess.run(['./check', c, '--tier', 'quick'], cwd='/verif', stdout=subprocess.PIPE, stderr=subprocess.DEVNULL, text=True)
        lines = [l for l in p.stdout.splitlines() if l.startswith(('VIOLATION', 'ENGINE', '  C', 'OK'))]
        res[c] = {'exit': p.returncode, 'wall_s': round(time.time() - t0, 1), 'lines': lines[:8]}
        print(f'{os.path.basename(os.path.dirname(patch))} {c}: exit {p.returncode} ({res[c]["wall_s"]}s)' + ('' if p.returncode == 0 else '\n   ' + '\n   '.join(l[:300] for l in lines[:6])), flush=True)
finally:
    git('checkout', '--', '.'); git('clean', '-fdq')
out = os.path.join(os.path.dirname(patch), 'checks.json')
try: allres = json.load(open(out))
except Exception: allres = {}
allres.update(res)  # a partial re-run (some checks only) keeps the other checks' last results
json.dump(allres, open(out, 'w'), indent=1)
